#!/usr/bin/env python3
"""Regenerates MANIFEST.json from the table below (kept in one place so it is always valid)."""
import json, subprocess

BASELINE_OFF = "cd /repo && cargo nextest run --workspace --no-fail-fast --tool-config-file pb:/w/lib/nextest.toml --profile pb --test-threads 8 --offline || cargo test --workspace --no-fail-fast --offline"

CHECKS = {
 "C01": dict(sim="store", level="exploration", ref="5 C01",
   text="Seeded search over multi-key put/overwrite/remove/read histories on the real SwarmDriver + NodeRecordStore (real files, shipped encrypt-records configuration) with the simulator choosing which parked background task (file write, delete, completion notification) runs next and injecting disk-write errors; every read is checked against the set of values ever written for that key and, at quiescence, against a sequential map model. Sampling, not proof: a clean batch is evidence. One run in eighty holds enough records for the periodic clean-up to apply (a cleaned-up key is a removed key).",
   note="Trusted: a gated task body is atomic w.r.t. other gated bodies (single-threaded runtime); same-key tasks kept in issue order in C01 (the property quantifies over orders between keys; C02 runs any order); the simulator replaces SwarmDriver::run; tmpfs file semantics; getrandom shim is the only entropy source.",
   technique="deterministic simulation: gate-scheduled background tasks + disk-fault injection, map-model oracle"),
 "C02": dict(sim="store", level="fault_enumeration", ref="5 C02",
   text="Histories are sampled by seed; inside each history the crash space is enumerated: after every executed background task the directory is copied and a fresh NodeRecordStore opened on it, and for every executed record write every byte prefix of the new file (with and without zero-filled tail) and bit flips are probed (all prefixes in thorough, 6 per write in quick); sampled Crash steps restart the whole driver; parked tasks of one key run in any order, and in a fifth of the runs the store's capacity equals the number of keys so that restarts meet a store filled to capacity. Oracle: durable-file model (complete value / absent / torn). A tenth of the runs move the node between networks (restart under another network id; nothing is required of that restart, everything of the later ones); a delete task scheduled by an acknowledgement for a key whose last operation is an accepted put does not update the durable model.",
   note="Crash model = process stop with surviving OS (completed fs::write durable; no power-loss/fsync model). Probes use NodeRecordStore::with_config on a copy; full-driver restarts go through the guarded constructor that mirrors build_node's store configuration.",
   technique="deterministic simulation: crash-point and torn-write enumeration per sampled history, durable-state oracle"),
 "C10": dict(sim="store", level="exploration", ref="5 C10",
   text="Seeded search over puts (including bursts with withheld acknowledgements), removes, responsible-range settings, clean-ups, payments, metric reads and restarts on a real store with capacity 2..8 or ~1638 pre-loaded records; admission, eviction, clean-up and quoting metrics are compared step by step with an independent model that recomputes XOR distances itself.",
   note="Trusted: as C01. Distances recomputed as sha256(a) xor sha256(b) by the harness. records_cache_size never 0.",
   technique="deterministic simulation: gate-scheduled background tasks + restarts, step-by-step capacity/eviction/metrics model"),
 "C03": dict(sim="node", level="exploration", ref="5 C03",
   text="Seeded search over sequences of client uploads (all kinds, paid and unpaid) to one real Node + SwarmDriver + store with 7-40 simulated neighbours (sparse and full routing tables) and a record cache of 1, 2 or 25 entries, each paid upload carrying a payment condition vector (signatures, payee membership, payee closeness, undecodable payee, expiry/future dating, per-quote on-chain result, RPC failure, own quote issued for another address) with mostly exactly one condition broken; after each upload is fully processed the store delta, the result and the payment-received notification are compared with the statement. Quote forms include genuine paid quotes whose content address or timestamp was rewritten after signing; close peers leave the routing table between uploads and are then named as payees.",
   note="Trusted: the simulator is the event loop/transport/ledger (real handlers called through guarded pass-throughs; verifyPayment answered by the in-process ledger shim); quote timestamps >= 10 min from the expiry boundary; shipped cache size.",
   technique="deterministic simulation: real node handlers under a simulated transport/ledger, byzantine payment proofs, condition-vector oracle"),
 "C04": dict(sim="node", level="exploration", ref="5 C04",
   text="Seeded search over record presentations (honest key, key of another record, random key, unparseable and oversized values) through the three entry paths (validate_and_store_record, RecordStore::put on the real store, replication fetch from a simulated holder); after each the store is compared with a model that only holds records under independently derived keys (sha3-256 of content / owner / label+owner), a refused presentation must be an error and change nothing, and reads between presentation and acceptance must not return unvalidated bytes. Oversized values include one of exactly the maximum packet size; RecordStore::put must refuse them at the door.",
   note="Trusted: as C03. The size limit is checked on the RecordStore::put path only (where the code enforces it).",
   technique="deterministic simulation: byzantine (key, content) presentations on three entry paths, independent key-derivation oracle"),
 "C07": dict(sim="node", level="exploration", ref="5 C07",
   text="Seeded search over paid uploads, unpaid updates and replicated copies of scratchpads (counters, signers, signature validity, content substituted under a genuine signature), transaction sets (incl. another owner's validly signed entries) and registers (op sets; owner, listed writer, stranger, and ops forged in a permitted writer's name); record cache of 1, 2 or 25 entries; configuration 'sequential' compares the store with a monotone/union model after every delivery, configuration 'concurrent' keeps 2-3 deliveries to one key in flight while the simulator interleaves the handling of their commands and disk writes in seeded order, and requires the order-independent merge at the end; configuration 'lagging_writes' validates deliveries one after another while disk writes and their acknowledgements are held back (the index lags what was accepted) and requires that an acknowledged delivery is what the node serves. Unsigned pads also come with counter 0; a twelfth of the sequential runs use a store of capacity 1 (every update meets a full store and concerns its farthest record).",
   note="Trusted: as C03. In the concurrent configuration equal-counter scratchpads may resolve either way.",
   technique="deterministic simulation: gate-scheduled interleaving of overlapping updates to one key, monotone/union model oracle"),
 "C05": dict(sim="getrecord", level="exploration", ref="5 C05",
   text="Seeded search over 1-4 concurrent callers of the real Network::get_record_from_network for one key (own quorum One / Majority / All / N(1..8) and expected record each) and a stream of kad progress events fed to the real SwarmDriver handlers in seeded order: FoundRecord from up to 8 peers holding up to 4 versions (opaque, registers incl. unverifiable, transaction sets, scratchpads valid/unsigned/forged, mixed kinds), duplicates, changed answers, late callers, callers that give up (future dropped) while others wait on the same query, and every terminal event. Each caller's outcome is judged against its own quorum and target: Ok needs >= Q distinct peers with byte-identical content matching the target, or the reference merge of the delivered versions; when differing versions had been delivered before the read completed, Ok must be their merge even if one version reached the quorum; every caller gets exactly one outcome and no query entry survives its terminal event. Every run is executed a second time under different HashMap seeds with byte-identical records and must give the same outcomes (hash-order metamorphic check).",
   note="Trusted: the simulator plays libp2p's kad query engine by emitting the kad::Event values the engine emits; back-off retries only with a single caller (unseeded jitter).",
   technique="deterministic simulation: synthetic kad progress events in seeded order against the real accumulation handlers, per-caller quorum/merge oracle"),
 "C14": dict(sim="client", level="exploration", ref="5 C14",
   text="Seeded search over inputs drawn around the self-encryption size-class boundaries (0..2 bytes, 3, k*MAX_CHUNK_SIZE +/- 1, random; random and repetitive content): the real encrypt() is run twice (chunk size, content addressing by an independent sha3-256, determinism), then the real Client::data_get_public reads the data back while the simulator completes the chunk queries in seeded order with duplicated replies; in mode fault one chunk query is answered not-found / timeout and the read must fail. Two builds are run: default (1 MiB chunks) and MAX_CHUNK_SIZE=1024, where inputs of 150-420 KiB need three data-map levels (four in the thorough tier; the harness counts levels itself). A third of the round trips read back another way: data_get (private data map), file_download[_public] onto absent / longer / shorter / same-length destinations, dir_download[_public] through real self-encrypted archives; half of the failed reads are retried against honest holders and must then succeed.",
   note="Trusted: the simulator plays the holders and the kad query engine; MAX_CHUNK_SIZE is compile-time (two builds); CHUNK_DOWNLOAD_BATCH_SIZE fixed to 3; upload/payment paths not exercised.",
   technique="deterministic simulation: seeded completion order and failure of chunk fetches against the real client read path, round-trip oracle"),
 "C15": dict(sim="client", level="exploration", ref="5 C15",
   text="Seeded search over client reads (chunk_get, data_get_public, fetch_and_decrypt_vault) against byzantine holders: one query answered with another valid chunk, a foreign chunk, a valid chunk under its own (other) key, the right bytes under the wrong kind or undecodable bytes; vault reads answered with seeded sets of scratchpads (valid with chosen counters, unsigned, signed by another key, inflated counter, another owner's, content substituted under the genuine counter and signature) from up to 8 peers, several holders returning byte-identical copies so that a version can reach the read's quorum, and any terminal event. Ok must hash to the requested address / equal the original data; a vault Ok must be the owner's validly signed pad with the highest counter among those received while the read was open, else Err. Half of the failed chunk / data reads are followed by a retry of the same address against honest holders: Ok must be the data at the address (a forged answer must not have been cached).",
   note="Trusted: as C14.",
   technique="deterministic simulation: byzantine holder replies against the real client read path, authenticity oracle"),
 "C06": dict(sim="registers", level="exploration", ref="5 C06",
   text="Seeded search over 2-5 replicas, each a real (SignedRegister, RegisterCrdt) pair, writers with real BLS keys and a pool of operations (authorised, unauthorised signer, forged signature, foreign address, oversized, concurrent, child-before-parent) travelling as op broadcasts and whole-register transfers (verified_merge, verify+merge, verify_with_address) over a simulated transport with reordering, duplication, loss until heal and partitions; adversarial registers arrive only through the verifying entry points. After every delivery each replica's ops are a subset of the independently computed valid set; merge laws are checked on sampled reachable states; after heal and full delivery all replicas hold equal ops and equal reads and every reachable state verifies at every peer; a 'limit' mode drives replicas across the 1024-entry limit. Forged kinds include re-addressed, re-parented and reshaped ops (parent hashes moved in front of the value: same crdt node hash, genuine signature).",
   note="Trusted: operation validity is decided from how the sim built the op, never by asking the code; under anyone-can-write every signer is valid; the transport is the simulator.",
   technique="deterministic simulation: simulated lossy/partitioned transport between real CRDT replicas, convergence + validity-set oracle"),
 "C08": dict(sim="fetcher", level="exploration", ref="5 C08",
   text="Seeded search over advertisement lists from up to 4 holders (single-key and multi-key, overlapping, differing versions), completions, early completions, range and fullness updates and timer expiries against the real ReplicationFetcher in simulated time (deadlines aged through the guarded age hook), checked call by call against a queue/in-flight model: no fetch of a held version, range and farthest limits, no duplicate in-flight entry, parallel-fetch cap, closest-first, exits from the in-flight set, timeout reporting, and bounded liveness once faults stop. Glue variant 2: mutable records updated in place through the real PutLocalRecord handler, then advertised in the version held - nothing may be fetched.",
   note="Trusted: age(d) on all stored Instant deadlines is observationally the clock advancing by d (deadlines kept >= 2.5 s from now, runs < 1 s real time); distances recomputed independently; where hash order decides between equal candidates the model adopts the observed choice.",
   technique="deterministic simulation: simulated time and holders against the real fetcher, queue/in-flight model oracle with bounded-liveness rounds"),
 "C18": dict(sim="bootcache", level="exploration", ref="5 C18",
   text="Seeded search over 1-4 'processes', each a real BootstrapCacheStore on its own OS thread sharing one cache file; flusher threads park at guarded gates between the steps of sync_and_flush_to_disk / write and the simulator releases exactly one at a time (or abandons one = crash, re-creating the named temp file a kill would leave). Operations: add_addr in all address shapes, status updates, removals, clean-ups, flushes with and without clean-up, crafted files with last_seen placed >= 61 s either side of the expiry boundary, limits 1-5 peers / 1-3 addrs. Faults: truncated / bit-flipped / empty / wrong-schema / other-network files, future-dated stamps, killed writers; if a commit left the inode unchanged every prefix of the new content is loaded as a crash state. After every atomic action the real load is compared with an independent reader and the bounds / well-formedness / merge / atomic-replace rules are checked. After every step the bootstrap lookup of a starting node (PeersArgs::get_bootstrap_addr with one --peer address, no network) must succeed whatever the state of the file; one run in 150 uses the shipped limits with a well-formed file of 5000+ addresses (over 1 MiB).",
   note="Trusted: real threads are released one at a time through a condvar handshake (no sleeps decide outcomes); wall-clock stamps kept away from boundaries; a run is re-executed when preemption inside the clock-sensitive trim loop exceeded the stamp gap.",
   technique="deterministic simulation: gate-scheduled interleaving of real flusher threads on one file, file-corruption and crash faults, bounds/merge/atomic-replace model"),
 "C19": dict(sim="services", level="exploration", ref="5 C19",
   text="Seeded search over sequences of antctl invocations (add, start, stop, remove, upgrade, status), each mirrored step by step from cmd/node.rs as a fresh 'process' (NodeRegistry::load, refresh, real add_node / ServiceManager operation, save) over a simulated OS implementing ServiceControl and RpcActions (installed definitions, process table, port allocators); the n-th OS/RPC call of an operation fails with an error the real implementation can return (one chosen step per plan has every failing-call index enumerated), external events (process death, manual uninstall) and registry-file corruption happen between steps, and a managed process can die right before the n-th OS/RPC call inside one invocation. After every invocation the registry file is checked against the simulated OS. `antctl status` runs the full refresh as shipped (the RpcClient that refresh_node_registry builds is swapped for the simulated RPC through a guarded factory seam); in a fifth of the runs the nodes live in another PID namespace (the pid reported over RPC is not the host pid).",
   note="Trusted: the antctl glue in cmd/node.rs hard-wires the real ServiceController/RpcClient and is mirrored, not run; std::thread::sleep waits are behind the trait (simulated time).",
   technique="deterministic simulation: simulated OS / RPC with failing-call injection under the real service-management code, registry-vs-OS oracle"),
 "C20": dict(sim="services", level="exploration", ref="5 C20",
   text="Inside the C19 simulator, option vectors antctl's own command line accepts go through add -> [start -> stop] -> upgrade across process boundaries (saved registry), with and without injected failures; the simulated OS records the ServiceInstallCtx at install and upgrade; program, user, env, autostart, working dir and the parsed meaning of the argument lists (obtained by running the real antnode binary with a guarded print-and-exit hook) must be equal except where the lifecycle changes something explicitly (port pinned after a start), and the installed meaning must equal the intended configuration derived independently from the option vector. Lifecycles restart stopped services; in failure-free lifecycles the port pinned by the upgrade must be the port the node reported last; log-file limits include 0.",
   note="Trusted: as C19; the hooked antnode binary is built from /repo's working tree by the check.",
   technique="deterministic simulation: persisted lifecycle under a simulated OS, translation check of argument lists through the real antnode parser"),
 "C09": dict(sim="cluster", level="exploration", ref="5 C09",
   text="Seeded search over 2-3 full real nodes in one process (Node + SwarmDriver + store + fetcher each, routing tables containing each other): seeded client uploads of all kinds incl. divergent versions of one mutable record at different nodes, replication rounds (clock past the throttle, TriggerIntervalReplication, Replicate lists, GetReplicatedRecord fetches, store_replicated_in_record) over a simulated transport that delays, reorders, duplicates and loses messages, partitions pairs of nodes, and injects advertisements from a peer that is not among the closest; nodes are stopped and restarted from their directories, get responsible ranges, have a record cache of 1, 2 or 25 entries, and the first disk write of a replicated copy can fail once; after the faults stop, 6 clean rounds must leave byte-identical immutable records and converged mutable records in the index of every node for which the record is in range; every periodic Replicate list must equal the sender's index as it was when the trigger was handled, and every advertised content hash must be the hash of the record held. In two fifths of the runs the routing tables hold more peers than the close group (3-8 filler peers), ranges are set by peer rank, filler peers leave / join, and adverts also come from a peer that left; convergence is required exactly when all nodes are mutual replication targets (harness metric) and every replication target must be sent the node's list during the clean rounds.",
   note="Trusted: the simulator carries the same Request/Response values between the real handlers (libp2p stubbed); all nodes mutual replication candidates, spare capacity; restarts are clean stops (local work completes first, messages stay in transit); Instant deadlines aged through the guarded hook.",
   technique="deterministic simulation: several real nodes over a simulated lossy transport, bounded-convergence oracle after faults stop"),
}

NOT_APPLICABLE = {
 "C11": "pure function of pairs/sets of addresses (no schedule, clock, fault, crash point or second party in the statement); deterministic simulation would only be input generation in disguise - see DESIGN.md section 6",
 "C12": "pure function of values and byte strings (encode/decode round trip, fixed tags); not a simulation target - DESIGN.md section 6",
 "C13": "pure function of (quote, claimed identity, now); not a simulation target - DESIGN.md section 6",
 "C16": "pure function of numbers and strings (token amount formatting/parsing/checked arithmetic); not a simulation target - DESIGN.md section 6",
 "C17": "pure function of strings/bytes (parsers never crash); its file-backed members are exercised under storage faults by C18/C19/C02 but that is not a decision of C17 - DESIGN.md section 6",
}
# properties whose sims are not built yet are listed as not claimed (kept current as sims land)
PENDING = {
}

def main():
    import os
    built = set(CHECKS)
    props = [json.loads(l)["id"] for l in open("/verif/properties.jsonl")]
    hooks_commits = subprocess.run(["git","-C","/repo","log","--format=%H %s","30f1684..HEAD"],capture_output=True,text=True).stdout.strip().splitlines()
    hook_shas = [l.split()[0] for l in hooks_commits if " verif hooks" in l]
    checks=[]
    for pid in props:
        if pid not in CHECKS: continue
        c=CHECKS[pid]
        checks.append({
          "property_id": pid,
          "quick_cmd": f"./run check {pid} --tier quick",
          "thorough_cmd": f"./run check {pid} --tier thorough",
          "evidence_file": f"/verif/evidence/{pid}.json",
          "replay_cmd_template": "./run replay {path}",
          "engine": f"antsim-{c['sim']}",
          "level_claimed": {"category": c["level"], "text": c["text"], "design_ref": "DESIGN.md section "+c["ref"]},
          "level_note": c["note"],
          "technique": c["technique"],
        })
    na=[{"property_id":k,"reason":v} for k,v in NOT_APPLICABLE.items()]
    for pid in props:
        if pid not in CHECKS and pid not in NOT_APPLICABLE:
            na.append({"property_id":pid,"reason":PENDING.get(pid,"not claimed yet: the simulator for this property (see DESIGN.md section 5) is not built/validated at this commit")})
    sims = sorted(set(c["sim"] for c in CHECKS.values()))
    m={
      "version":1,
      "setup_cmd":"./run setup",
      "hooks":{
        "guard":"maidsafe_safe_network_verif",
        "enable":"RUSTFLAGS=\"--cfg maidsafe_safe_network_verif --cfg tokio_unstable\" (set in /verif/sim/.cargo/config.toml; the sims link the /repo crates by path)",
        "baseline_off_cmd": BASELINE_OFF,
        "source_commits": hook_shas,
        "add_only": True,
      },
      "engines":[{"name":f"antsim-{s}","path":f"/verif/sim/{s}","serves_properties":[p for p,c in CHECKS.items() if c["sim"]==s],"kind_free_text":"deterministic simulator (seeded plans, gate scheduler, fault injection, reference-model oracle) linking the real /repo crates"} for s in sims],
      "checks":checks,
      "not_applicable":na,
      "notes":"All checks: ./run check <id> rebuilds the simulator against /repo's working tree (incremental cargo build, offline) and then explores; exit 0 held / 1 VIOLATION line + replay file / 2 harness error. Genuine defects found are in /verif/known_findings.json (KNOWN-FINDING lines) or repaired by 'fix:' commits in /repo (listed under 'fixed').",
    }
    json.dump(m,open("/verif/MANIFEST.json","w"),indent=1)
    print("wrote MANIFEST.json with",len(checks),"checks")
if __name__=="__main__": main()
