#!/usr/bin/env bash
# ./run selftest determinism [ids...]   (default: all claimed properties)
# For every property: the per-run fingerprints (event log, schedule, final state, violation count) of N seeded
# plans must be identical across separate processes and across worker counts (1 vs 16).
# exit 0 = identical everywhere; 2 = a difference (nondeterminism in the harness) was found.
set -u
VERIF="$(cd "$(dirname "${BASH_SOURCE[0]}")" && pwd)"
what="${1:-determinism}"; shift || true
[ "$what" = determinism ] || { echo "usage: selftest.sh determinism [ids...]"; exit 2; }
ids=("$@")
[ ${#ids[@]} -gt 0 ] || ids=(C01 C02 C03 C04 C05 C06 C07 C08 C09 C10 C14 C15 C18 C19 C20)
N="${VERIF_SELFTEST_RUNS:-400}"
tmp="$(mktemp -d /dev/shm/antsim-selftest.XXXXXX)"
trap 'rm -rf "$tmp"' EXIT
rc=0
for id in "${ids[@]}"; do
  for w in 1 16 7; do
    "$VERIF/run" fingerprints "$id" --runs "$N" --workers "$w" 2>/dev/null | grep -E '^[0-9]+ [0-9a-f]{16} ' > "$tmp/$id.$w" || true
  done
  lines=$(wc -l < "$tmp/$id.1")
  if [ "$lines" -lt "$N" ]; then echo "SELFTEST $id: only $lines fingerprint lines (expected $N)"; rc=2; continue; fi
  if cmp -s "$tmp/$id.1" "$tmp/$id.16" && cmp -s "$tmp/$id.1" "$tmp/$id.7"; then
    echo "SELFTEST $id: $lines runs identical across 3 processes (workers 1 / 16 / 7)"
  else
    echo "SELFTEST $id: DIFFERENCE between processes/worker counts:"; diff "$tmp/$id.1" "$tmp/$id.16" | head -5; diff "$tmp/$id.1" "$tmp/$id.7" | head -5
    rc=2
  fi
done
exit $rc
