//! Executor and oracles of sim `registers`.
//!
//! Every replica is a real `(SignedRegister, RegisterCrdt)` pair. The executor interprets the plan, calls
//! the same ant-registers entry points in the same order as the client / node glue, and after every
//! delivery compares the replica with bookkeeping kept here:
//!   * which pool ops are valid is decided from how they were built (`model::OpFacts`),
//!   * `model` of a replica = the pool ops whose delivery was acknowledged (`Ok`) at that replica,
//!   * the values a replica must present = `model::expected_heads` over the ops it holds.

use crate::model::{self, entry_bytes, expected_heads, hex6, OpFacts, H, LIMIT};
use crate::{Bad, EntrySel, FinalSync, Kind, Parents, Perm, Plan, Push, Step, Via};
use ant_registers::{
    EntryHash, Error as RegError, Permissions, Register, RegisterAddress, RegisterCrdt, RegisterOp, SignedRegister,
};
use simkit::RunReport;
use std::collections::{BTreeMap, BTreeSet};

const P: &str = "C06";
const REACH_CAP: usize = 24;

struct PoolOp {
    op: RegisterOp,
    facts: OpFacts,
    entry: Vec<u8>,
    /// first pool index holding an identical RegisterOp
    canon: usize,
}

struct Replica {
    signed: Option<SignedRegister>,
    crdt: RegisterCrdt,
    /// canonical pool indices whose delivery this replica acknowledged
    model: BTreeSet<usize>,
    /// how the op count of this state first reached the entry limit (names the shape of limit findings)
    crossed_by: Option<&'static str>,
}

#[derive(Clone)]
enum Payload {
    Op(usize),
    State { snap: SignedRegister, via: Via, crossed_by: Option<&'static str> },
}

#[derive(Clone)]
struct Msg {
    from: usize,
    to: usize,
    payload: Payload,
}

enum Origin {
    /// a state some replica / honest client actually reached
    Reachable,
    /// built by the adversary; `base_ok` = the base register and its owner signature are the genuine ones
    Adversarial { base_ok: bool, what: &'static str },
}

struct World<'a> {
    plan: &'a Plan,
    rep: RunReport,
    anyone: bool,
    n: usize,
    keys: Vec<bls::SecretKey>,
    /// actors 0..n_auth are the owner and the listed writers
    n_auth: usize,
    n_strangers: usize,
    addr: RegisterAddress,
    base: Register,
    base_sig: bls::Signature,
    pool: Vec<PoolOp>,
    index: BTreeMap<RegisterOp, usize>,
    replicas: Vec<Replica>,
    pending: Vec<Msg>,
    lost: Vec<Msg>,
    partition: u32,
    reach: Vec<(SignedRegister, Option<&'static str>)>,
    reach_next: usize,
    limit_mode: bool,
    reported: BTreeSet<String>,
    stop: bool,
    /// limit mode: the client-style CRDT rebuild (quadratic in MerkleReg) runs only after bulks and at the end
    force_rebuild: bool,
}

fn err_name(e: &RegError) -> &'static str {
    match e {
        RegError::RegisterAddrMismatch { .. } => "RegisterAddrMismatch",
        RegError::EntryTooBig { .. } => "EntryTooBig",
        RegError::AccessDenied(_) => "AccessDenied",
        RegError::TooManyEntries(_) => "TooManyEntries",
        RegError::NoSuchEntry(_) => "NoSuchEntry",
        RegError::SerialisationFailed => "SerialisationFailed",
        RegError::DifferentBaseRegister => "DifferentBaseRegister",
        RegError::InvalidSignature => "InvalidSignature",
        RegError::MissingSignature => "MissingSignature",
        RegError::InvalidSecretKey => "InvalidSecretKey",
        RegError::InvalidRegisterAddress { .. } => "InvalidRegisterAddress",
        RegError::HexDeserializeFailed => "HexDeserializeFailed",
    }
}

/// Names the root cause a defect of an admitted op points at (used to group findings).
fn cause_of(defect: &str) -> &'static str {
    match defect {
        "foreign_address_op" => "op_address_not_checked",
        "oversized_entry" => "entry_size_not_checked",
        "unauthorised_signer" => "permissions_not_checked",
        "forged_signature" => "op_signature_not_checked",
        "reshaped_op_with_the_signed_node_hash" => "signature_covers_an_ambiguous_node_hash",
        _ => "other",
    }
}

fn res_name(r: &Result<(), RegError>) -> String {
    match r {
        Ok(()) => "Ok".into(),
        Err(e) => format!("Err({})", err_name(e)),
    }
}

type SignKey = (usize, String, Vec<u8>, Vec<H>);
type SignCache = std::sync::Mutex<Vec<(u64, BTreeMap<SignKey, RegisterOp>)>>;
static SIGN_CACHE: std::sync::OnceLock<SignCache> = std::sync::OnceLock::new();

/// Memo of `RegisterOp::new` (deterministic BLS signing) for the most recent key seeds. Never iterated, so it
/// cannot influence a run; a hit returns exactly what the real call returned for the same inputs.
fn sign_cache_get(seed: u64, key: &SignKey) -> Option<RegisterOp> {
    let c = SIGN_CACHE.get_or_init(|| std::sync::Mutex::new(Vec::new()));
    let g = c.lock().ok()?;
    g.iter().find(|(s, _)| *s == seed).and_then(|(_, m)| m.get(key).cloned())
}

fn sign_cache_put(seed: u64, key: SignKey, op: RegisterOp) {
    let c = SIGN_CACHE.get_or_init(|| std::sync::Mutex::new(Vec::new()));
    let Ok(mut g) = c.lock() else { return };
    if let Some((_, m)) = g.iter_mut().find(|(s, _)| *s == seed) {
        if m.len() < 8192 {
            m.insert(key, op);
        }
        return;
    }
    if g.len() >= 20 {
        g.remove(0);
    }
    let mut m = BTreeMap::new();
    m.insert(key, op);
    g.push((seed, m));
}

/// `target` with the signature field of `donor` (both travel as serde data on the wire, so an adversary can
/// assemble this; the fields are not reachable through the public API).
fn with_signature_of(target: &RegisterOp, donor: &RegisterOp) -> RegisterOp {
    let mut t = serde_json::to_value(target).expect("op to json");
    let d = serde_json::to_value(donor).expect("op to json");
    t["signature"] = d["signature"].clone();
    serde_json::from_value(t).expect("op from json")
}

pub fn execute(plan: &Plan) -> RunReport {
    let mut w = match World::new(plan) {
        Ok(w) => w,
        Err(e) => {
            let mut r = RunReport::default();
            r.harness_error = Some(e);
            return r;
        }
    };
    w.run();
    w.rep
}

impl<'a> World<'a> {
    fn new(plan: &'a Plan) -> Result<Self, String> {
        let n = plan.replicas as usize;
        if !(1..=8).contains(&n) {
            return Err(format!("bad replica count {n}"));
        }
        let listed = if plan.perm == Perm::Writers { plan.listed.max(1) as usize } else { 0 };
        let n_auth = 1 + listed;
        let n_strangers = plan.strangers.max(1) as usize;
        let keys: Vec<bls::SecretKey> = (0..n_auth + n_strangers).map(|a| model::secret_key(plan.key_seed, a)).collect();
        let owner_pk = keys[0].public_key();
        let perms = match plan.perm {
            Perm::Anyone => Permissions::new_anyone_can_write(),
            Perm::OwnerOnly => Permissions::new_with([]),
            Perm::Writers => Permissions::new_with(keys[1..n_auth].iter().map(|k| k.public_key())),
        };
        let base = Register::new(owner_pk, model::meta(plan.key_seed, 0), perms);
        let base_sig = keys[0].sign(base.bytes().map_err(|e| format!("register bytes: {e}"))?);
        let addr = *base.address();
        let mut replicas = vec![];
        for r in 0..n {
            let absent = r != 0 && (plan.absent_mask >> r) & 1 == 1;
            replicas.push(Replica {
                signed: if absent { None } else { Some(SignedRegister::new(base.clone(), base_sig.clone(), BTreeSet::new())) },
                crdt: RegisterCrdt::new(addr),
                model: BTreeSet::new(),
                crossed_by: None,
            });
        }
        let mut w = World {
            plan,
            rep: RunReport::default(),
            anyone: plan.perm == Perm::Anyone,
            n,
            keys,
            n_auth,
            n_strangers,
            addr,
            base,
            base_sig,
            pool: vec![],
            index: BTreeMap::new(),
            replicas,
            pending: vec![],
            lost: vec![],
            partition: 0,
            reach: vec![],
            reach_next: 0,
            limit_mode: plan.mode == "limit",
            reported: BTreeSet::new(),
            stop: false,
            force_rebuild: false,
        };
        w.rep.log(format!(
            "setup replicas={} absent_mask={:#b} perm={:?} authorised_actors=0..{} strangers={} final_sync={:?}",
            n, plan.absent_mask, plan.perm, n_auth, n_strangers, plan.final_sync
        ));
        let first = w.fresh();
        w.record_reach(first, None);
        Ok(w)
    }

    fn fresh(&self) -> SignedRegister {
        SignedRegister::new(self.base.clone(), self.base_sig.clone(), BTreeSet::new())
    }

    // ---------------------------------------------------------------- reporting

    /// Record a violation once per (rule, signature) and run.
    fn violate(&mut self, rule: &str, sig: &[(&str, String)], detail: String) {
        let key = format!("{rule}|{sig:?}");
        if self.reported.insert(key) {
            self.rep.violate(P, rule, sig, detail);
        } else {
            self.rep.log(format!("(again) {rule} {sig:?} :: {detail}"));
        }
    }

    /// Signature of a TooManyEntries rejection of a reachable register: `len` ops, reached by add_op alone
    /// (`history` None) or through at least one register merge that added ops (`history` Some("merge")).
    /// Only more than LIMIT ops produced by a merge is the recorded finding; a register within the limit must
    /// verify however it was reached, and add_op alone can never legitimately exceed the limit.
    fn limit_signature(&self, len: usize, history: Option<&'static str>) -> Vec<(&'static str, String)> {
        let merged = history == Some("merge");
        let shape = match (len > LIMIT, merged) {
            (true, true) => "entry_limit_crossed_by_merge",
            (true, false) => "entry_limit_exceeded_by_add_op_alone",
            (false, false) => "entry_limit_reached_by_add_op",
            (false, true) => "register_within_limit_rejected_after_merge",
        };
        vec![("cause", "entry_count_limit".to_string()), ("shape", shape.to_string())]
    }

    fn record_reach(&mut self, s: SignedRegister, crossed_by: Option<&'static str>) {
        if self.reach.len() < REACH_CAP {
            self.reach.push((s, crossed_by));
        } else {
            let i = self.reach_next % REACH_CAP;
            self.reach[i] = (s, crossed_by);
        }
        self.reach_next += 1;
    }

    // ---------------------------------------------------------------- bookkeeping helpers

    fn idxs_of(&mut self, s: &SignedRegister) -> BTreeSet<usize> {
        let mut out = BTreeSet::new();
        let mut unknown = 0;
        for op in s.ops() {
            match self.index.get(op) {
                Some(k) => {
                    out.insert(*k);
                }
                None => unknown += 1,
            }
        }
        if unknown > 0 {
            self.violate(
                "op_from_nowhere",
                &[("shape", "op_not_in_pool".into())],
                format!("{unknown} ops held that no writer ever produced"),
            );
            self.stop = true;
        }
        out
    }

    fn valid(&self, k: usize) -> bool {
        self.pool[k].facts.valid(self.anyone)
    }

    fn blocked(&self, a: usize, b: usize) -> bool {
        ((self.partition >> a) & 1) != ((self.partition >> b) & 1)
    }

    fn eligible(&self) -> Vec<usize> {
        (0..self.pending.len()).filter(|i| !self.blocked(self.pending[*i].from, self.pending[*i].to)).collect()
    }

    fn pick_auth(&self, actor: u32) -> usize {
        if self.anyone {
            actor as usize % self.keys.len()
        } else {
            actor as usize % self.n_auth
        }
    }

    fn pick_stranger(&self, actor: u32) -> usize {
        self.n_auth + actor as usize % self.n_strangers
    }

    // ---------------------------------------------------------------- building operations

    #[allow(clippy::too_many_arguments)]
    fn make_op(&mut self, scratch: &mut RegisterCrdt, at_heads: &BTreeSet<EntryHash>, actor: u32, kind: Kind, parents: Parents, entry: EntrySel) -> usize {
        let idx = self.pool.len();
        let children: BTreeSet<EntryHash> = match parents {
            Parents::Heads => at_heads.clone(),
            Parents::Root => BTreeSet::new(),
            Parents::SameAs { of } if !self.pool.is_empty() => {
                self.pool[of as usize % self.pool.len()].facts.parents.iter().map(|h| EntryHash(*h)).collect()
            }
            Parents::ChildOf { of } if !self.pool.is_empty() => {
                [EntryHash(self.pool[of as usize % self.pool.len()].facts.hash)].into_iter().collect()
            }
            _ => BTreeSet::new(),
        };
        let mut bytes = match entry {
            EntrySel::Fresh { size } => entry_bytes(idx, size as usize),
            EntrySel::CopyOf { of } if !self.pool.is_empty() => self.pool[of as usize % self.pool.len()].entry.clone(),
            EntrySel::CopyOf { .. } => entry_bytes(idx, 8),
        };
        if kind == Kind::Oversized && bytes.len() <= model::MAX_ENTRY {
            bytes = entry_bytes(idx, model::MAX_ENTRY + 1);
        }
        let source_actor = match kind {
            Kind::Unauthorised => self.pick_stranger(actor),
            _ => self.pick_auth(actor),
        };
        let (address, addr_ok) = match kind {
            Kind::ForeignMeta => (RegisterAddress::new(model::meta(self.plan.key_seed, 1), self.addr.owner()), false),
            Kind::ForeignOwner => (RegisterAddress::new(self.addr.meta(), self.keys[self.n_auth].public_key()), false),
            // built for the other register, re-addressed below
            Kind::Readdressed => (RegisterAddress::new(model::meta(self.plan.key_seed, 1), self.addr.owner()), false),
            _ => (self.addr, true),
        };
        // a client of another register has that register's CRDT
        let mut foreign = RegisterCrdt::new(address);
        let crdt: &mut RegisterCrdt = if addr_ok { scratch } else { &mut foreign };
        let (hash, op_addr, node) = crdt.write(bytes.clone(), &children).expect("RegisterCrdt::write is infallible");
        let (op, sig_genuine) = match kind {
            Kind::ForgedByStranger => {
                let target = RegisterOp::new(op_addr, node.clone(), &self.keys[source_actor]);
                let donor = RegisterOp::new(op_addr, node, &self.keys[self.pick_stranger(actor)]);
                (with_signature_of(&target, &donor), false)
            }
            Kind::ForgedTampered if idx % 2 == 1 && self.pool.iter().any(|p| p.facts.kind == "good" && p.facts.source_actor == source_actor) => {
                // the donor is an op of this very run that replicas have (or will have) validated: the forged op keeps
                // that op's source and signature and carries another entry
                let donor = self.pool.iter().rev().find(|p| p.facts.kind == "good" && p.facts.source_actor == source_actor).map(|p| p.op.clone()).expect("donor");
                let target = RegisterOp::new(op_addr, node, &self.keys[source_actor]);
                self.rep.probe("forged_op_carries_the_signature_of_a_delivered_op");
                (with_signature_of(&target, &donor), false)
            }
            Kind::ForgedTampered => {
                let target = RegisterOp::new(op_addr, node, &self.keys[source_actor]);
                let mut decoy = bytes.clone();
                decoy.extend_from_slice(b"-signed-something-else");
                let mut other = RegisterCrdt::new(op_addr);
                let (_h, _a, decoy_node) = other.write(decoy, &children).expect("write");
                let donor = RegisterOp::new(op_addr, decoy_node, &self.keys[source_actor]);
                (with_signature_of(&target, &donor), false)
            }
            _ if self.limit_mode => {
                // a thousand BLS signatures per execution: memoise the pure function RegisterOp::new per key seed,
                // so that re-executions of (variants of) the same plan during minimisation are cheap
                let key = (source_actor, op_addr.to_hex(), bytes.clone(), children.iter().map(|h| h.0).collect::<Vec<H>>());
                let hit = sign_cache_get(self.plan.key_seed, &key);
                let op = match hit {
                    Some(op) => op,
                    None => {
                        let op = RegisterOp::new(op_addr, node, &self.keys[source_actor]);
                        sign_cache_put(self.plan.key_seed, key, op.clone());
                        op
                    }
                };
                (op, true)
            }
            _ => (RegisterOp::new(op_addr, node, &self.keys[source_actor]), true),
        };
        // the re-addressed forgery: same crdt op, source and signature, this register's address
        let (op, sig_genuine, addr_ok) = if kind == Kind::Readdressed {
            let mut v = serde_json::to_value(&op).expect("op to json");
            v["address"] = serde_json::to_value(self.addr).expect("address to json");
            (serde_json::from_value::<RegisterOp>(v).expect("op from json"), false, true)
        } else {
            (op, sig_genuine, addr_ok)
        };
        // the re-parented forgery: same value, source, address and signature, another children set
        // (an open register checks no signature, a re-parented op is then simply another valid op with other
        // parents: not forged there, the op stays as written)
        let (op, sig_genuine) = if kind == Kind::Reparented && !self.anyone {
            let mut v = serde_json::to_value(&op).expect("op to json");
            let had_children = v["crdt_op"]["children"].as_array().map(|a| !a.is_empty()).unwrap_or(false);
            v["crdt_op"]["children"] = if had_children { serde_json::json!([]) } else { serde_json::json!([vec![7u8; 32]]) };
            let forged = serde_json::from_value::<RegisterOp>(v).expect("op from json");
            assert!(forged != op, "re-parenting must change the op");
            (forged, false)
        } else {
            (op, sig_genuine)
        };
        // the reshaped forgery: parents moved in front of the value, children emptied, signature kept
        let mut reshaped_size = None;
        let (op, sig_genuine) = if kind == Kind::Reshaped && !self.anyone && !children.is_empty() && bytes.len() + 32 * children.len() <= model::MAX_ENTRY {
            let mut v = serde_json::to_value(&op).expect("op to json");
            let mut value: Vec<u8> = vec![];
            for c in children.iter() {
                value.extend_from_slice(&c.0);
            }
            value.extend_from_slice(&bytes);
            v["crdt_op"]["children"] = serde_json::json!([]);
            v["crdt_op"]["value"] = serde_json::to_value(&value).expect("value to json");
            let forged = serde_json::from_value::<RegisterOp>(v).expect("op from json");
            assert!(forged != op, "reshaping must change the op");
            reshaped_size = Some(value.len());
            self.rep.fault("op_reshaped_parents_moved_into_value");
            (forged, false)
        } else {
            (op, sig_genuine)
        };
        let reshaped = reshaped_size.is_some();
        let facts = OpFacts {
            source_actor,
            source_authorised: source_actor < self.n_auth,
            sig_genuine,
            addr_ok,
            size: reshaped_size.unwrap_or(bytes.len()),
            hash: hash.0,
            parents: if reshaped { Default::default() } else { children.iter().map(|h| h.0).collect() },
            kind: match kind {
                Kind::Good if bytes.len() > model::MAX_ENTRY => "oversized",
                Kind::Good => "good",
                Kind::Unauthorised => "unauthorised",
                Kind::ForgedByStranger => "forged_by_stranger",
                Kind::ForgedTampered => "forged_tampered",
                Kind::ForeignMeta => "foreign_meta",
                Kind::ForeignOwner => "foreign_owner",
                Kind::Oversized => "oversized",
                Kind::Readdressed => "readdressed_from_another_register",
                Kind::Reparented => "reparented_children_rewritten",
                Kind::Reshaped if reshaped => "reshaped_parents_moved_into_value",
                Kind::Reshaped => "good",
            },
        };
        let canon = match self.index.get(&op) {
            Some(k) => {
                self.rep.probe("identical_op_recreated");
                *k
            }
            None => {
                self.index.insert(op.clone(), idx);
                idx
            }
        };
        if self.pool.iter().any(|p| p.facts.hash == facts.hash && p.canon != canon) {
            self.rep.probe("same_content_different_signature");
        }
        self.pool.push(PoolOp { op, facts, entry: bytes, canon });
        idx
    }

    fn describe_op(&self, k: usize) -> String {
        let f = &self.pool[k].facts;
        format!(
            "op#{k}{} kind={} src=a{} size={} h={} parents=[{}] valid={}",
            if self.pool[k].canon != k { format!("(=#{})", self.pool[k].canon) } else { String::new() },
            f.kind,
            f.source_actor,
            f.size,
            hex6(&f.hash),
            f.parents.iter().map(hex6).collect::<Vec<_>>().join(","),
            f.valid(self.anyone)
        )
    }

    // ---------------------------------------------------------------- oracles on one replica

    /// The values replica `r` presents: independent DAG model, client-style rebuild, incremental CRDT.
    fn check_values(&mut self, r: usize, whence: &str, rebuild: bool) {
        let Some(signed) = self.replicas[r].signed.as_ref() else { return };
        let mut nodes: BTreeMap<H, BTreeSet<H>> = BTreeMap::new();
        for k in &self.replicas[r].model {
            let f = &self.pool[*k].facts;
            if f.addr_ok {
                nodes.insert(f.hash, f.parents.clone());
            }
        }
        let want = expected_heads(&nodes);
        let read = self.replicas[r].crdt.read();
        let got: BTreeSet<H> = read.iter().map(|(h, _)| h.0).collect();
        let orphans = self.replicas[r].crdt.merkle_reg().num_orphans();
        // Client::register_get: rebuild the CRDT from the ops of the (verified) register
        let mut rebuilt = RegisterCrdt::new(*signed.address());
        let mut rebuild_err = None;
        if rebuild {
            for op in signed.ops() {
                // register_get gives up at the first error; the comparison below goes on without that op
                if let Err(e) = rebuilt.apply_op(op.clone()) {
                    rebuild_err.get_or_insert(err_name(&e));
                }
            }
        }
        let rebuilt_read = if rebuild { rebuilt.read() } else { read.clone() };
        if got.len() >= 2 {
            self.rep.probe("concurrent_values_presented");
        }
        if orphans > 0 {
            self.rep.probe("orphan_held");
        }
        if want != got {
            let d = format!(
                "r{r} after {whence}: read() = [{}] but the held ops give [{}]",
                got.iter().map(hex6).collect::<Vec<_>>().join(","),
                want.iter().map(hex6).collect::<Vec<_>>().join(",")
            );
            self.violate("current_values_wrong", &[("shape", "read_differs_from_dag_model".into())], d);
            self.stop = true;
        }
        if let Some(e) = rebuild_err {
            self.violate(
                "held_register_not_presentable",
                &[("cause", if e == "RegisterAddrMismatch" { "op_address_not_checked" } else { "other" }.into()), ("shape", "client_rebuild_fails".into()), ("error", e.to_string())],
                format!("r{r} after {whence}: rebuilding the CRDT from the held ops (as register_get does) fails with {e}"),
            );
        }
        if rebuilt_read != read {
            self.violate(
                "current_values_wrong",
                &[("shape", "rebuild_differs_from_incremental".into())],
                format!("r{r} after {whence}: CRDT rebuilt from ops() presents {} values, incrementally maintained CRDT {}", rebuilt_read.len(), read.len()),
            );
            self.stop = true;
        }
    }

    /// Compare the replica with the acknowledged outcomes; flag newly admitted invalid ops; run value checks.
    fn post_check(&mut self, r: usize, before: &BTreeSet<usize>, incoming: &BTreeSet<usize>, accepted: bool, entry_point: &'static str, grow_kind: &'static str) {
        let Some(signed) = self.replicas[r].signed.clone() else { return };
        let actual = self.idxs_of(&signed);
        let mut expected = before.clone();
        if accepted {
            expected.extend(incoming.iter().copied());
        }
        if actual != expected || signed.ops().len() != actual.len() {
            let extra: Vec<_> = actual.difference(&expected).collect();
            let missing: Vec<_> = expected.difference(&actual).collect();
            self.violate(
                "outcome_content_mismatch",
                &[("entry_point", entry_point.into()), ("acknowledged", accepted.to_string())],
                format!("r{r}: after {entry_point} returned {} the op set has unexpected {extra:?} and lacks {missing:?}", if accepted { "Ok" } else { "Err" }),
            );
            self.stop = true;
        }
        let fresh: Vec<usize> = actual.difference(before).copied().collect();
        for k in &fresh {
            if let Some(defect) = self.pool[*k].facts.defect(self.anyone) {
                let d = format!("r{r} admitted {} through {entry_point}", self.describe_op(*k));
                self.violate("invalid_op_admitted", &[("cause", cause_of(defect).into()), ("shape", defect.into()), ("entry_point", entry_point.into())], d);
                if defect == "reshaped_op_with_the_signed_node_hash" {
                    // recorded finding: the forged node shares its hash with the node the writer signed, the CRDT's
                    // content is no longer a function of the op set; the run ends here
                    self.stop = true;
                }
            }
        }
        if grow_kind == "merge" && actual.len() > before.len() {
            self.replicas[r].crossed_by = Some("merge");
        }
        if before.len() < LIMIT && actual.len() == LIMIT {
            self.rep.probe(if grow_kind == "add_op" { "limit_reached_by_add_op" } else { "limit_reached_by_merge" });
        }
        if before.len() <= LIMIT && actual.len() > LIMIT {
            self.rep.probe(if grow_kind == "add_op" { "limit_exceeded_by_add_op" } else { "limit_crossed_by_merge" });
        }
        if actual.len() == LIMIT {
            self.rep.probe("held_exactly_1024");
        }
        let changed = actual != *before;
        self.replicas[r].model = actual;
        let rebuild = !self.limit_mode || self.force_rebuild;
        self.check_values(r, entry_point, rebuild);
        if changed {
            let cb = self.replicas[r].crossed_by;
            self.record_reach(signed, cb);
        }
    }

    fn admitted_beyond_limit(&mut self, r: usize, before_len: usize, entry_point: &'static str) {
        let d = format!("r{r} already held {before_len} ops (the limit is {LIMIT}) and {entry_point} admitted one more");
        self.violate("op_admitted_beyond_entry_limit", &[("cause", "entry_count_limit".into()), ("shape", "add_op_admits_beyond_limit".into()), ("entry_point", entry_point.into())], d);
    }

    /// A state a replica reached must be accepted by its peers.
    fn verify_reachable(&mut self, r: usize, whence: &str) {
        let Some(signed) = self.replicas[r].signed.as_ref() else { return };
        let res = signed.verify();
        let len = signed.ops().len();
        self.rep.log(format!("  verify(r{r} state, {len} ops) at peers [{whence}] => {}", res_name(&res)));
        if let Err(e) = res {
            let sig = match e {
                RegError::TooManyEntries(_) => self.limit_signature(len, self.replicas[r].crossed_by),
                _ => vec![("shape", format!("other_{}", err_name(&e)))],
            };
            let how = if self.replicas[r].crossed_by == Some("merge") { "reached through accepted operations and at least one register merge" } else { "reached by add_op alone" };
            let d = format!("state of r{r} ({len} ops, {how}) is rejected by verify(): {}", err_name(&e));
            self.violate("reachable_state_rejected_by_peer", &sig, d);
        }
    }

    // ---------------------------------------------------------------- deliveries

    fn deliver_op(&mut self, r: usize, k: usize) {
        let canon = self.pool[k].canon;
        if self.replicas[r].signed.is_none() {
            self.rep.probe("op_to_replica_without_register");
            self.rep.log(format!("  op#{k} -> r{r}: replica does not hold the register, ignored"));
            return;
        }
        let op = self.pool[k].op.clone();
        let before = self.replicas[r].model.clone();
        let before_len = self.replicas[r].signed.as_ref().map(|s| s.ops().len()).unwrap_or(0);
        if before.contains(&canon) {
            self.rep.probe("duplicate_op_delivery");
        }
        let orphans_before = self.replicas[r].crdt.merkle_reg().num_orphans();
        let res = self.replicas[r].signed.as_mut().expect("present").add_op(op.clone());
        let mut line = format!("  op#{k} -> r{r}: add_op => {}", res_name(&res));
        let accepted = res.is_ok();
        if accepted {
            let ar = self.replicas[r].crdt.apply_op(op);
            line.push_str(&format!(", apply_op => {}", res_name(&ar)));
            if let Err(e) = &ar {
                self.rep.probe(&format!("apply_op_rej_{}", err_name(e)));
            }
            let orphans_after = self.replicas[r].crdt.merkle_reg().num_orphans();
            if orphans_after > orphans_before {
                self.rep.probe("child_before_parent");
            }
            if orphans_after < orphans_before {
                self.rep.probe("orphan_resolved");
            }
            self.rep.probe("op_accepted");
        } else if let Err(e) = &res {
            self.rep.probe(&format!("op_rej_{}", err_name(e)));
        }
        self.rep.log(line);
        let valid = self.valid(k);
        if !accepted && valid && before_len < LIMIT {
            let e = res.as_ref().err().map(err_name).unwrap_or("?");
            let d = format!("r{r} ({before_len} ops) rejected {} with {e}", self.describe_op(k));
            self.violate("valid_op_rejected", &[("shape", e.to_string()), ("entry_point", "add_op".into())], d);
        }
        if accepted && before_len >= LIMIT && !before.contains(&canon) {
            self.admitted_beyond_limit(r, before_len, "add_op");
        }
        if valid && before_len == LIMIT - 1 && accepted {
            self.rep.probe("last_entry_admitted");
        }
        if valid && before_len >= LIMIT && !accepted {
            self.rep.probe("op_refused_at_limit");
        }
        let incoming: BTreeSet<usize> = [canon].into_iter().collect();
        self.post_check(r, &before, &incoming, accepted, "add_op", "add_op");
    }

    fn deliver_state(&mut self, to: usize, snap: &SignedRegister, via: Via, origin: Origin, crossed_by: Option<&'static str>, label: &str) {
        let incoming = self.idxs_of(snap);
        let all_valid = incoming.iter().all(|k| self.valid(*k));
        let before = self.replicas[to].model.clone();
        let n_in = snap.ops().len();
        let present = self.replicas[to].signed.is_some();
        let (res, entry_point): (Result<(), RegError>, &'static str) = if !present {
            let res = snap.verify_with_address(self.addr);
            if res.is_ok() {
                // node: a valid register that is not held yet is stored as it is
                let mut crdt = RegisterCrdt::new(self.addr);
                for op in snap.ops() {
                    if let Err(e) = crdt.apply_op(op.clone()) {
                        self.rep.probe(&format!("apply_op_rej_{}", err_name(&e)));
                    }
                }
                self.replicas[to].signed = Some(snap.clone());
                self.replicas[to].crdt = crdt;
                self.rep.probe("register_stored_at_replica_without_it");
            }
            (res, "verify_with_address")
        } else {
            let local = self.replicas[to].signed.as_mut().expect("present");
            let (res, ep) = match via {
                Via::VerifiedMerge => (local.verified_merge(snap), "verified_merge"),
                Via::VerifyThenMerge => (snap.verify().and_then(|_| local.merge(snap)), "verify_then_merge"),
            };
            if res.is_ok() {
                let fresh: Vec<usize> = incoming.difference(&before).copied().collect();
                let orphans_before = self.replicas[to].crdt.merkle_reg().num_orphans();
                for k in fresh {
                    let op = self.pool[k].op.clone();
                    if let Err(e) = self.replicas[to].crdt.apply_op(op) {
                        self.rep.probe(&format!("apply_op_rej_{}", err_name(&e)));
                    }
                }
                if self.replicas[to].crdt.merkle_reg().num_orphans() > orphans_before {
                    self.rep.probe("child_before_parent");
                }
            }
            (res, ep)
        };
        let accepted = res.is_ok();
        let after_len = self.replicas[to].signed.as_ref().map(|s| s.ops().len()).unwrap_or(0);
        self.rep.log(format!(
            "  {label} -> r{to} ({n_in} ops, {}) via {entry_point} => {} (r{to} holds {} -> {after_len})",
            if all_valid { "all valid" } else { "contains invalid ops" },
            res_name(&res),
            before.len()
        ));
        match &res {
            Ok(()) => self.rep.probe("state_accepted"),
            Err(e) => self.rep.probe(&format!("state_rej_{}", err_name(e))),
        }
        match origin {
            Origin::Reachable => {
                if let Err(e) = &res {
                    let sig = match e {
                        RegError::TooManyEntries(_) => self.limit_signature(n_in, crossed_by),
                        _ => vec![("shape", format!("other_{}", err_name(e)))],
                    };
                    let how = if crossed_by == Some("merge") { "reached through accepted operations and at least one register merge" } else { "reached by add_op alone" };
                    let d = format!("{label} ({n_in} ops), a state {how}, is rejected by r{to} via {entry_point}: {}", err_name(e));
                    self.violate("reachable_state_rejected_by_peer", &sig, d);
                }
            }
            Origin::Adversarial { base_ok, what } => {
                self.rep.probe(&format!("adversarial_{what}"));
                if accepted && !base_ok {
                    let d = format!("r{to} accepted {label}, a register whose base / owner signature is not the genuine one, via {entry_point}");
                    self.violate("foreign_base_register_accepted", &[("shape", what.into()), ("entry_point", entry_point.into())], d);
                    self.stop = true; // the replica is no longer a replica of this register
                }
                if !accepted && base_ok && all_valid && n_in <= LIMIT {
                    let e = res.as_ref().err().map(err_name).unwrap_or("?");
                    let d = format!("r{to} rejected {label}, which holds only valid ops on the genuine base register, via {entry_point}: {e}");
                    self.violate("valid_state_rejected", &[("shape", e.to_string()), ("entry_point", entry_point.into())], d);
                }
            }
        }
        if self.stop {
            return;
        }
        self.post_check(to, &before, &incoming, accepted, entry_point, "merge");
    }

    // ---------------------------------------------------------------- steps

    fn step(&mut self, s: &Step) {
        let n = self.n;
        match s {
            Step::Write { at, actor, kind, parents, entry, push } => {
                let at = *at as usize % n;
                self.rep.ops += 1;
                // the client's fetched copy (register_get: verified register + CRDT rebuilt from its ops)
                let mut scratch = self.replicas[at].crdt.clone();
                let heads: BTreeSet<EntryHash> = scratch.read().into_iter().map(|(h, _)| h).collect();
                let k = self.make_op(&mut scratch, &heads, *actor, *kind, *parents, *entry);
                let d = self.describe_op(k);
                self.rep.log(format!("write at r{at}: {d} push={push:?}"));
                self.rep.probe(&format!("op_kind_{}", self.pool[k].facts.kind));
                if matches!(parents, Parents::SameAs { .. }) {
                    self.rep.probe("concurrent_sibling_written");
                }
                if matches!(parents, Parents::ChildOf { .. }) {
                    self.rep.probe("explicit_child_written");
                }
                match *push {
                    Push::None => {}
                    Push::Broadcast { mask } => {
                        for to in 0..n {
                            if (mask >> to) & 1 == 1 {
                                self.pending.push(Msg { from: at, to, payload: Payload::Op(k) });
                            }
                        }
                    }
                    Push::ClientState { mask, via } => {
                        // Register::write_atop: add_op on the client's copy, result ignored by the client
                        let mut copy = self.replicas[at].signed.clone().unwrap_or_else(|| self.fresh());
                        let before_len = copy.ops().len();
                        let before = self.idxs_of(&copy);
                        let res = copy.add_op(self.pool[k].op.clone());
                        self.rep.log(format!("  client add_op => {}", res_name(&res)));
                        let valid = self.valid(k);
                        if let Err(e) = &res {
                            self.rep.probe(&format!("op_rej_{}", err_name(e)));
                            if valid && before_len < LIMIT {
                                let d = format!("client copy ({before_len} ops) rejected {} with {}", self.describe_op(k), err_name(e));
                                self.violate("valid_op_rejected", &[("shape", err_name(e).to_string()), ("entry_point", "client_add_op".into())], d);
                            }
                        }
                        let after = self.idxs_of(&copy);
                        for j in after.difference(&before).copied().collect::<Vec<_>>() {
                            if let Some(defect) = self.pool[j].facts.defect(self.anyone) {
                                let d = format!("client copy admitted {}", self.describe_op(j));
                                self.violate("invalid_op_admitted", &[("cause", cause_of(defect).into()), ("shape", defect.into()), ("entry_point", "client_add_op".into())], d);
                                if defect == "reshaped_op_with_the_signed_node_hash" {
                                    self.stop = true;
                                }
                            }
                        }
                        if res.is_ok() && before_len >= LIMIT && copy.ops().len() > before_len {
                            self.admitted_beyond_limit(at, before_len, "client_add_op");
                        }
                        let crossed = self.replicas[at].crossed_by;
                        for to in 0..n {
                            if (mask >> to) & 1 == 1 {
                                self.pending.push(Msg { from: at, to, payload: Payload::State { snap: copy.clone(), via, crossed_by: crossed } });
                            }
                        }
                    }
                }
            }
            Step::SendOp { op, from, to } => {
                if self.pool.is_empty() {
                    self.rep.log("sendop: pool empty");
                    return;
                }
                let k = *op as usize % self.pool.len();
                let (from, to) = (*from as usize % n, *to as usize % n);
                self.rep.ops += 1;
                self.rep.log(format!("sendop op#{k} r{from} -> r{to}"));
                self.pending.push(Msg { from, to, payload: Payload::Op(k) });
            }
            Step::SendState { from, to, via } => {
                let from = *from as usize % n;
                let mut to = *to as usize % n;
                if to == from {
                    to = (to + 1) % n;
                }
                let Some(snap) = self.replicas[from].signed.clone() else {
                    self.rep.log(format!("sendstate r{from}: does not hold the register"));
                    return;
                };
                self.rep.ops += 1;
                self.rep.log(format!("sendstate r{from} -> r{to} ({} ops) via {via:?}", snap.ops().len()));
                let crossed_by = self.replicas[from].crossed_by;
                self.pending.push(Msg { from, to, payload: Payload::State { snap, via: *via, crossed_by } });
            }
            Step::AdvState { to, base, bad, via } => {
                let to = *to as usize % n;
                let basis = self.replicas[*base as usize % n].signed.clone().unwrap_or_else(|| self.fresh());
                self.rep.ops += 1;
                let stranger = self.keys[self.n_auth].clone();
                let (snap, origin): (SignedRegister, Origin) = match bad {
                    Bad::InjectOp { op } => {
                        let mut ops = basis.ops().clone();
                        if !self.pool.is_empty() {
                            ops.insert(self.pool[*op as usize % self.pool.len()].op.clone());
                        }
                        (SignedRegister::new(self.base.clone(), self.base_sig.clone(), ops), Origin::Adversarial { base_ok: true, what: "injected_op" })
                    }
                    Bad::WidenedPermsOldSig | Bad::WidenedPermsStrangerSig => {
                        let mut writers: Vec<bls::PublicKey> = self.keys[1..self.n_auth].iter().map(|k| k.public_key()).collect();
                        writers.push(stranger.public_key());
                        let perms = Permissions::new_with(writers);
                        let reg = Register::new(self.addr.owner(), self.addr.meta(), perms);
                        let sig = if matches!(bad, Bad::WidenedPermsOldSig) { self.base_sig.clone() } else { stranger.sign(reg.bytes().expect("bytes")) };
                        let mut ops = basis.ops().clone();
                        // the stranger's op the widened permissions are meant to let in
                        if let Some(p) = self.pool.iter().find(|p| p.facts.source_actor >= self.n_auth && p.facts.addr_ok) {
                            ops.insert(p.op.clone());
                        }
                        let what = if matches!(bad, Bad::WidenedPermsOldSig) { "changed_perms_old_signature" } else { "changed_perms_stranger_signature" };
                        (SignedRegister::new(reg, sig, ops), Origin::Adversarial { base_ok: false, what })
                    }
                    Bad::OtherMeta => {
                        let reg = Register::new(self.addr.owner(), model::meta(self.plan.key_seed, 1), self.base.permissions().clone());
                        let sig = self.keys[0].sign(reg.bytes().expect("bytes"));
                        (SignedRegister::new(reg, sig, basis.ops().clone()), Origin::Adversarial { base_ok: false, what: "other_register_same_owner" })
                    }
                    Bad::OtherPermsOwnerSigned => {
                        if self.replicas[to].signed.is_none() {
                            self.rep.log(format!("advstate OtherPermsOwnerSigned -> r{to}: skipped, replica holds nothing (honest-owner assumption)"));
                            return;
                        }
                        let perms = if self.anyone { Permissions::new_with([stranger.public_key()]) } else { Permissions::new_anyone_can_write() };
                        let reg = Register::new(self.addr.owner(), self.addr.meta(), perms);
                        let sig = self.keys[0].sign(reg.bytes().expect("bytes"));
                        (SignedRegister::new(reg, sig, basis.ops().clone()), Origin::Adversarial { base_ok: false, what: "same_address_other_permissions" })
                    }
                };
                self.rep.log(format!("advstate {bad:?} -> r{to}"));
                self.deliver_state(to, &snap, *via, origin, None, "adversarial register");
            }
            Step::Deliver { sel } => {
                let el = self.eligible();
                if el.is_empty() {
                    self.rep.log(format!("deliver: nothing deliverable ({} held back)", self.pending.len()));
                    return;
                }
                let pos = if *sel == u32::MAX { el.len() - 1 } else { *sel as usize % el.len() };
                let i = el[pos];
                if pos != 0 {
                    self.rep.nonfifo += 1;
                    self.rep.fault("reorder");
                }
                if el[0] != 0 {
                    self.rep.fault("partition_held_back_older_message");
                }
                self.rep.sched.write_u64(pos as u64);
                let m = self.pending.remove(i);
                self.deliver_msg(m, &format!("deliver #{pos}/{}", el.len()));
            }
            Step::Dup { sel } => {
                let el = self.eligible();
                if el.is_empty() {
                    self.rep.log("dup: nothing deliverable");
                    return;
                }
                let pos = if *sel == u32::MAX { el.len() - 1 } else { *sel as usize % el.len() };
                let m = self.pending[el[pos]].clone();
                self.rep.fault("duplicate");
                self.rep.sched.write_u64(pos as u64);
                self.rep.log(format!("dup message #{pos} (r{} -> r{})", m.from, m.to));
                self.pending.push(m);
            }
            Step::Drop { sel } => {
                let el = self.eligible();
                if el.is_empty() {
                    self.rep.log("drop: nothing deliverable");
                    return;
                }
                let pos = if *sel == u32::MAX { el.len() - 1 } else { *sel as usize % el.len() };
                let m = self.pending.remove(el[pos]);
                self.rep.fault("loss");
                self.rep.sched.write_u64(pos as u64);
                self.rep.log(format!("drop message #{pos} (r{} -> r{}) until heal", m.from, m.to));
                self.lost.push(m);
            }
            Step::Partition { mask } => {
                let all = (1u32 << n) - 1;
                let m = *mask & all;
                if m == 0 || m == all {
                    self.rep.log("partition: trivial mask, ignored");
                    return;
                }
                self.partition = m;
                self.rep.fault("partition");
                self.rep.sched.write_u64(m as u64);
                self.rep.log(format!("partition {m:#b}"));
            }
            Step::Heal => self.heal("heal"),
            Step::Laws { a, b, c } => self.laws(*a, *b, *c),
            Step::Bulk { at, n: count, chained, to_mask, order } => self.bulk(*at as usize % n, *count as usize, *chained, *to_mask, *order),
        }
    }

    fn heal(&mut self, label: &str) {
        if self.partition != 0 {
            self.rep.fault("heal");
        }
        if !self.lost.is_empty() {
            self.rep.fault("retransmit_after_loss");
        }
        self.rep.log(format!("{label}: partition {:#b} lifted, {} lost messages retransmitted", self.partition, self.lost.len()));
        self.partition = 0;
        let lost = std::mem::take(&mut self.lost);
        self.pending.extend(lost);
    }

    fn deliver_msg(&mut self, m: Msg, label: &str) {
        match m.payload {
            Payload::Op(k) => {
                self.rep.log(format!("{label}: op#{k} r{} -> r{}", m.from, m.to));
                self.deliver_op(m.to, k);
            }
            Payload::State { snap, via, crossed_by } => {
                self.rep.log(format!("{label}: register r{} -> r{}", m.from, m.to));
                let stale = self.replicas[m.from].signed.as_ref().map(|s| s.ops().len() != snap.ops().len()).unwrap_or(false);
                if stale {
                    self.rep.probe("stale_register_delivered");
                }
                self.deliver_state(m.to, &snap, via, Origin::Reachable, crossed_by, &format!("register of r{}", m.from));
            }
        }
    }

    /// Deliver many ops to one replica by `add_op` + `apply_op`, with one full comparison at the end
    /// (the per-delivery comparison is linear in the number of held ops).
    fn deliver_many(&mut self, r: usize, list: Vec<usize>, label: &str) {
        let before = self.replicas[r].model.clone();
        let (mut ok, mut refused) = (0usize, 0usize);
        let mut first_refusal: Option<(usize, &'static str, usize)> = None;
        let mut beyond: Option<usize> = None;
        for k in list {
            let op = self.pool[k].op.clone();
            let canon = self.pool[k].canon;
            let valid = self.valid(k);
            let signed = self.replicas[r].signed.as_mut().expect("present");
            let before_len = signed.ops().len();
            match signed.add_op(op.clone()) {
                Ok(()) => {
                    ok += 1;
                    let _ = self.replicas[r].crdt.apply_op(op);
                    if before_len == LIMIT - 1 {
                        self.rep.probe("last_entry_admitted");
                    }
                    if before_len >= LIMIT && !self.replicas[r].model.contains(&canon) {
                        beyond = Some(before_len);
                    }
                    self.replicas[r].model.insert(canon);
                }
                Err(e) => {
                    refused += 1;
                    self.rep.probe(&format!("op_rej_{}", err_name(&e)));
                    if first_refusal.is_none() {
                        first_refusal = Some((k, err_name(&e), before_len));
                    }
                    if valid && before_len < LIMIT {
                        let d = format!("r{r} ({before_len} ops) rejected {} with {}", self.describe_op(k), err_name(&e));
                        self.violate("valid_op_rejected", &[("shape", err_name(&e).to_string()), ("entry_point", "add_op".into())], d);
                    } else if valid {
                        self.rep.probe("op_refused_at_limit");
                    }
                }
            }
        }
        if let Some(b) = beyond {
            self.admitted_beyond_limit(r, b, "add_op");
        }
        let len = self.replicas[r].signed.as_ref().map(|s| s.ops().len()).unwrap_or(0);
        self.rep.log(format!("  {label} -> r{r}: add_op Ok x{ok}, refused x{refused} (first refusal {first_refusal:?}); r{r} holds {len}"));
        // full comparison once per replica
        let acknowledged = self.replicas[r].model.clone();
        self.replicas[r].model = before.clone();
        let incoming: BTreeSet<usize> = acknowledged.difference(&before).copied().collect();
        self.force_rebuild = true;
        self.post_check(r, &before, &incoming, true, "add_op", "add_op");
        self.force_rebuild = false;
        self.verify_reachable(r, label);
    }

    fn bulk(&mut self, at: usize, count: usize, chained: bool, to_mask: u32, order: u32) {
        let count = count.min(1200);
        let first = self.pool.len();
        let actor = if self.anyone { self.n_auth as u32 } else { 0 };
        let mut scratch = self.replicas[at].crdt.clone();
        let heads: BTreeSet<EntryHash> = scratch.read().into_iter().map(|(h, _)| h).collect();
        for i in 0..count {
            let idx = self.pool.len();
            let parents = if chained && i > 0 { Parents::ChildOf { of: (idx - 1) as u32 } } else { Parents::Heads };
            self.make_op(&mut scratch, &heads, actor, Kind::Good, parents, EntrySel::Fresh { size: (8 + idx % 24) as u32 });
        }
        self.rep.ops += count as u64;
        self.rep.probe_n("bulk_ops_written", count as u64);
        self.rep.log(format!("bulk at r{at}: ops #{first}..#{} chained={chained} to_mask={to_mask:#b} order={order}", first + count));
        for r in 0..self.n {
            if (to_mask >> r) & 1 == 0 {
                continue;
            }
            if self.blocked(at, r) {
                self.rep.fault("partition_blocked_bulk");
                self.rep.log(format!("  bulk -> r{r}: cut off by the partition"));
                continue;
            }
            if self.replicas[r].signed.is_none() {
                self.rep.log(format!("  bulk -> r{r}: does not hold the register"));
                continue;
            }
            let mut list: Vec<usize> = (first..first + count).collect();
            match order {
                0 => {}
                1 => {
                    if r % 2 == 1 {
                        list.reverse();
                        self.rep.nonfifo += 1;
                    }
                }
                o => {
                    if count > 0 {
                        let rot = (o as usize).wrapping_mul(r + 1) % count;
                        list.rotate_left(rot);
                        if rot != 0 {
                            self.rep.nonfifo += 1;
                        }
                    }
                }
            }
            self.rep.sched.write_u64(order as u64 ^ ((r as u64) << 32));
            self.deliver_many(r, list, "bulk");
        }
    }

    fn laws(&mut self, a: u32, b: u32, c: u32) {
        let m = self.reach.len();
        let (ia, ib, ic) = (a as usize % m, b as usize % m, c as usize % m);
        let (sa, sb, sc) = (self.reach[ia].0.clone(), self.reach[ib].0.clone(), self.reach[ic].0.clone());
        let cb_b = self.reach[ib].1;
        let big = sa.ops().len().max(sb.ops().len()).max(sc.ops().len()) > 200;
        self.rep.probe("merge_laws_checked");
        if ia != ib && ib != ic && ia != ic && sa != sb && sb != sc && sa != sc {
            self.rep.probe("merge_laws_on_three_distinct_states");
        }
        self.rep.log(format!("laws on recorded states #{ia} ({} ops), #{ib} ({} ops), #{ic} ({} ops)", sa.ops().len(), sb.ops().len(), sc.ops().len()));
        let merge = |x: &SignedRegister, y: &SignedRegister| -> Result<SignedRegister, RegError> {
            let mut z = x.clone();
            z.merge(y)?;
            Ok(z)
        };
        let mut fail: Option<(&'static str, String)> = None;
        let r = (|| -> Result<(), (&'static str, String)> {
            let e = |law: &'static str| move |e: RegError| (law, format!("merge of two reachable states failed: {}", err_name(&e)));
            let ab = merge(&sa, &sb).map_err(e("commutative"))?;
            let ba = merge(&sb, &sa).map_err(e("commutative"))?;
            if ab != ba {
                return Err(("commutative", format!("a+b has {} ops, b+a has {}", ab.ops().len(), ba.ops().len())));
            }
            let ab_c = merge(&ab, &sc).map_err(e("associative"))?;
            let bc = merge(&sb, &sc).map_err(e("associative"))?;
            let a_bc = merge(&sa, &bc).map_err(e("associative"))?;
            if ab_c != a_bc {
                return Err(("associative", format!("(a+b)+c has {} ops, a+(b+c) has {}", ab_c.ops().len(), a_bc.ops().len())));
            }
            let aa = merge(&sa, &sa).map_err(e("idempotent"))?;
            if aa != sa {
                return Err(("idempotent", "a+a differs from a".into()));
            }
            let abb = merge(&ab, &sb).map_err(e("idempotent"))?;
            if abb != ab {
                return Err(("idempotent", "(a+b)+b differs from a+b".into()));
            }
            // merge result = union of the op sets, nothing else
            let union: BTreeSet<&RegisterOp> = sa.ops().iter().chain(sb.ops().iter()).chain(sc.ops().iter()).collect();
            if union.len() != ab_c.ops().len() || !union.iter().all(|o| ab_c.ops().contains(*o)) {
                return Err(("union", format!("a+b+c has {} ops, the union of the three op sets {}", ab_c.ops().len(), union.len())));
            }
            // the same laws on the CRDT layer, on the values presented (skipped for states of several hundred
            // ops: MerkleReg's orphan handling is quadratic; small runs cover this layer)
            if big {
                return Ok(());
            }
            let build = |s: &SignedRegister| {
                let mut c = RegisterCrdt::new(*s.address());
                for op in s.ops() {
                    let _ = c.apply_op(op.clone());
                }
                c
            };
            let (ca, cb, cc) = (build(&sa), build(&sb), build(&sc));
            let cm = |x: &RegisterCrdt, y: &RegisterCrdt| {
                let mut z = x.clone();
                z.merge(y.clone());
                z
            };
            let (cab, cba) = (cm(&ca, &cb), cm(&cb, &ca));
            if cab.read() != cba.read() || cab.size() != cba.size() {
                return Err(("crdt_commutative", "read()/size() of a+b and b+a differ".into()));
            }
            let (cab_c, ca_bc) = (cm(&cab, &cc), cm(&ca, &cm(&cb, &cc)));
            if cab_c.read() != ca_bc.read() || cab_c.size() != ca_bc.size() {
                return Err(("crdt_associative", "read()/size() of (a+b)+c and a+(b+c) differ".into()));
            }
            if cm(&ca, &ca).read() != ca.read() || cm(&cab, &cb).read() != cab.read() {
                return Err(("crdt_idempotent", "read() changes when a state is merged twice".into()));
            }
            if build(&ab_c).read() != cab_c.read() {
                return Err(("crdt_vs_ops", "CRDT built from the merged op set presents other values than the merged CRDTs".into()));
            }
            Ok(())
        })();
        if let Err((law, d)) = r {
            fail = Some((law, d));
        }
        if let Some((law, d)) = fail {
            self.violate("merge_law_broken", &[("law", law.into())], format!("states #{ia}, #{ib}, #{ic}: {d}"));
            return;
        }
        // verified_merge of reachable states must agree with merge, and the merged state is itself reachable
        let mut vm = sa.clone();
        let res = vm.verified_merge(&sb);
        self.rep.log(format!("  verified_merge(a, b) => {}", res_name(&res)));
        match res {
            Ok(()) => {
                if Ok(&vm) != merge(&sa, &sb).as_ref() {
                    self.violate("merge_law_broken", &[("law", "verified_merge_equals_merge".into())], format!("states #{ia}, #{ib}"));
                }
                let vres = vm.verify();
                self.rep.log(format!("  verify(a+b, {} ops) => {}", vm.ops().len(), res_name(&vres)));
                if let Err(e) = vres {
                    let sig = match e {
                        RegError::TooManyEntries(_) => self.limit_signature(vm.ops().len(), Some("merge")),
                        _ => vec![("shape", format!("other_{}", err_name(&e)))],
                    };
                    self.violate("reachable_state_rejected_by_peer", &sig, format!("merge of recorded states #{ia} and #{ib} ({} ops) is rejected by verify(): {}", vm.ops().len(), err_name(&e)));
                }
            }
            Err(e) => {
                let sig = match e {
                    RegError::TooManyEntries(_) => self.limit_signature(sb.ops().len(), cb_b),
                    _ => vec![("shape", format!("other_{}", err_name(&e)))],
                };
                self.violate("reachable_state_rejected_by_peer", &sig, format!("recorded state #{ib} ({} ops) is rejected by verified_merge: {}", sb.ops().len(), err_name(&e)));
            }
        }
    }

    // ---------------------------------------------------------------- final phase

    fn final_phase(&mut self) {
        self.heal("final heal");
        let mut guard = 0;
        while !self.pending.is_empty() && !self.stop {
            let m = self.pending.remove(0);
            self.deliver_msg(m, "final deliver");
            guard += 1;
            if guard > 100_000 {
                self.rep.harness_error = Some("final delivery does not terminate".into());
                return;
            }
        }
        if self.stop {
            return;
        }
        // replicas that never obtained the register fetch it from replica 0
        for r in 0..self.n {
            if self.replicas[r].signed.is_none() {
                let snap = self.replicas[0].signed.clone().expect("replica 0 always holds the register");
                let cb = self.replicas[0].crossed_by;
                self.rep.log(format!("final: r{r} fetches the register from r0"));
                self.deliver_state(r, &snap, Via::VerifiedMerge, Origin::Reachable, cb, "register of r0");
                if self.replicas[r].signed.is_none() {
                    self.rep.log(format!("final: r{r} still holds nothing"));
                }
            }
        }
        match self.plan.final_sync {
            FinalSync::Rebroadcast => {
                self.rep.log("final: rebroadcast of every pool op to every replica that has not acknowledged it");
                for r in 0..self.n {
                    let mut list: Vec<usize> = (0..self.pool.len()).collect();
                    if r % 2 == 1 {
                        list.reverse();
                    }
                    list.retain(|k| !self.replicas[r].model.contains(&self.pool[*k].canon));
                    if list.len() > 40 && self.replicas[r].signed.is_some() {
                        self.deliver_many(r, list, "rebroadcast");
                        continue;
                    }
                    for k in list {
                        if self.stop {
                            return;
                        }
                        if !self.replicas[r].model.contains(&self.pool[k].canon) {
                            self.deliver_op(r, k);
                        }
                    }
                }
            }
            FinalSync::AntiEntropy => {
                let hub = (self.plan.key_seed % self.n as u64) as usize;
                self.rep.log(format!("final: anti-entropy through hub r{hub}"));
                for phase in 0..2 {
                    for r in 0..self.n {
                        if r == hub || self.stop {
                            continue;
                        }
                        let (from, to) = if phase == 0 { (r, hub) } else { (hub, r) };
                        let Some(snap) = self.replicas[from].signed.clone() else { continue };
                        let cb = self.replicas[from].crossed_by;
                        let via = if (r + phase) % 2 == 0 { Via::VerifiedMerge } else { Via::VerifyThenMerge };
                        self.deliver_state(to, &snap, via, Origin::Reachable, cb, &format!("register of r{from}"));
                    }
                }
            }
        }
        if self.stop {
            return;
        }
        // convergence
        let held: Vec<usize> = (0..self.n).filter(|r| self.replicas[*r].signed.is_some()).collect();
        let lens: Vec<usize> = held.iter().map(|r| self.replicas[*r].signed.as_ref().map(|s| s.ops().len()).unwrap_or(0)).collect();
        // replicas can legitimately (recorded finding) stay apart only when more distinct valid ops are in play
        // than one register may hold
        let mut in_play: BTreeSet<usize> = BTreeSet::new();
        for r in &held {
            in_play.extend(self.replicas[*r].model.iter().copied());
        }
        let at_limit = in_play.len() > LIMIT;
        self.rep.log(format!("final: op counts {lens:?}"));
        let r0 = held[0];
        let mut all_equal = true;
        for r in &held[1..] {
            let same_ops = self.replicas[*r].signed.as_ref().map(|s| s.ops()) == self.replicas[r0].signed.as_ref().map(|s| s.ops());
            let same_read = self.replicas[*r].crdt.read() == self.replicas[r0].crdt.read();
            if !same_ops || !same_read {
                all_equal = false;
                let sig: Vec<(&str, String)> = if at_limit {
                    vec![("cause", "entry_count_limit".into()), ("shape", "replicas_stay_apart_at_entry_limit".into())]
                } else {
                    vec![("shape", if same_ops { "same_ops_different_values" } else { "different_ops" }.into())]
                };
                let only_here: Vec<_> = self.replicas[*r].model.difference(&self.replicas[r0].model).take(5).collect();
                let only_there: Vec<_> = self.replicas[r0].model.difference(&self.replicas[*r].model).take(5).collect();
                let d = format!(
                    "after heal + full delivery r{r0} holds {} ops / {} values, r{r} holds {} ops / {} values; only at r{r}: {only_here:?}.., only at r{r0}: {only_there:?}..",
                    self.replicas[r0].model.len(),
                    self.replicas[r0].crdt.read().len(),
                    self.replicas[*r].model.len(),
                    self.replicas[*r].crdt.read().len()
                );
                self.violate("replicas_diverged_after_full_delivery", &sig, d);
            }
        }
        if all_equal {
            self.rep.probe("converged");
        }
        if held.len() < self.n {
            self.violate("replicas_diverged_after_full_delivery", &[("shape", "replica_never_obtained_register".into())], format!("{} of {} replicas hold the register", held.len(), self.n));
        }
        // with a rebroadcast every replica has received every op: it must hold exactly the valid ones
        if self.plan.final_sync == FinalSync::Rebroadcast {
            let want: BTreeSet<usize> = (0..self.pool.len()).filter(|k| self.valid(*k)).map(|k| self.pool[k].canon).collect();
            if want.len() <= LIMIT {
                for r in &held {
                    let admitted_invalid = self.replicas[*r].model.iter().any(|k| !self.valid(*k));
                    if self.replicas[*r].model != want && !admitted_invalid {
                        let missing: Vec<_> = want.difference(&self.replicas[*r].model).take(5).collect();
                        self.violate("replicas_diverged_after_full_delivery", &[("shape", "valid_op_missing_after_rebroadcast".into())], format!("r{r} lacks valid ops {missing:?}"));
                    }
                }
            }
        }
        if self.limit_mode {
            for r in &held {
                self.check_values(*r, "final state", true);
            }
        }
        // every final state is accepted by the peers
        let mut seen: Vec<usize> = vec![];
        for r in &held {
            let dup = seen.iter().any(|q| self.replicas[*q].signed == self.replicas[*r].signed);
            if !dup {
                seen.push(*r);
                self.verify_reachable(*r, "final state");
            }
        }
        if seen.len() > 1 && !self.limit_mode {
            // states differ (already reported): each must still merge into the other
            let (a, b) = (seen[0], seen[1]);
            let snap = self.replicas[a].signed.clone().expect("held");
            let cb = self.replicas[a].crossed_by;
            self.deliver_state(b, &snap, Via::VerifiedMerge, Origin::Reachable, cb, &format!("register of r{a}"));
        }
        for r in &held {
            let s = self.replicas[*r].signed.as_ref().expect("held");
            self.rep.state.write_u64(s.ops().len() as u64);
            for (h, _) in self.replicas[*r].crdt.read() {
                self.rep.state.write(&h.0);
            }
        }
        for k in &self.replicas[r0].model {
            self.rep.state.write_u64(*k as u64);
        }
    }

    fn run(&mut self) {
        let steps = self.plan.steps.clone();
        for (i, s) in steps.iter().enumerate() {
            if self.stop || self.rep.harness_error.is_some() {
                break;
            }
            self.rep.steps += 1;
            self.rep.log(format!("[{i}] {}", step_tag(s)));
            self.step(s);
        }
        if !self.stop && self.rep.harness_error.is_none() {
            self.final_phase();
        }
        let max_len = self.replicas.iter().filter_map(|r| r.signed.as_ref().map(|s| s.ops().len())).max().unwrap_or(0);
        if max_len >= LIMIT {
            self.rep.probe("run_ended_at_or_over_limit");
        }
    }
}

fn step_tag(s: &Step) -> &'static str {
    match s {
        Step::Write { .. } => "Write",
        Step::SendOp { .. } => "SendOp",
        Step::SendState { .. } => "SendState",
        Step::AdvState { .. } => "AdvState",
        Step::Deliver { .. } => "Deliver",
        Step::Dup { .. } => "Dup",
        Step::Drop { .. } => "Drop",
        Step::Partition { .. } => "Partition",
        Step::Heal => "Heal",
        Step::Laws { .. } => "Laws",
        Step::Bulk { .. } => "Bulk",
    }
}
