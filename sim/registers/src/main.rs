//! sim `registers` — skeleton, to be filled in (see /verif/DESIGN.md section 5).
fn main() {
    eprintln!("HARNESS-ERROR: sim registers not built yet");
    std::process::exit(2);
}
