//! sim `registers` (property C06): 2..5 replicas, each a real `(SignedRegister, RegisterCrdt)` pair from
//! `/repo/ant-registers`, writers with real BLS keys, and a simulator-owned transport (op broadcast and
//! whole-register transfer with reordering, duplication, loss until heal, partitions). The operation pool
//! mixes authorised, unauthorised, forged, foreign-address, oversized, concurrent and causally chained
//! operations; adversarial registers arrive only through the verifying entry points the node uses.

mod model;
mod world;

use serde::{Deserialize, Serialize};
use simkit::{GenCtx, PropertySpec, Rng, RunReport, Sim, Tier};

#[derive(Serialize, Deserialize, Clone, Copy, Debug, PartialEq, Eq)]
pub enum Perm {
    /// `Permissions::new_with([])` (the owner is added by `Register::new`)
    OwnerOnly,
    /// `Permissions::new_with(listed writers)`
    Writers,
    /// `Permissions::new_anyone_can_write()`
    Anyone,
}

#[derive(Serialize, Deserialize, Clone, Copy, Debug, PartialEq, Eq)]
pub enum Kind {
    /// signed by an authorised actor
    Good,
    /// genuinely signed by an actor that is not in the permissions
    Unauthorised,
    /// source = an authorised actor, signature made by a stranger's key
    ForgedByStranger,
    /// source = an authorised actor, signature is that actor's genuine signature over another entry
    ForgedTampered,
    /// genuinely signed by an authorised actor, but addressed to a register with another meta
    ForeignMeta,
    /// genuinely signed by an authorised actor, but addressed to a register with another owner
    ForeignOwner,
    /// genuinely signed by an authorised actor, entry larger than the size limit
    Oversized,
    /// genuinely signed by an authorised actor for a register with another meta, then RE-ADDRESSED to this
    /// register (address field rewritten, signature kept): what a peer that observed the op elsewhere can forge
    Readdressed,
    /// genuinely signed by an authorised actor for this register, then RE-PARENTED: only the children set of the
    /// crdt op is rewritten (value, source, address and signature kept)
    Reparented,
    /// genuinely signed by an authorised actor for this register with at least one parent, then RESHAPED: the parent
    /// hashes are moved in front of the value and the children set is emptied (source, address and signature kept).
    /// The crdt node hash is sha3(child1 .. childN value) without separators, so the reshaped node hashes the same
    Reshaped,
}

#[derive(Serialize, Deserialize, Clone, Copy, Debug, PartialEq, Eq)]
#[serde(tag = "p")]
pub enum Parents {
    /// the current values of replica `at` (what a client that fetched from `at` writes atop)
    Heads,
    Root,
    /// the same parents as pool op `of` (modulo pool size): a concurrent sibling
    SameAs { of: u32 },
    /// directly atop pool op `of` (modulo pool size), delivered or not, valid or not
    ChildOf { of: u32 },
}

#[derive(Serialize, Deserialize, Clone, Copy, Debug, PartialEq, Eq)]
#[serde(tag = "e")]
pub enum EntrySel {
    Fresh { size: u32 },
    /// the very same entry bytes as pool op `of` (modulo pool size)
    CopyOf { of: u32 },
}

#[derive(Serialize, Deserialize, Clone, Copy, Debug, PartialEq, Eq)]
#[serde(tag = "d")]
pub enum Push {
    None,
    /// one op message from replica `at` to every replica in `mask`
    Broadcast { mask: u32 },
    /// the client adds the op to its fetched copy (`add_op`, as `Register::write_atop`) and puts the
    /// whole copy to every replica in `mask`
    ClientState { mask: u32, via: Via },
}

#[derive(Serialize, Deserialize, Clone, Copy, Debug, PartialEq, Eq)]
pub enum Via {
    /// `local.verified_merge(&incoming)` (ant-node `register_validation`)
    VerifiedMerge,
    /// `incoming.verify()` then `local.merge(&incoming)` (ant-networking split-record handling)
    VerifyThenMerge,
}

#[derive(Serialize, Deserialize, Clone, Copy, Debug, PartialEq, Eq)]
#[serde(tag = "b")]
pub enum Bad {
    /// the replica's ops plus pool op `op` (valid or not)
    InjectOp { op: u32 },
    /// permissions widened to include a stranger, the owner's signature over the original register reused
    WidenedPermsOldSig,
    /// permissions widened to include a stranger, signed by the stranger
    WidenedPermsStrangerSig,
    /// a genuine register of the same owner with another meta (a different base register)
    OtherMeta,
    /// same address, different permissions, genuinely owner-signed (offered only to replicas that hold the register)
    OtherPermsOwnerSigned,
}

#[derive(Serialize, Deserialize, Clone, Debug, PartialEq)]
#[serde(tag = "t")]
pub enum Step {
    /// A client fetches replica `at`, writes an entry with the real `RegisterCrdt::write` + `RegisterOp::new`.
    Write { at: u32, actor: u32, kind: Kind, parents: Parents, entry: EntrySel, push: Push },
    /// (Re)send pool op `op` from replica `from` to replica `to`.
    SendOp { op: u32, from: u32, to: u32 },
    /// Snapshot replica `from`'s register now and send it to `to`.
    SendState { from: u32, to: u32, via: Via },
    /// An adversarial register built from replica `base`'s current register arrives at `to` (immediately).
    AdvState { to: u32, base: u32, bad: Bad, via: Via },
    /// Deliver the `sel`-th deliverable message (u32::MAX = the newest).
    Deliver { sel: u32 },
    Dup { sel: u32 },
    /// Lose the `sel`-th deliverable message; it is retransmitted at the next heal.
    Drop { sel: u32 },
    /// Replicas whose bit is set are cut off from the others until Heal.
    Partition { mask: u32 },
    Heal,
    /// Check the merge laws on three recorded reachable states.
    Laws { a: u32, b: u32, c: u32 },
    /// A client at replica `at` writes `n` entries (chained or all concurrent); they are delivered at once
    /// by `add_op`+`apply_op` to the replicas in `to_mask` (each replica in its own order derived from `order`).
    Bulk { at: u32, n: u32, chained: bool, to_mask: u32, order: u32 },
}

#[derive(Serialize, Deserialize, Clone, Copy, Debug, PartialEq, Eq)]
pub enum FinalSync {
    /// every op of the pool is (re)sent to every replica that does not hold it
    Rebroadcast,
    /// every replica sends its register to a hub, the hub sends the result back
    AntiEntropy,
}

#[derive(Serialize, Deserialize, Clone, Debug)]
pub struct Plan {
    pub property: String,
    pub mode: String,
    pub key_seed: u64,
    pub replicas: u32,
    /// replicas (never replica 0) that start without the register
    pub absent_mask: u32,
    pub perm: Perm,
    /// listed writers besides the owner
    pub listed: u32,
    pub strangers: u32,
    pub final_sync: FinalSync,
    pub steps: Vec<Step>,
}

pub struct RegistersSim;

fn gen_size(rng: &mut Rng) -> u32 {
    match rng.below(20) {
        0 => 0,
        1 => 1,
        2 => 1023,
        3 | 4 => 1024,
        5 => rng.range(200, 1022) as u32,
        _ => rng.range(8, 40) as u32,
    }
}

fn gen_small(rng: &mut Rng, ctx: &GenCtx) -> Plan {
    let fault = ctx.mode == "fault";
    let replicas = rng.range(2, 5) as u32;
    let perm = *rng.pick(&[Perm::OwnerOnly, Perm::Writers, Perm::Writers, Perm::Anyone]);
    let listed = match perm {
        Perm::Writers => rng.range(1, 3) as u32,
        _ => 0,
    };
    let strangers = rng.range(1, 2) as u32;
    let absent_mask = if rng.chance(1, 4) { 1u32 << rng.range(1, replicas as u64 - 1) } else { 0 };
    let all = (1u32 << replicas) - 1;
    let n_steps = match ctx.tier {
        Tier::Quick => rng.urange(6, 36),
        Tier::Thorough => rng.urange(6, 60),
    };
    let max_writes = match ctx.tier {
        Tier::Quick => rng.urange(3, 11),
        Tier::Thorough => rng.urange(3, 16),
    };
    // swarm: weights of this run
    let w_write = rng.range(15, 40);
    let w_sendop = if rng.chance(1, 2) { rng.range(1, 8) } else { 0 };
    let w_sendstate = if rng.chance(4, 5) { rng.range(3, 18) } else { 0 };
    let w_adv = if rng.chance(2, 3) { rng.range(2, 10) } else { 0 };
    let w_deliver = rng.range(20, 55);
    let w_laws = if rng.chance(1, 2) { rng.range(1, 3) } else { 0 };
    let (w_dup, w_drop, w_part, w_heal) = if fault {
        (
            if rng.chance(3, 4) { rng.range(2, 9) } else { 0 },
            if rng.chance(3, 4) { rng.range(2, 9) } else { 0 },
            if rng.chance(2, 3) { rng.range(1, 5) } else { 0 },
            rng.range(1, 4),
        )
    } else {
        (0, 0, 0, 0)
    };
    let weights = [w_write, w_sendop, w_sendstate, w_adv, w_deliver, w_laws, w_dup, w_drop, w_part, w_heal];
    let kind_w = [
        12,
        if rng.chance(2, 3) { rng.range(1, 4) } else { 0 },
        if rng.chance(1, 2) { rng.range(1, 3) } else { 0 },
        if rng.chance(1, 2) { rng.range(1, 3) } else { 0 },
        if rng.chance(1, 2) { rng.range(1, 3) } else { 0 },
        if rng.chance(1, 3) { rng.range(1, 2) } else { 0 },
        if rng.chance(1, 2) { rng.range(1, 3) } else { 0 },
        if rng.chance(1, 2) { rng.range(1, 3) } else { 0 },
        if rng.chance(1, 2) { rng.range(1, 3) } else { 0 },
        if rng.chance(1, 2) { rng.range(1, 3) } else { 0 },
    ];
    let kinds = [
        Kind::Good,
        Kind::Unauthorised,
        Kind::ForgedByStranger,
        Kind::ForgedTampered,
        Kind::ForeignMeta,
        Kind::ForeignOwner,
        Kind::Oversized,
        Kind::Readdressed,
        Kind::Reparented,
        Kind::Reshaped,
    ];
    let parents_w = [
        12,
        if rng.chance(1, 2) { rng.range(1, 3) } else { 0 },
        if rng.chance(2, 3) { rng.range(1, 6) } else { 0 },
        if rng.chance(2, 3) { rng.range(1, 6) } else { 0 },
    ];
    let push_w = [1, rng.range(4, 12), if rng.chance(2, 3) { rng.range(1, 6) } else { 0 }];
    // schedule policy: 0 fifo, 1 random, 2 newest first, 3 mostly fifo
    let sched = if fault { rng.below(4) } else { 0 };
    let via = |rng: &mut Rng| if rng.chance(1, 2) { Via::VerifiedMerge } else { Via::VerifyThenMerge };

    let mut steps = Vec::with_capacity(n_steps + 4);
    let mut writes = 0usize;
    for _ in 0..n_steps {
        let mut choice = rng.weighted(&weights);
        if choice == 0 && writes >= max_writes {
            choice = 4;
        }
        let s = match choice {
            0 => {
                writes += 1;
                let kind = kinds[rng.weighted(&kind_w)];
                let parents = match rng.weighted(&parents_w) {
                    0 => Parents::Heads,
                    1 => Parents::Root,
                    2 => Parents::SameAs { of: rng.below(64) as u32 },
                    _ => Parents::ChildOf { of: rng.below(64) as u32 },
                };
                let entry = if kind == Kind::Oversized {
                    EntrySel::Fresh { size: if rng.chance(1, 2) { 1025 } else { rng.range(1026, 3000) as u32 } }
                } else if rng.chance(1, 16) {
                    EntrySel::CopyOf { of: rng.below(64) as u32 }
                } else {
                    EntrySel::Fresh { size: gen_size(rng) }
                };
                let mask = if rng.chance(1, 2) { all } else { (rng.below(all as u64) + 1) as u32 };
                let push = match rng.weighted(&push_w) {
                    0 => Push::None,
                    1 => Push::Broadcast { mask },
                    _ => Push::ClientState { mask, via: via(rng) },
                };
                Step::Write { at: rng.below(8) as u32, actor: rng.below(8) as u32, kind, parents, entry, push }
            }
            1 => Step::SendOp { op: rng.below(64) as u32, from: rng.below(8) as u32, to: rng.below(8) as u32 },
            2 => Step::SendState { from: rng.below(8) as u32, to: rng.below(8) as u32, via: via(rng) },
            3 => {
                let bad = match rng.below(8) {
                    0 => Bad::WidenedPermsOldSig,
                    1 => Bad::WidenedPermsStrangerSig,
                    2 => Bad::OtherMeta,
                    3 => Bad::OtherPermsOwnerSigned,
                    _ => Bad::InjectOp { op: rng.below(64) as u32 },
                };
                Step::AdvState { to: rng.below(8) as u32, base: rng.below(8) as u32, bad, via: via(rng) }
            }
            4 => Step::Deliver {
                sel: match sched {
                    0 => 0,
                    1 => rng.below(1 << 16) as u32,
                    2 => u32::MAX,
                    _ => {
                        if rng.chance(1, 4) {
                            rng.below(1 << 16) as u32
                        } else {
                            0
                        }
                    }
                },
            },
            5 => Step::Laws { a: rng.below(1 << 16) as u32, b: rng.below(1 << 16) as u32, c: rng.below(1 << 16) as u32 },
            6 => Step::Dup { sel: rng.below(1 << 16) as u32 },
            7 => Step::Drop { sel: rng.below(1 << 16) as u32 },
            8 => Step::Partition { mask: (rng.below(all as u64 - 1) + 1) as u32 },
            _ => Step::Heal,
        };
        let created_inflight = matches!(
            s,
            Step::Write { push: Push::Broadcast { .. } | Push::ClientState { .. }, .. } | Step::SendState { .. }
        );
        steps.push(s);
        // bias: faults land right after an operation that created in-flight state
        if fault && created_inflight && rng.chance(1, 4) {
            steps.push(match rng.below(3) {
                0 if w_drop > 0 => Step::Drop { sel: u32::MAX },
                1 if w_dup > 0 => Step::Dup { sel: u32::MAX },
                _ if w_part > 0 => Step::Partition { mask: (rng.below(all as u64 - 1) + 1) as u32 },
                _ => Step::Deliver { sel: u32::MAX },
            });
        }
    }
    if rng.chance(1, 2) {
        steps.push(Step::Laws { a: rng.below(1 << 16) as u32, b: rng.below(1 << 16) as u32, c: rng.below(1 << 16) as u32 });
    }
    Plan {
        property: ctx.property.clone(),
        mode: ctx.mode.clone(),
        key_seed: rng.next_u64(),
        replicas,
        absent_mask,
        perm,
        listed,
        strangers,
        final_sync: if rng.chance(1, 2) { FinalSync::Rebroadcast } else { FinalSync::AntiEntropy },
        steps,
    }
}

/// Entry-limit runs: anyone-can-write (no per-op signature check), replicas driven to 1017..1030 ops by
/// `add_op` and by merges.
fn gen_limit(rng: &mut Rng, ctx: &GenCtx) -> Plan {
    let replicas = rng.range(2, 3) as u32;
    let all = (1u32 << replicas) - 1;
    let via = |rng: &mut Rng| if rng.chance(1, 2) { Via::VerifiedMerge } else { Via::VerifyThenMerge };
    let mut steps = vec![];
    let scenario = rng.below(3);
    let order = match rng.below(3) {
        0 => 0,
        1 => 1,
        _ => rng.range(2, 1 << 16) as u32,
    };
    let chained = rng.chance(1, 2);
    match scenario {
        0 => {
            // reach / cross the limit by op delivery
            let n = *rng.pick(&[1022u32, 1023, 1024, 1024, 1025, 1025, 1026, 1028]);
            steps.push(Step::Bulk { at: 0, n, chained, to_mask: all, order });
        }
        1 => {
            // two sides fill up separately, then exchange whole registers
            let total = *rng.pick(&[1022u32, 1023, 1024, 1024, 1025, 1025, 1026, 1030]);
            let n1 = if rng.chance(1, 3) { 1024.min(total - 1) } else { rng.range(1, (total - 1).min(1024) as u64) as u32 };
            let n2 = (total - n1).min(1024);
            steps.push(Step::Partition { mask: 1 });
            steps.push(Step::Bulk { at: 0, n: n1, chained, to_mask: 1, order });
            steps.push(Step::Bulk { at: 1, n: n2, chained: rng.chance(1, 2), to_mask: all & !1, order });
            steps.push(Step::Heal);
            steps.push(Step::SendState { from: 0, to: 1, via: via(rng) });
            steps.push(Step::SendState { from: 1, to: 0, via: via(rng) });
            steps.push(Step::Deliver { sel: 0 });
            steps.push(Step::Deliver { sel: 0 });
        }
        _ => {
            // stop just short of the limit and continue with ordinary traffic
            let n = rng.range(1017, 1023) as u32;
            steps.push(Step::Bulk { at: 0, n, chained, to_mask: all, order });
        }
    }
    let extra = if scenario == 2 { rng.urange(6, 16) } else { rng.urange(0, 8) };
    for _ in 0..extra {
        let s = match rng.below(10) {
            0..=4 => Step::Write {
                at: rng.below(8) as u32,
                actor: rng.below(8) as u32,
                kind: *rng.pick(&[Kind::Good, Kind::Good, Kind::Good, Kind::Unauthorised, Kind::Oversized, Kind::ForgedByStranger]),
                parents: if rng.chance(3, 4) { Parents::Heads } else { Parents::ChildOf { of: rng.below(2000) as u32 } },
                entry: EntrySel::Fresh { size: rng.range(8, 40) as u32 },
                push: if rng.chance(3, 4) {
                    Push::Broadcast { mask: if rng.chance(1, 2) { all } else { (rng.below(all as u64) + 1) as u32 } }
                } else {
                    Push::ClientState { mask: (rng.below(all as u64) + 1) as u32, via: via(rng) }
                },
            },
            5 | 6 => Step::SendState { from: rng.below(8) as u32, to: rng.below(8) as u32, via: via(rng) },
            7 => Step::Laws { a: rng.below(1 << 16) as u32, b: rng.below(1 << 16) as u32, c: rng.below(1 << 16) as u32 },
            _ => Step::Deliver { sel: if rng.chance(1, 2) { 0 } else { rng.below(1 << 16) as u32 } },
        };
        let w = matches!(s, Step::Write { .. });
        steps.push(s);
        if w {
            for _ in 0..replicas {
                if rng.chance(2, 3) {
                    steps.push(Step::Deliver { sel: 0 });
                }
            }
        }
    }
    Plan {
        property: ctx.property.clone(),
        mode: ctx.mode.clone(),
        key_seed: rng.next_u64(),
        replicas,
        absent_mask: 0,
        perm: Perm::Anyone,
        listed: 0,
        strangers: 1,
        final_sync: if rng.chance(1, 2) { FinalSync::Rebroadcast } else { FinalSync::AntiEntropy },
        steps,
    }
}

impl Sim for RegistersSim {
    type Plan = Plan;
    const NAME: &'static str = "registers";

    fn properties() -> Vec<PropertySpec> {
        vec![PropertySpec {
            id: "C06",
            level: "exploration",
            // weights: 6 fault-free, 6 fault, 1 entry-limit run (~0.8 s of BLS signing each) out of every 13
            modes: vec!["nofault", "fault", "nofault", "fault", "nofault", "fault", "limit", "nofault", "fault", "nofault", "fault", "nofault", "fault"],
            quick_runs: 1_300,
            thorough_runs: 52_000,
            rule: "One run = one seeded plan over 2..5 replicas (each a real SignedRegister + RegisterCrdt; some start without the register) with owner-only / listed-writers / anyone permissions and BLS keys derived from the plan: clients write entries with the real RegisterCrdt::write + RegisterOp::new (authorised, unauthorised signer, two forgeries, two foreign-address forms, oversized, identical content, concurrent siblings, children delivered before parents), ops travel as op broadcast (add_op + apply_op) or inside whole registers (verified_merge, verify + merge, verify_with_address for a replica without the register), adversarial registers (injected op, widened permissions, other base register) arrive only through those verifying entry points; the simulator owns the message queue (mode nofault: FIFO reliable; mode fault: reordering, duplication, loss until heal, partitions; mode limit: anyone-can-write registers driven to 1017..1030 ops by add_op and by merges). After every delivery the replica's op set is compared with the independently kept valid set and acknowledged outcomes, its current values with an independent Merkle-DAG model and with a client-style rebuild; merge laws are checked on sampled triples of recorded reachable states; every run ends with heal + full delivery followed by equality of ops() and read() across replicas and verify() of every final state at its peers. Non-trivial = >=3 operations and (>=1 non-FIFO delivery or >=1 fired fault); distinct = distinct fingerprint of the executed delivery decisions and faults.",
            assumptions: vec![
                "a replica is driven as the client/node code drives it: local write = RegisterCrdt::write + RegisterOp::new + add_op; remote op = add_op then apply_op; remote register = verified_merge, or verify then merge, or (register not held) verify_with_address then store, the CRDT being rebuilt with apply_op as Client::register_get does",
                "under anyone-can-write permissions any signer and any signature is acceptable (the statement's 'or the register is open to anyone'); address and entry-size rules still apply",
                "the owner is honest (never signs two different permission sets for one address towards a replica that does not hold the register)",
                "BLS keys are derived from the plan; no OS randomness is consumed by the code under test in this sim",
                "the entry-count limit is 1024 held ops: add_op must admit a valid op while fewer are held and refuse at 1024; a register of up to 1024 valid ops must verify at every peer however it was reached; only a register of more than 1024 ops produced by a merge (and replicas kept apart because more than 1024 distinct valid ops are in play) is the recorded finding",
            ],
        }]
    }

    fn generate(rng: &mut Rng, ctx: &GenCtx) -> Plan {
        if ctx.mode == "limit" {
            gen_limit(rng, ctx)
        } else {
            gen_small(rng, ctx)
        }
    }

    fn execute(plan: &Plan, _entropy: u64) -> RunReport {
        world::execute(plan)
    }

    fn shrink(plan: &Plan) -> Vec<Plan> {
        let mut out = vec![];
        // entry-limit plans cost ~1 s per execution (a thousand BLS signatures): offer the canonical
        // smallest histories first, the minimiser keeps one only if the same rule + signature fires
        if plan.steps.iter().any(|s| matches!(s, Step::Bulk { .. })) {
            let canon: Vec<(FinalSync, Vec<Step>)> = vec![
                // the last admissible entry by add_op alone
                (FinalSync::Rebroadcast, vec![Step::Bulk { at: 0, n: 1024, chained: false, to_mask: 1, order: 0 }]),
                // one more than a register may hold, by add_op alone
                (FinalSync::Rebroadcast, vec![Step::Bulk { at: 0, n: 1025, chained: false, to_mask: 1, order: 0 }]),
                // a full register and one other op meet in a merge
                (
                    FinalSync::AntiEntropy,
                    vec![
                        Step::Bulk { at: 0, n: 1024, chained: false, to_mask: 1, order: 0 },
                        Step::Bulk { at: 1, n: 1, chained: false, to_mask: 2, order: 0 },
                    ],
                ),
                (
                    FinalSync::Rebroadcast,
                    vec![
                        Step::Bulk { at: 0, n: 1024, chained: false, to_mask: 1, order: 0 },
                        Step::Bulk { at: 1, n: 1, chained: false, to_mask: 2, order: 0 },
                        Step::SendState { from: 1, to: 0, via: Via::VerifiedMerge },
                        Step::Deliver { sel: 0 },
                    ],
                ),
                // more ops than a register may hold, delivered in different orders
                (FinalSync::Rebroadcast, vec![Step::Bulk { at: 0, n: 1025, chained: false, to_mask: 3, order: 1 }]),
            ];
            for (fs, steps) in canon {
                if plan.steps != steps || plan.replicas != 2 || plan.final_sync != fs {
                    let bigger = plan.replicas > 2 || plan.steps.len() > steps.len();
                    if bigger {
                        let mut p = plan.clone();
                        p.replicas = 2;
                        p.absent_mask = 0;
                        p.final_sync = fs;
                        p.steps = steps;
                        out.push(p);
                    }
                }
            }
        }
        for steps in simkit::shrink::remove_chunks(&plan.steps) {
            let mut p = plan.clone();
            p.steps = steps;
            out.push(p);
        }
        if plan.replicas > 2 {
            let mut p = plan.clone();
            p.replicas = 2;
            p.absent_mask &= 3;
            out.push(p.clone());
            if plan.replicas > 3 {
                p.replicas = plan.replicas - 1;
                p.absent_mask = plan.absent_mask & ((1 << p.replicas) - 1);
                out.push(p);
            }
        }
        if plan.absent_mask != 0 {
            let mut p = plan.clone();
            p.absent_mask = 0;
            out.push(p);
        }
        if plan.final_sync != FinalSync::Rebroadcast {
            let mut p = plan.clone();
            p.final_sync = FinalSync::Rebroadcast;
            out.push(p);
        }
        if plan.listed > 1 {
            let mut p = plan.clone();
            p.listed = 1;
            out.push(p);
        }
        if plan.strangers > 1 {
            let mut p = plan.clone();
            p.strangers = 1;
            out.push(p);
        }
        for steps in simkit::shrink::simplify_each(&plan.steps, |s| match s {
            Step::Deliver { sel } if *sel != 0 => vec![Step::Deliver { sel: 0 }],
            Step::Write { at, actor, kind, parents, entry, push } => {
                let mut v = vec![];
                if *parents != Parents::Root {
                    v.push(Step::Write { at: *at, actor: *actor, kind: *kind, parents: Parents::Root, entry: *entry, push: *push });
                }
                match entry {
                    EntrySel::Fresh { size } if *size != 8 && *size <= 1024 => {
                        v.push(Step::Write { at: *at, actor: *actor, kind: *kind, parents: *parents, entry: EntrySel::Fresh { size: 8 }, push: *push })
                    }
                    EntrySel::Fresh { size } if *size > 1025 => {
                        v.push(Step::Write { at: *at, actor: *actor, kind: *kind, parents: *parents, entry: EntrySel::Fresh { size: 1025 }, push: *push })
                    }
                    _ => {}
                }
                if *kind != Kind::Good {
                    v.push(Step::Write { at: *at, actor: *actor, kind: Kind::Good, parents: *parents, entry: *entry, push: *push });
                }
                if let Push::ClientState { mask, .. } = push {
                    v.push(Step::Write { at: *at, actor: *actor, kind: *kind, parents: *parents, entry: *entry, push: Push::Broadcast { mask: *mask } });
                }
                if *at != 0 || *actor != 0 {
                    v.push(Step::Write { at: 0, actor: 0, kind: *kind, parents: *parents, entry: *entry, push: *push });
                }
                v
            }
            Step::Bulk { at, n, chained, to_mask, order } => {
                let mut v = vec![];
                if *n > 1 {
                    v.push(Step::Bulk { at: *at, n: *n / 2, chained: *chained, to_mask: *to_mask, order: *order });
                    v.push(Step::Bulk { at: *at, n: *n - 1, chained: *chained, to_mask: *to_mask, order: *order });
                }
                if *order != 0 {
                    v.push(Step::Bulk { at: *at, n: *n, chained: *chained, to_mask: *to_mask, order: 0 });
                }
                if *chained {
                    v.push(Step::Bulk { at: *at, n: *n, chained: false, to_mask: *to_mask, order: *order });
                }
                v
            }
            _ => vec![],
        }) {
            let mut p = plan.clone();
            p.steps = steps;
            out.push(p);
        }
        out
    }

    fn components() -> Vec<(&'static str, &'static str)> {
        vec![
            ("ant-registers: SignedRegister (add_op, merge, verified_merge, verify, verify_with_address), Register, Permissions, RegisterOp (new, signature check), RegisterCrdt (write, apply_op, merge, read) over crdts::MerkleReg, blsttc signatures", "real"),
            ("client glue (autonomi Register::write_atop / Client::register_get) and node glue (ant-node register_validation, ant-networking split-record merge)", "mirrored: the simulator calls the same ant-registers entry points in the same order"),
            ("network between replicas / clients / adversary", "stub: simulator-owned message queue with reorder, duplication, loss until heal, partitions"),
            ("record store, payments, kad", "not part of this sim"),
        ]
    }
}

fn main() {
    simkit::check::main::<RegistersSim>();
}
