//! Independent reference pieces of sim `registers`: deterministic key / entry derivation, the
//! validity bookkeeping of every generated operation (decided from the facts of how the operation
//! was built, never by asking the code under test), and a small Merkle-DAG model of the values a
//! replica must present.

use std::collections::{BTreeMap, BTreeSet, VecDeque};

/// Documented maximum number of entries of a register (`MAX_REG_NUM_ENTRIES`): a register may hold up to and
/// including LIMIT ops; add_op must refuse the next one; a register holding more is rejected by verify().
pub const LIMIT: usize = 1024;
/// Documented maximum size of one entry (`MAX_REG_ENTRY_SIZE`).
pub const MAX_ENTRY: usize = 1024;

pub type H = [u8; 32];

/// 32 bytes that are a pure function of (seed, lane); first byte zero so that the big-endian
/// integer is below the BLS12-381 scalar modulus.
pub fn derive32(seed: u64, lane: u64) -> [u8; 32] {
    let mut b = [0u8; 32];
    let base = simkit::mix(seed, lane.wrapping_mul(0x51ed_270b).wrapping_add(0xa11ce));
    for i in 0..4u64 {
        let w = simkit::mix(base, i + 1);
        b[(i as usize) * 8..(i as usize) * 8 + 8].copy_from_slice(&w.to_be_bytes());
    }
    b[0] = 0;
    b[31] |= 1; // never zero
    b
}

pub fn secret_key(key_seed: u64, actor: usize) -> bls::SecretKey {
    bls::SecretKey::from_bytes(derive32(key_seed, actor as u64)).expect("derived scalar is in range")
}

pub fn meta(key_seed: u64, which: u64) -> xor_name::XorName {
    xor_name::XorName(derive32(key_seed ^ 0x6d65_7461, 1000 + which))
}

/// Entry number `idx` of a run: `size` bytes, unique per idx for every size >= 2 (idx < 65536).
pub fn entry_bytes(idx: usize, size: usize) -> Vec<u8> {
    let mut v = Vec::with_capacity(size);
    let tag = (idx as u64).to_le_bytes();
    for j in 0..size {
        if j < 8 {
            v.push(tag[j]);
        } else {
            v.push((idx as u8).wrapping_mul(31).wrapping_add(j as u8));
        }
    }
    v
}

/// Facts about one operation of the pool, recorded when it was built.
#[derive(Clone, Debug)]
pub struct OpFacts {
    /// actor whose public key is the op's `source`
    pub source_actor: usize,
    pub source_authorised: bool,
    /// the signature was produced by the source's key over exactly this op
    pub sig_genuine: bool,
    /// the op addresses this register
    pub addr_ok: bool,
    pub size: usize,
    pub hash: H,
    pub parents: BTreeSet<H>,
    pub kind: &'static str,
}

impl OpFacts {
    /// The statement's admission rule: permitted signer with a genuine signature (or the register is
    /// open to anyone), this register's address, entry within the size limit.
    pub fn defect(&self, anyone: bool) -> Option<&'static str> {
        if !self.addr_ok {
            return Some("foreign_address_op");
        }
        if self.size > MAX_ENTRY {
            return Some("oversized_entry");
        }
        if !anyone && !self.source_authorised {
            return Some("unauthorised_signer");
        }
        if !anyone && !self.sig_genuine && self.kind == "reshaped_parents_moved_into_value" {
            // its own shape: the signature IS checked, it covers the crdt node hash, and that hash does not tell this op
            // from the one the writer signed
            return Some("reshaped_op_with_the_signed_node_hash");
        }
        if !anyone && !self.sig_genuine {
            return Some("forged_signature");
        }
        None
    }
    pub fn valid(&self, anyone: bool) -> bool {
        self.defect(anyone).is_none()
    }
}

/// Current values of a Merkle-DAG register holding `nodes` (hash -> parent hashes): a node is
/// visible once all its parents are visible; the current values are the visible nodes that are not a
/// parent of another visible node.
pub fn expected_heads(nodes: &BTreeMap<H, BTreeSet<H>>) -> BTreeSet<H> {
    let mut waiting: BTreeMap<H, usize> = BTreeMap::new();
    let mut dependents: BTreeMap<H, Vec<H>> = BTreeMap::new();
    let mut ready: VecDeque<H> = VecDeque::new();
    for (h, ps) in nodes {
        if ps.iter().any(|p| !nodes.contains_key(p)) {
            continue; // a parent is not held at all: stays hidden
        }
        if ps.is_empty() {
            ready.push_back(*h);
        } else {
            waiting.insert(*h, ps.len());
            for p in ps {
                dependents.entry(*p).or_default().push(*h);
            }
        }
    }
    let mut visible: BTreeSet<H> = BTreeSet::new();
    while let Some(h) = ready.pop_front() {
        if !visible.insert(h) {
            continue;
        }
        if let Some(ds) = dependents.get(&h) {
            for d in ds {
                if let Some(w) = waiting.get_mut(d) {
                    *w -= 1;
                    if *w == 0 {
                        ready.push_back(*d);
                    }
                }
            }
        }
    }
    let mut covered: BTreeSet<H> = BTreeSet::new();
    for h in &visible {
        for p in &nodes[h] {
            covered.insert(*p);
        }
    }
    visible.difference(&covered).copied().collect()
}

pub fn hex6(h: &H) -> String {
    format!("{:02x}{:02x}{:02x}", h[0], h[1], h[2])
}
