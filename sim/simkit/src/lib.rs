//! simkit — kernel of the deterministic simulator (see /verif/DESIGN.md §4).
pub mod check;
pub mod rng;
pub mod rt;
pub mod shim;
pub mod shrink;

pub use check::{GenCtx, PropertySpec, RunReport, Sim, Tier, Violation};
pub use rng::{fnv_str, mix, Fnv, Rng};
