//! One simulated run = one fresh OS thread + one paused current_thread tokio runtime.

use std::cell::RefCell;
use std::future::Future;
use std::sync::Once;

thread_local! {
    static PANIC_MSG: RefCell<Option<String>> = const { RefCell::new(None) };
    static IN_SIM: RefCell<bool> = const { RefCell::new(false) };
}

static HOOK: Once = Once::new();

fn install_hook() {
    HOOK.call_once(|| {
        let default = std::panic::take_hook();
        std::panic::set_hook(Box::new(move |info| {
            let in_sim = IN_SIM.with(|s| *s.borrow());
            if in_sim {
                let msg = format!("{info}");
                PANIC_MSG.with(|m| {
                    let mut m = m.borrow_mut();
                    if m.is_none() {
                        *m = Some(msg);
                    }
                });
            } else {
                default(info);
            }
        }));
    });
}

/// Outcome of running a closure on a fresh simulation thread.
pub enum ThreadOutcome<T> {
    Done(T),
    Panicked(String),
}

/// Run `f` on a fresh OS thread whose entropy stream starts at `seed`.
pub fn on_fresh_thread<T: Send + 'static>(
    seed: u64,
    f: impl FnOnce() -> T + Send + 'static,
) -> ThreadOutcome<T> {
    install_hook();
    let handle = std::thread::Builder::new()
        .name("sim".into())
        .stack_size(16 << 20)
        .spawn(move || {
            IN_SIM.with(|s| *s.borrow_mut() = true);
            if crate::shim::loaded() {
                crate::shim::reseed(seed);
            }
            // Thread pools inside dependencies are a source of nondeterminism the simulator does not schedule: the
            // code under test uses rayon (start-up scan of the record store, NetworkDiscovery). The run's thread
            // becomes the only worker of a private one-thread pool, so every par_iter issued from this thread runs
            // inline, in iteration order. (rayon leaks the registry of such a pool: ~1 KiB per run.)
            let _pool = rayon_core::ThreadPoolBuilder::new().num_threads(1).use_current_thread().build();
            let r = std::panic::catch_unwind(std::panic::AssertUnwindSafe(f));
            match r {
                Ok(v) => ThreadOutcome::Done(v),
                Err(e) => {
                    let msg = PANIC_MSG
                        .with(|m| m.borrow_mut().take())
                        .or_else(|| e.downcast_ref::<String>().cloned())
                        .or_else(|| e.downcast_ref::<&str>().map(|s| s.to_string()))
                        .unwrap_or_else(|| "panic".into());
                    ThreadOutcome::Panicked(msg)
                }
            }
        })
        .expect("spawn sim thread");
    match handle.join() {
        Ok(o) => o,
        Err(_) => ThreadOutcome::Panicked("sim thread died".into()),
    }
}

/// Build the paused single-threaded runtime of a run.
pub fn runtime(seed: u64) -> tokio::runtime::Runtime {
    let mut b = tokio::runtime::Builder::new_current_thread();
    b.enable_all()
        .start_paused(true)
        .rng_seed(tokio::runtime::RngSeed::from_bytes(&seed.to_le_bytes()))
        .unhandled_panic(tokio::runtime::UnhandledPanic::ShutdownRuntime);
    b.build().expect("runtime")
}

/// Run `fut` to completion on a fresh paused runtime (on the current thread).
pub fn block_on<T>(seed: u64, fut: impl Future<Output = T>) -> T {
    let rt = runtime(seed);
    let out = rt.block_on(fut);
    // dropping the runtime drops every parked task without running it
    drop(rt);
    out
}

/// Let every runnable task run until nothing is runnable any more.
/// Never blocks on anything, so the paused clock never auto-advances.
pub async fn settle() {
    let metrics = tokio::runtime::Handle::current().metrics();
    let mut calm = 0;
    for _ in 0..100_000 {
        tokio::task::yield_now().await;
        if metrics.worker_local_queue_depth(0) == 0 && metrics.injection_queue_depth() == 0 {
            calm += 1;
            if calm >= 2 {
                return;
            }
        } else {
            calm = 0;
        }
    }
    panic!("settle: runtime never became quiescent");
}

/// Advance the paused clock and settle.
pub async fn advance(d: std::time::Duration) {
    tokio::time::advance(d).await;
    settle().await;
}
