//! The only PRNG of the harness: xoshiro256** seeded through SplitMix64.
//! Every generated plan is a pure function of (VERIF_SEED, run index).

#[derive(Clone, Debug)]
pub struct Rng {
    s: [u64; 4],
}

fn splitmix(x: &mut u64) -> u64 {
    *x = x.wrapping_add(0x9e3779b97f4a7c15);
    let mut z = *x;
    z = (z ^ (z >> 30)).wrapping_mul(0xbf58476d1ce4e5b9);
    z = (z ^ (z >> 27)).wrapping_mul(0x94d049bb133111eb);
    z ^ (z >> 31)
}

pub fn mix(a: u64, b: u64) -> u64 {
    let mut x = a ^ b.wrapping_mul(0x9e3779b97f4a7c15).rotate_left(17);
    let r = splitmix(&mut x);
    splitmix(&mut x) ^ r.rotate_left(32)
}

impl Rng {
    pub fn new(seed: u64) -> Self {
        let mut x = seed;
        let s = [
            splitmix(&mut x),
            splitmix(&mut x),
            splitmix(&mut x),
            splitmix(&mut x),
        ];
        Rng { s }
    }

    pub fn next_u64(&mut self) -> u64 {
        let result = self.s[1].wrapping_mul(5).rotate_left(7).wrapping_mul(9);
        let t = self.s[1] << 17;
        self.s[2] ^= self.s[0];
        self.s[3] ^= self.s[1];
        self.s[1] ^= self.s[2];
        self.s[0] ^= self.s[3];
        self.s[2] ^= t;
        self.s[3] = self.s[3].rotate_left(45);
        result
    }

    /// Uniform in 0..n (n > 0).
    pub fn below(&mut self, n: u64) -> u64 {
        assert!(n > 0);
        // multiply-shift; bias is irrelevant here
        ((self.next_u64() as u128 * n as u128) >> 64) as u64
    }

    pub fn usize_below(&mut self, n: usize) -> usize {
        self.below(n as u64) as usize
    }

    /// Uniform in lo..=hi.
    pub fn range(&mut self, lo: u64, hi: u64) -> u64 {
        assert!(hi >= lo);
        lo + self.below(hi - lo + 1)
    }

    pub fn urange(&mut self, lo: usize, hi: usize) -> usize {
        self.range(lo as u64, hi as u64) as usize
    }

    /// True with probability num/den.
    pub fn chance(&mut self, num: u64, den: u64) -> bool {
        self.below(den) < num
    }

    pub fn pick<'a, T>(&mut self, items: &'a [T]) -> &'a T {
        &items[self.usize_below(items.len())]
    }

    /// Index drawn with the given integer weights.
    pub fn weighted(&mut self, weights: &[u64]) -> usize {
        let total: u64 = weights.iter().sum();
        assert!(total > 0);
        let mut x = self.below(total);
        for (i, w) in weights.iter().enumerate() {
            if x < *w {
                return i;
            }
            x -= *w;
        }
        weights.len() - 1
    }

    pub fn shuffle<T>(&mut self, items: &mut [T]) {
        for i in (1..items.len()).rev() {
            let j = self.usize_below(i + 1);
            items.swap(i, j);
        }
    }

    pub fn bytes(&mut self, n: usize) -> Vec<u8> {
        let mut v = Vec::with_capacity(n);
        while v.len() < n {
            let x = self.next_u64().to_le_bytes();
            let take = (n - v.len()).min(8);
            v.extend_from_slice(&x[..take]);
        }
        v
    }
}

/// FNV-1a 64 — fingerprinting of logs, schedules and states (never used for anything random).
#[derive(Clone, Copy, Debug)]
pub struct Fnv(pub u64);

impl Default for Fnv {
    fn default() -> Self {
        Fnv(0xcbf29ce484222325)
    }
}

impl Fnv {
    pub fn new() -> Self {
        Self::default()
    }
    pub fn write(&mut self, bytes: &[u8]) {
        for b in bytes {
            self.0 ^= *b as u64;
            self.0 = self.0.wrapping_mul(0x100000001b3);
        }
    }
    pub fn write_str(&mut self, s: &str) {
        self.write(s.as_bytes());
        self.write(&[0xff]);
    }
    pub fn write_u64(&mut self, x: u64) {
        self.write(&x.to_le_bytes());
    }
    pub fn finish(&self) -> u64 {
        self.0
    }
}

pub fn fnv_str(s: &str) -> u64 {
    let mut f = Fnv::new();
    f.write_str(s);
    f.finish()
}
