//! Generic check driver: seed -> plans -> executions -> oracle verdicts -> minimise -> replay -> evidence.

use crate::rng::{mix, Fnv, Rng};
use crate::rt::{on_fresh_thread, ThreadOutcome};
use serde::{de::DeserializeOwned, Deserialize, Serialize};
use serde_json::{json, Value};
use std::collections::{BTreeMap, HashSet};
use std::path::{Path, PathBuf};
use std::sync::atomic::{AtomicBool, AtomicU64, Ordering};
use std::sync::{Arc, Mutex};
use std::time::{Duration, Instant};

pub const DEFAULT_SEED: u64 = 20240924;

#[derive(Serialize, Deserialize, Clone, Debug, PartialEq, Eq)]
pub struct Violation {
    pub property: String,
    pub rule: String,
    pub signature: BTreeMap<String, String>,
    pub detail: String,
}

#[derive(Clone, Copy, Debug, PartialEq, Eq)]
pub enum Tier {
    Quick,
    Thorough,
}

impl Tier {
    pub fn as_str(&self) -> &'static str {
        match self {
            Tier::Quick => "quick",
            Tier::Thorough => "thorough",
        }
    }
}

/// What one execution reports back.
#[derive(Default, Clone, Debug)]
pub struct RunReport {
    pub violations: Vec<Violation>,
    pub faults: BTreeMap<String, u64>,
    pub probes: BTreeMap<String, u64>,
    pub ops: u64,
    pub steps: u64,
    pub sim_time_ms: u64,
    /// scheduler decisions that differed from FIFO
    pub nonfifo: u64,
    pub sched: Fnv,
    pub state: Fnv,
    pub log: Vec<String>,
    pub harness_error: Option<String>,
    /// extra evaluations performed inside this run (e.g. enumerated crash points)
    pub inner_evaluations: u64,
}

impl RunReport {
    pub fn log(&mut self, s: impl Into<String>) {
        self.log.push(s.into());
    }
    pub fn fault(&mut self, kind: &str) {
        *self.faults.entry(kind.to_string()).or_insert(0) += 1;
        self.sched.write_str(kind);
    }
    pub fn probe(&mut self, name: &str) {
        *self.probes.entry(name.to_string()).or_insert(0) += 1;
    }
    pub fn probe_n(&mut self, name: &str, n: u64) {
        *self.probes.entry(name.to_string()).or_insert(0) += n;
    }
    pub fn violate(
        &mut self,
        property: &str,
        rule: &str,
        signature: &[(&str, String)],
        detail: impl Into<String>,
    ) {
        let v = Violation {
            property: property.to_string(),
            rule: rule.to_string(),
            signature: signature
                .iter()
                .map(|(k, v)| (k.to_string(), v.clone()))
                .collect(),
            detail: detail.into(),
        };
        self.log(format!("!! VIOLATION {} {} {:?} :: {}", v.property, v.rule, v.signature, v.detail));
        self.violations.push(v);
    }
    pub fn log_fp(&self) -> u64 {
        let mut f = Fnv::new();
        for l in &self.log {
            f.write_str(l);
        }
        f.finish()
    }
    pub fn total_faults(&self) -> u64 {
        self.faults.values().sum()
    }
}

pub struct GenCtx {
    pub property: String,
    pub tier: Tier,
    pub mode: String,
    pub run: u64,
}

#[derive(Clone, Debug)]
pub struct PropertySpec {
    pub id: &'static str,
    pub level: &'static str,
    /// configurations that are run and reported separately (e.g. "nofault", "fault")
    pub modes: Vec<&'static str>,
    pub quick_runs: u64,
    pub thorough_runs: u64,
    pub rule: &'static str,
    pub assumptions: Vec<&'static str>,
}

pub trait Sim: 'static {
    type Plan: Serialize + DeserializeOwned + Clone + Send + Sync + 'static;
    const NAME: &'static str;
    fn properties() -> Vec<PropertySpec>;
    fn generate(rng: &mut Rng, ctx: &GenCtx) -> Self::Plan;
    /// Runs on a fresh OS thread; `entropy` seeds the shim / tokio rng (already applied to the shim).
    fn execute(plan: &Self::Plan, entropy: u64) -> RunReport;
    /// Candidate simplifications of a failing plan, most aggressive first.
    fn shrink(plan: &Self::Plan) -> Vec<Self::Plan>;
    /// (component, "real" | "stub" | "mirrored" + note)
    fn components() -> Vec<(&'static str, &'static str)>;
}

#[derive(Serialize, Deserialize, Clone, Debug)]
pub struct ReplayFile {
    pub property: String,
    pub sim: String,
    pub seed: u64,
    pub run: u64,
    pub mode: String,
    pub entropy: u64,
    pub rule: String,
    pub signature: BTreeMap<String, String>,
    pub detail: String,
    pub minimised: bool,
    pub original_steps_json_len: usize,
    pub plan: Value,
    pub log: Vec<String>,
}

#[derive(Deserialize, Clone, Debug, Default)]
pub struct KnownFinding {
    pub property: String,
    /// one finding (one root cause) may surface under several oracle rules
    pub rules: Vec<String>,
    #[serde(default)]
    pub signature: BTreeMap<String, String>,
    pub what: String,
}

#[derive(Deserialize, Clone, Debug, Default)]
pub struct KnownFindings {
    #[serde(default)]
    pub findings: Vec<KnownFinding>,
}

fn verif_dir() -> PathBuf {
    std::env::var("VERIF_DIR")
        .map(PathBuf::from)
        .unwrap_or_else(|_| PathBuf::from("/verif"))
}

fn load_known() -> KnownFindings {
    let p = verif_dir().join("known_findings.json");
    match std::fs::read_to_string(&p) {
        Ok(s) => match serde_json::from_str(&s) {
            Ok(k) => k,
            Err(e) => {
                eprintln!("HARNESS-ERROR: cannot parse {p:?}: {e}");
                std::process::exit(2);
            }
        },
        Err(_) => KnownFindings::default(),
    }
}

fn matches_known(v: &Violation, k: &KnownFinding) -> bool {
    v.property == k.property
        && k.rules.iter().any(|r| *r == v.rule)
        && k.signature
            .iter()
            .all(|(key, val)| v.signature.get(key) == Some(val))
}

fn execute_isolated<S: Sim>(plan: &S::Plan, entropy: u64) -> RunReport {
    let p = plan.clone();
    match on_fresh_thread(entropy, move || S::execute(&p, entropy)) {
        ThreadOutcome::Done(r) => r,
        ThreadOutcome::Panicked(msg) => {
            let mut r = RunReport::default();
            r.log(format!("PANIC: {msg}"));
            // a panic located in the harness itself is a harness error, anything else is
            // a crash of the code under test
            if msg.contains("/verif/sim/") {
                r.harness_error = Some(format!("harness panic: {msg}"));
            } else {
                r.violations.push(Violation {
                    property: "*".into(),
                    rule: "panic_in_code_under_test".into(),
                    signature: BTreeMap::new(),
                    detail: msg,
                });
            }
            r
        }
    }
}

struct Opts {
    cmd: String,
    property: String,
    tier: Tier,
    runs: Option<u64>,
    workers: usize,
    seed: u64,
    path: Option<String>,
    run_index: Option<u64>,
    max_wall: Option<u64>,
    mode: Option<String>,
    embed: Vec<String>,
}

fn parse_opts() -> Opts {
    let args: Vec<String> = std::env::args().skip(1).collect();
    let mut o = Opts {
        cmd: args.first().cloned().unwrap_or_default(),
        property: String::new(),
        tier: match std::env::var("VERIF_TIER").as_deref() {
            Ok("thorough") => Tier::Thorough,
            _ => Tier::Quick,
        },
        runs: None,
        workers: std::thread::available_parallelism()
            .map(|n| n.get())
            .unwrap_or(8),
        seed: std::env::var("VERIF_SEED")
            .ok()
            .and_then(|s| s.trim().parse::<u64>().ok())
            .unwrap_or(DEFAULT_SEED),
        path: None,
        run_index: None,
        max_wall: None,
        mode: None,
        embed: vec![],
    };
    let mut i = 1;
    while i < args.len() {
        let a = &args[i];
        let mut val = || {
            i += 1;
            args.get(i).cloned().unwrap_or_else(|| {
                eprintln!("HARNESS-ERROR: missing value for option");
                std::process::exit(2)
            })
        };
        match a.as_str() {
            "--tier" => {
                o.tier = if val() == "thorough" {
                    Tier::Thorough
                } else {
                    Tier::Quick
                }
            }
            "--runs" => o.runs = val().parse().ok(),
            "--workers" => o.workers = val().parse().unwrap_or(o.workers),
            "--seed" => o.seed = val().parse().unwrap_or(o.seed),
            "--run" => o.run_index = val().parse().ok(),
            "--max-wall" => o.max_wall = val().parse().ok(),
            "--mode" => o.mode = Some(val()),
            "--embed" => o.embed.push(val()),
            s if !s.starts_with("--") => {
                if o.cmd == "replay" {
                    o.path = Some(s.to_string())
                } else if o.property.is_empty() {
                    o.property = s.to_string()
                }
            }
            other => {
                eprintln!("HARNESS-ERROR: unknown option {other}");
                std::process::exit(2);
            }
        }
        i += 1;
    }
    o
}

fn spec_for<S: Sim>(id: &str) -> PropertySpec {
    match S::properties().into_iter().find(|p| p.id == id) {
        Some(s) => s,
        None => {
            eprintln!("HARNESS-ERROR: sim {} does not serve property {id}", S::NAME);
            std::process::exit(2);
        }
    }
}

fn plan_for<S: Sim>(seed: u64, spec: &PropertySpec, tier: Tier, run: u64, mode_override: &Option<String>) -> (S::Plan, String, u64) {
    let mode = match mode_override {
        Some(m) => m.clone(),
        None => spec.modes[(run as usize) % spec.modes.len()].to_string(),
    };
    let run_seed = mix(mix(seed, crate::rng::fnv_str(spec.id)), run);
    let mut rng = Rng::new(run_seed);
    let ctx = GenCtx {
        property: spec.id.to_string(),
        tier,
        mode: mode.clone(),
        run,
    };
    let plan = S::generate(&mut rng, &ctx);
    let entropy = mix(run_seed, 0xe47);
    (plan, mode, entropy)
}

fn relevant<'a>(r: &'a RunReport, property: &str) -> Vec<&'a Violation> {
    r.violations
        .iter()
        .filter(|v| v.property == property || v.property == "*")
        .collect()
}

#[derive(Default)]
struct Agg {
    evaluations: u64,
    inner_evaluations: u64,
    ops: u64,
    steps: u64,
    sim_time_ms: u64,
    faults: BTreeMap<String, u64>,
    probes: BTreeMap<String, u64>,
    per_mode: BTreeMap<String, u64>,
    sched_fps: HashSet<u64>,
    state_fps: HashSet<u64>,
    nontrivial_fps: HashSet<u64>,
    runs_with_faults: u64,
    runs_with_nonfifo: u64,
    other_property_violations: BTreeMap<String, u64>,
    known_hits: BTreeMap<usize, u64>,
    samples: Vec<Value>,
    determinism_rechecks: u64,
}

/// Lazily initialised process-global state of the code under test (hash seeds, protocol strings, thread
/// pools) draws entropy from whichever simulated run touches it first. To keep one seed = one execution in
/// every process, each process first executes the same few fixed plans on throw-away threads.
fn warm_up<S: Sim>() {
    for spec in S::properties() {
        for run in 0..spec.modes.len().max(2) as u64 {
            let (plan, _mode, entropy) = plan_for::<S>(DEFAULT_SEED ^ 0x77a7, &spec, Tier::Quick, run, &None);
            let _ = execute_isolated::<S>(&plan, entropy);
        }
    }
}

pub fn main<S: Sim>() {
    let o = parse_opts();
    crate::shim::ensure();
    if matches!(o.cmd.as_str(), "check" | "replay" | "show" | "fingerprints") {
        warm_up::<S>();
    }
    match o.cmd.as_str() {
        "check" => check::<S>(o),
        "replay" => replay::<S>(o),
        "show" => show::<S>(o),
        "fingerprints" => fingerprints::<S>(o),
        _ => {
            eprintln!(
                "usage: {} check <PROP> [--tier quick|thorough] [--runs N] [--workers N] [--seed N] | replay <file> | show <PROP> --run N | fingerprints <PROP> --runs N",
                S::NAME
            );
            std::process::exit(2);
        }
    }
}

fn show<S: Sim>(o: Opts) {
    let spec = spec_for::<S>(&o.property);
    let run = o.run_index.unwrap_or(0);
    let (plan, mode, entropy) = plan_for::<S>(o.seed, &spec, o.tier, run, &o.mode);
    println!("mode={mode} entropy={entropy}");
    println!("{}", serde_json::to_string_pretty(&plan).unwrap());
    let r = execute_isolated::<S>(&plan, entropy);
    for l in &r.log {
        println!("{l}");
    }
    println!("faults={:?} probes={:?} ops={} steps={} nonfifo={}", r.faults, r.probes, r.ops, r.steps, r.nonfifo);
    println!("violations={:?}", r.violations);
    if let Some(e) = r.harness_error {
        println!("HARNESS-ERROR: {e}");
    }
}

/// Print one line per run: run index, log fingerprint, violation count. Used by the determinism selftest,
/// which diffs the output of several processes / worker counts.
fn fingerprints<S: Sim>(o: Opts) {
    let spec = spec_for::<S>(&o.property);
    let runs = o.runs.unwrap_or(200);
    let next = Arc::new(AtomicU64::new(0));
    let out: Arc<Mutex<BTreeMap<u64, String>>> = Arc::new(Mutex::new(BTreeMap::new()));
    let mut hs = vec![];
    for _ in 0..o.workers.max(1) {
        let next = next.clone();
        let out = out.clone();
        let spec = spec.clone();
        let (seed, tier, mode) = (o.seed, o.tier, o.mode.clone());
        hs.push(std::thread::spawn(move || loop {
            let run = next.fetch_add(1, Ordering::SeqCst);
            if run >= runs {
                break;
            }
            let (plan, _m, entropy) = plan_for::<S>(seed, &spec, tier, run, &mode);
            let r = execute_isolated::<S>(&plan, entropy);
            let line = format!(
                "{run} {:016x} {:016x} {:016x} v={} he={}",
                r.log_fp(),
                r.sched.finish(),
                r.state.finish(),
                r.violations.len(),
                r.harness_error.is_some()
            );
            out.lock().unwrap().insert(run, line);
        }));
    }
    for h in hs {
        let _ = h.join();
    }
    for (_k, l) in out.lock().unwrap().iter() {
        println!("{l}");
    }
}

fn write_replay(dir: &Path, rf: &ReplayFile) -> PathBuf {
    let _ = std::fs::create_dir_all(dir);
    let p = dir.join(format!("{}-{}-{}.json", rf.property, rf.seed, rf.run));
    std::fs::write(&p, serde_json::to_string_pretty(rf).unwrap()).expect("write replay");
    p
}

fn minimise<S: Sim>(
    plan: S::Plan,
    entropy: u64,
    property: &str,
    rule: &str,
    signature: &BTreeMap<String, String>,
) -> (S::Plan, RunReport, u64) {
    let start = Instant::now();
    let mut best = plan;
    let mut best_report = execute_isolated::<S>(&best, entropy);
    let mut execs = 1u64;
    'outer: loop {
        if execs >= 400 || start.elapsed() > Duration::from_secs(90) {
            break;
        }
        for cand in S::shrink(&best) {
            if execs >= 400 || start.elapsed() > Duration::from_secs(90) {
                break 'outer;
            }
            let r = execute_isolated::<S>(&cand, entropy);
            execs += 1;
            if r.harness_error.is_none()
                && relevant(&r, property)
                    .iter()
                    .any(|v| v.rule == rule && v.signature == *signature)
            {
                best = cand;
                best_report = r;
                continue 'outer;
            }
        }
        break;
    }
    (best, best_report, execs)
}

fn replay<S: Sim>(o: Opts) {
    let path = o.path.unwrap_or_else(|| {
        eprintln!("HARNESS-ERROR: replay needs a file");
        std::process::exit(2)
    });
    let rf: ReplayFile = match std::fs::read_to_string(&path)
        .map_err(|e| e.to_string())
        .and_then(|s| serde_json::from_str(&s).map_err(|e| e.to_string()))
    {
        Ok(r) => r,
        Err(e) => {
            eprintln!("HARNESS-ERROR: cannot read replay {path}: {e}");
            std::process::exit(2);
        }
    };
    let plan: S::Plan = match serde_json::from_value(rf.plan.clone()) {
        Ok(p) => p,
        Err(e) => {
            eprintln!("HARNESS-ERROR: replay plan does not parse: {e}");
            std::process::exit(2);
        }
    };
    let r = execute_isolated::<S>(&plan, rf.entropy);
    for l in &r.log {
        println!("{l}");
    }
    if let Some(e) = &r.harness_error {
        println!("HARNESS-ERROR: {e}");
        std::process::exit(2);
    }
    let hit = relevant(&r, &rf.property)
        .iter()
        .any(|v| v.rule == rf.rule);
    if hit {
        let same_log = r.log == rf.log;
        println!("REPLAY reproduced rule={} identical_log={same_log}", rf.rule);
        println!("VIOLATION property={} replay={}", rf.property, path);
        std::process::exit(1);
    } else {
        println!("REPLAY did-not-reproduce rule={}", rf.rule);
        std::process::exit(3);
    }
}

fn check<S: Sim>(o: Opts) {
    let spec = spec_for::<S>(&o.property);
    let known = load_known();
    let known_for: Vec<(usize, KnownFinding)> = known
        .findings
        .iter()
        .cloned()
        .enumerate()
        .filter(|(_, k)| k.property == spec.id)
        .collect();
    let total_runs = o.runs.unwrap_or(match o.tier {
        Tier::Quick => spec.quick_runs,
        Tier::Thorough => spec.thorough_runs,
    });
    let max_wall = Duration::from_secs(o.max_wall.unwrap_or(match o.tier {
        Tier::Quick => 75,
        Tier::Thorough => 1500,
    }));
    let start = Instant::now();
    println!(
        "check sim={} property={} tier={} seed={} runs={} workers={} modes={:?}",
        S::NAME,
        spec.id,
        o.tier.as_str(),
        o.seed,
        total_runs,
        o.workers,
        spec.modes
    );

    let next = Arc::new(AtomicU64::new(0));
    let stop = Arc::new(AtomicBool::new(false));
    let agg = Arc::new(Mutex::new(Agg::default()));
    // first unlisted violation: (run, mode, entropy, plan json, violation)
    type Found = Option<(u64, String, u64, Value, Violation)>;
    let found: Arc<Mutex<Found>> = Arc::new(Mutex::new(None));
    let harness_err: Arc<Mutex<Option<String>>> = Arc::new(Mutex::new(None));
    let budget_hit = Arc::new(AtomicBool::new(false));

    let mut hs = vec![];
    for _w in 0..o.workers.max(1) {
        let next = next.clone();
        let stop = stop.clone();
        let agg = agg.clone();
        let found = found.clone();
        let harness_err = harness_err.clone();
        let budget_hit = budget_hit.clone();
        let spec = spec.clone();
        let known_for = known_for.clone();
        let (seed, tier, mode_override) = (o.seed, o.tier, o.mode.clone());
        hs.push(std::thread::spawn(move || {
            let mut local = Agg::default();
            loop {
                if stop.load(Ordering::SeqCst) {
                    break;
                }
                if start.elapsed() > max_wall {
                    budget_hit.store(true, Ordering::SeqCst);
                    break;
                }
                let run = next.fetch_add(1, Ordering::SeqCst);
                if run >= total_runs {
                    break;
                }
                let (plan, mode, entropy) = plan_for::<S>(seed, &spec, tier, run, &mode_override);
                let mut r = execute_isolated::<S>(&plan, entropy);
                if let Some(e) = &r.harness_error {
                    let mut he = harness_err.lock().unwrap();
                    if he.is_none() {
                        *he = Some(format!("run {run}: {e}"));
                    }
                    stop.store(true, Ordering::SeqCst);
                    break;
                }
                // in-process determinism recheck on a sample of runs
                if run % 97 == 0 {
                    let r2 = execute_isolated::<S>(&plan, entropy);
                    local.determinism_rechecks += 1;
                    let unlisted = |rep: &RunReport| -> bool {
                        relevant(rep, spec.id).iter().any(|v| {
                            let mut vv = (*v).clone();
                            if vv.property == "*" {
                                vv.property = spec.id.to_string();
                            }
                            !known_for.iter().any(|(_, k)| matches_known(&vv, k))
                        })
                    };
                    let differs = r2.log_fp() != r.log_fp() || r2.violations != r.violations;
                    if differs && (unlisted(&r) || unlisted(&r2)) {
                        // Two executions of one plan differ and one of them violates the property: code under test
                        // that keeps state across runs (a process-global cache, say) makes runs of one process
                        // interfere. The violation is followed up like any other: it is minimised and must reproduce
                        // in a fresh, single-run process before it is reported (else: harness error).
                        if !unlisted(&r) {
                            r = r2;
                        }
                        local.probes.entry("violation_in_one_of_two_executions_of_a_plan".into()).and_modify(|c| *c += 1).or_insert(1);
                    } else if differs {
                        let mut he = harness_err.lock().unwrap();
                        if he.is_none() {
                            let diff = r
                                .log
                                .iter()
                                .zip(r2.log.iter())
                                .position(|(a, b)| a != b)
                                .map(|i| format!("first differing line {i}: {:?} vs {:?}", r.log[i], r2.log[i]))
                                .unwrap_or_else(|| format!("log lengths {} vs {}", r.log.len(), r2.log.len()));
                            *he = Some(format!("nondeterminism detected in run {run}: {diff}"));
                        }
                        stop.store(true, Ordering::SeqCst);
                        break;
                    }
                }
                local.evaluations += 1;
                local.inner_evaluations += r.inner_evaluations;
                local.ops += r.ops;
                local.steps += r.steps;
                local.sim_time_ms += r.sim_time_ms;
                *local.per_mode.entry(mode.clone()).or_insert(0) += 1;
                for (k, v) in &r.faults {
                    *local.faults.entry(k.clone()).or_insert(0) += v;
                }
                for (k, v) in &r.probes {
                    *local.probes.entry(k.clone()).or_insert(0) += v;
                }
                let sfp = r.sched.finish();
                local.sched_fps.insert(sfp);
                local.state_fps.insert(r.state.finish());
                let has_fault = r.total_faults() > 0;
                if has_fault {
                    local.runs_with_faults += 1;
                }
                if r.nonfifo > 0 {
                    local.runs_with_nonfifo += 1;
                }
                if (has_fault || r.nonfifo > 0) && r.ops >= 3 {
                    local.nontrivial_fps.insert(sfp);
                }
                if local.samples.len() < 1 && (has_fault || r.nonfifo > 0) && r.ops >= 3 {
                    let tail: Vec<&String> = r.log.iter().take(40).collect();
                    local.samples.push(json!({
                        "run": run, "mode": mode, "entropy": entropy,
                        "plan": serde_json::to_value(&plan).unwrap_or(Value::Null),
                        "log_head": tail,
                    }));
                }
                for v in &r.violations {
                    if v.property != spec.id && v.property != "*" {
                        *local
                            .other_property_violations
                            .entry(format!("{}:{}", v.property, v.rule))
                            .or_insert(0) += 1;
                    }
                }
                for v in relevant(&r, spec.id) {
                    if let Some((idx, _)) = known_for.iter().find(|(_, k)| {
                        let mut vv = v.clone();
                        if vv.property == "*" {
                            vv.property = spec.id.to_string();
                        }
                        matches_known(&vv, k)
                    }) {
                        *local.known_hits.entry(*idx).or_insert(0) += 1;
                        continue;
                    }
                    let mut f = found.lock().unwrap();
                    let better = match &*f {
                        None => true,
                        Some((r0, ..)) => run < *r0,
                    };
                    if better {
                        let mut vv = v.clone();
                        vv.property = spec.id.to_string();
                        *f = Some((
                            run,
                            mode.clone(),
                            entropy,
                            serde_json::to_value(&plan).unwrap(),
                            vv,
                        ));
                    }
                    stop.store(true, Ordering::SeqCst);
                    break;
                }
            }
            let mut a = agg.lock().unwrap();
            a.evaluations += local.evaluations;
            a.inner_evaluations += local.inner_evaluations;
            a.ops += local.ops;
            a.steps += local.steps;
            a.sim_time_ms += local.sim_time_ms;
            a.runs_with_faults += local.runs_with_faults;
            a.runs_with_nonfifo += local.runs_with_nonfifo;
            a.determinism_rechecks += local.determinism_rechecks;
            for (k, v) in local.faults {
                *a.faults.entry(k).or_insert(0) += v;
            }
            for (k, v) in local.probes {
                *a.probes.entry(k).or_insert(0) += v;
            }
            for (k, v) in local.per_mode {
                *a.per_mode.entry(k).or_insert(0) += v;
            }
            for (k, v) in local.other_property_violations {
                *a.other_property_violations.entry(k).or_insert(0) += v;
            }
            for (k, v) in local.known_hits {
                *a.known_hits.entry(k).or_insert(0) += v;
            }
            a.sched_fps.extend(local.sched_fps);
            a.state_fps.extend(local.state_fps);
            a.nontrivial_fps.extend(local.nontrivial_fps);
            if a.samples.len() < 3 {
                a.samples.extend(local.samples);
            }
        }));
    }
    for h in hs {
        let _ = h.join();
    }

    if let Some(e) = harness_err.lock().unwrap().clone() {
        println!("HARNESS-ERROR: {e}");
        std::process::exit(2);
    }

    let mut violations = 0;
    let mut replay_path: Option<PathBuf> = None;
    let mut violation_summary = Value::Null;
    let found = found.lock().unwrap().take();
    if let Some((run, mode, entropy, plan_json, v)) = found {
        violations = 1;
        let plan: S::Plan = serde_json::from_value(plan_json.clone()).expect("plan roundtrip");
        let orig_len = plan_json.to_string().len();
        let (min_plan, min_report, execs) = minimise::<S>(plan, entropy, &v.property, &v.rule, &v.signature);
        let mv = relevant(&min_report, &v.property)
            .into_iter()
            .find(|x| x.rule == v.rule && x.signature == v.signature)
            .cloned()
            .unwrap_or(v.clone());
        let rf = ReplayFile {
            property: v.property.clone(),
            sim: S::NAME.to_string(),
            seed: o.seed,
            run,
            mode,
            entropy,
            rule: v.rule.clone(),
            signature: mv.signature.clone(),
            detail: mv.detail.clone(),
            minimised: true,
            original_steps_json_len: orig_len,
            plan: serde_json::to_value(&min_plan).unwrap(),
            log: min_report.log.clone(),
        };
        let p = write_replay(&verif_dir().join("replays"), &rf);
        println!(
            "violation in run {run}: rule={} signature={:?}; minimised with {execs} executions ({} -> {} bytes of plan)",
            v.rule,
            mv.signature,
            orig_len,
            rf.plan.to_string().len()
        );
        println!("detail: {}", mv.detail);
        // the replay must reproduce in a fresh process
        let exe = std::env::current_exe().expect("exe");
        let out = std::process::Command::new(exe)
            .arg("replay")
            .arg(&p)
            .output()
            .expect("spawn replay");
        let mut p = p;
        if out.status.code() != Some(1) {
            // State that the code under test keeps across the runs of one process (a static cache) can make the
            // minimiser drop the very steps that had primed it: the minimised plan then fails only in the process that
            // minimised it. The plan as it was found is written out instead and must reproduce on its own.
            let rf0 = ReplayFile {
                signature: v.signature.clone(),
                detail: v.detail.clone(),
                minimised: false,
                plan: plan_json.clone(),
                log: vec![],
                ..rf
            };
            let _ = std::fs::remove_file(&p);
            p = write_replay(&verif_dir().join("replays"), &rf0);
            let out0 = std::process::Command::new(std::env::current_exe().expect("exe")).arg("replay").arg(&p).output().expect("spawn replay");
            if out0.status.code() != Some(1) {
                println!(
                    "HARNESS-ERROR: replay {p:?} did not reproduce in a fresh process (minimised plan: exit {:?}, plan as found: exit {:?})",
                    out.status.code(),
                    out0.status.code()
                );
                std::process::exit(2);
            }
            println!("note: the minimised plan reproduces only in the process that minimised it (state kept across runs by the code under test); the replay file holds the plan as it was found");
        }
        violation_summary = json!({"run": run, "rule": v.rule, "signature": mv.signature, "detail": mv.detail, "replay": p});
        replay_path = Some(p);
    }

    let a = agg.lock().unwrap();
    let wall = start.elapsed().as_secs_f64();
    let mut distinct_nontrivial = a.nontrivial_fps.len() as u64;
    let mut rule = spec.rule.to_string();
    if spec.level == "fault_enumeration" {
        rule.push_str(" Inside each sampled history the crash/torn-state space is enumerated; inner_evaluations counts those restarts.");
    }
    // never report fewer than measured; never more
    if distinct_nontrivial == 0 {
        distinct_nontrivial = 0;
    }
    let known_lines: Vec<Value> = known_for
        .iter()
        .map(|(idx, k)| json!({"rules": k.rules, "signature": k.signature, "what": k.what, "hits_this_run": a.known_hits.get(idx).copied().unwrap_or(0)}))
        .collect();
    let evidence = json!({
        "property_id": spec.id,
        "tier": o.tier.as_str(),
        "seed": o.seed,
        "level": spec.level,
        "wall_s": wall,
        "violations": violations,
        "coverage": {
            "evaluations": a.evaluations,
            "distinct_nontrivial": distinct_nontrivial,
            "rule": rule,
            "samples": a.samples,
            "inner_evaluations": a.inner_evaluations,
            "runs_per_hour": if wall > 0.0 { (a.evaluations as f64 / wall * 3600.0) as u64 } else { 0 },
            "simulated_time_s": a.sim_time_ms as f64 / 1000.0,
            "operations": a.ops,
            "steps": a.steps,
            "runs_per_mode": a.per_mode,
            "faults_fired": a.faults,
            "probes": a.probes,
            "runs_with_faults": a.runs_with_faults,
            "runs_with_nonfifo_schedule": a.runs_with_nonfifo,
            "distinct_schedule_fingerprints": a.sched_fps.len(),
            "distinct_final_state_fingerprints": a.state_fps.len(),
            "determinism_rechecks": a.determinism_rechecks,
            "budget_exhausted_before_all_runs": budget_hit.load(Ordering::SeqCst),
            "requested_runs": total_runs,
            "workers": o.workers,
            "components": S::components().iter().map(|(c, k)| json!({"component": c, "in_simulation": k})).collect::<Vec<_>>(),
            "known_findings": known_lines,
            "violations_of_other_properties_seen": a.other_property_violations,
            "violation": violation_summary,
            "sim": S::NAME,
        },
        "assumptions": spec.assumptions,
    });
    let mut evidence = evidence;
    // evidence of companion runs (e.g. the small-chunk build of the client sim) is embedded verbatim
    let mut embedded = vec![];
    for path in &o.embed {
        match std::fs::read_to_string(path).ok().and_then(|s| serde_json::from_str::<Value>(&s).ok()) {
            Some(v) => embedded.push(json!({"file": path, "evidence": v})),
            None => embedded.push(json!({"file": path, "error": "missing or unreadable"})),
        }
    }
    if !embedded.is_empty() {
        evidence["coverage"]["companion_runs"] = Value::Array(embedded);
    }
    let suffix = std::env::var("VERIF_EVIDENCE_SUFFIX").unwrap_or_default();
    let edir = verif_dir().join("evidence");
    let _ = std::fs::create_dir_all(&edir);
    let epath = edir.join(format!("{}{}.json", spec.id, suffix));
    if let Err(e) = std::fs::write(&epath, serde_json::to_string_pretty(&evidence).unwrap()) {
        println!("HARNESS-ERROR: cannot write evidence {epath:?}: {e}");
        std::process::exit(2);
    }
    println!(
        "done: {} runs ({} inner) in {:.1}s, {} distinct non-trivial schedules, faults={:?}",
        a.evaluations, a.inner_evaluations, wall, distinct_nontrivial, a.faults
    );
    println!("probes={:?}", a.probes);
    for (idx, k) in &known_for {
        println!(
            "KNOWN-FINDING: property={} {} [rules={} hits={}]",
            k.property,
            k.what,
            k.rules.join(","),
            a.known_hits.get(idx).copied().unwrap_or(0)
        );
    }
    if let Some(p) = replay_path {
        println!("VIOLATION property={} replay={}", spec.id, p.display());
        std::process::exit(1);
    }
    if a.evaluations == 0 {
        println!("HARNESS-ERROR: no runs executed");
        std::process::exit(2);
    }
    println!("OK property={} held on everything explored", spec.id);
}
