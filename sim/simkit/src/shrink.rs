//! Delta-debugging candidates over a step vector.

/// Candidates with chunks of steps removed: halves, quarters, ..., single steps (from the end first).
pub fn remove_chunks<T: Clone>(steps: &[T]) -> Vec<Vec<T>> {
    let n = steps.len();
    let mut out = vec![];
    if n == 0 {
        return out;
    }
    let mut size = n / 2;
    while size >= 1 {
        let mut start = n.saturating_sub(size);
        loop {
            let mut v = Vec::with_capacity(n - size);
            v.extend_from_slice(&steps[..start]);
            v.extend_from_slice(&steps[(start + size).min(n)..]);
            out.push(v);
            if start == 0 {
                break;
            }
            start = start.saturating_sub(size);
        }
        if size == 1 {
            break;
        }
        size /= 2;
    }
    out
}

/// Candidates where exactly one step is replaced by a simpler one.
pub fn simplify_each<T: Clone>(steps: &[T], simpler: impl Fn(&T) -> Vec<T>) -> Vec<Vec<T>> {
    let mut out = vec![];
    for (i, s) in steps.iter().enumerate() {
        for alt in simpler(s) {
            let mut v = steps.to_vec();
            v[i] = alt;
            out.push(v);
        }
    }
    out
}
