//! Process-level determinism shim (see /verif/shim/detrand.c): makes getrandom(2) a seeded stream.

use std::ffi::CString;
use std::os::unix::process::CommandExt;

fn lookup(name: &str) -> *mut libc::c_void {
    let c = CString::new(name).unwrap();
    unsafe { libc::dlsym(libc::RTLD_DEFAULT, c.as_ptr()) }
}

pub fn loaded() -> bool {
    !lookup("verif_det_loaded").is_null()
}

/// Restart the thread-local entropy stream of the calling thread from `seed`.
pub fn reseed(seed: u64) {
    let p = lookup("verif_det_reseed");
    assert!(!p.is_null(), "determinism shim not loaded");
    let f: extern "C" fn(u64) = unsafe { std::mem::transmute(p) };
    f(seed)
}

pub fn draws() -> u64 {
    let p = lookup("verif_det_draws");
    if p.is_null() {
        return 0;
    }
    let f: extern "C" fn() -> u64 = unsafe { std::mem::transmute(p) };
    f()
}

/// File-system call points (see detrand.c): before the `fire_at`-th call by path (open / stat family) of the
/// calling thread whose path contains `needle`, `cb` runs once. `fire_at < 0` only counts.
pub fn fs_arm(needle: &str, fire_at: i32, cb: Option<extern "C" fn()>) -> bool {
    let p = lookup("verif_fs_arm");
    if p.is_null() {
        return false;
    }
    let f: extern "C" fn(*const libc::c_char, i32, Option<extern "C" fn()>) = unsafe { std::mem::transmute(p) };
    let c = CString::new(needle).unwrap();
    f(c.as_ptr(), fire_at, cb);
    true
}

/// Disarm; returns how many matching calls were seen since `fs_arm`.
pub fn fs_disarm() -> i32 {
    let p = lookup("verif_fs_disarm");
    if p.is_null() {
        return 0;
    }
    let f: extern "C" fn() -> i32 = unsafe { std::mem::transmute(p) };
    f()
}

pub fn shim_path() -> std::path::PathBuf {
    if let Ok(p) = std::env::var("VERIF_SHIM") {
        return p.into();
    }
    // <target>/release/<bin> -> <target>/libdetrand.so
    let exe = std::env::current_exe().expect("current_exe");
    let target = exe
        .parent()
        .and_then(|p| p.parent())
        .expect("target dir")
        .to_path_buf();
    target.join("libdetrand.so")
}

/// Re-execute the current program under LD_PRELOAD if the shim is not active yet.
pub fn ensure() {
    if loaded() {
        return;
    }
    if std::env::var("VERIF_SHIM_REEXEC").is_ok() {
        eprintln!("HARNESS-ERROR: determinism shim could not be loaded");
        std::process::exit(2);
    }
    let path = shim_path();
    if !path.exists() {
        eprintln!("HARNESS-ERROR: shim {path:?} not built (run setup)");
        std::process::exit(2);
    }
    let exe = std::env::current_exe().expect("current_exe");
    let err = std::process::Command::new(exe)
        .args(std::env::args_os().skip(1))
        .env("LD_PRELOAD", &path)
        .env("VERIF_SHIM_REEXEC", "1")
        .exec();
    eprintln!("HARNESS-ERROR: re-exec failed: {err}");
    std::process::exit(2);
}
