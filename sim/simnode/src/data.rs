//! Deterministic builders for keys, records, quotes and proofs, plus an independent derivation of the
//! key every record kind must be stored under (sha3-256 over the documented inputs, computed here and
//! never through the code under test).

use ant_evm::{EncodedPeerId, PaymentQuote, ProofOfPayment, QuotingMetrics, RewardsAddress};
use ant_protocol::storage::{
    try_serialize_record, Chunk, RecordKind, Scratchpad, Transaction,
};
use ant_registers::{Permissions, Register, RegisterCrdt, RegisterOp, SignedRegister};
use bytes::Bytes;
use libp2p::identity::Keypair;
use libp2p::kad::{Record, RecordKey};
use libp2p::PeerId;
use sha2::{Digest, Sha256};
use sha3::Sha3_256;
use std::collections::BTreeSet;
use std::time::{Duration, SystemTime};
use xor_name::XorName;

pub fn seed_bytes(seed: u64, domain: &str, i: u64) -> [u8; 32] {
    let mut h = Sha256::new();
    h.update(b"antsim-data");
    h.update(domain.as_bytes());
    h.update(seed.to_le_bytes());
    h.update(i.to_le_bytes());
    h.finalize().into()
}

pub fn bls_key(seed: u64, i: u64) -> bls::SecretKey {
    let mut b = seed_bytes(seed, "bls", i);
    b[0] &= 0x0f; // below the BLS12-381 scalar modulus
    if b.iter().all(|x| *x == 0) {
        b[31] = 1;
    }
    bls::SecretKey::from_bytes(b).expect("valid scalar")
}

pub fn ed_key(seed: u64, i: u64) -> Keypair {
    Keypair::ed25519_from_bytes(seed_bytes(seed, "ed25519", i)).expect("ed25519 key")
}

pub fn sha3(bytes: &[u8]) -> [u8; 32] {
    let mut h = Sha3_256::new();
    h.update(bytes);
    h.finalize().into()
}

/// sha256(a) xor sha256(b), big-endian: the network's distance metric, recomputed independently.
pub fn xor_distance(a: &[u8], b: &[u8]) -> [u8; 32] {
    let ha = Sha256::digest(a);
    let hb = Sha256::digest(b);
    let mut out = [0u8; 32];
    for i in 0..32 {
        out[i] = ha[i] ^ hb[i];
    }
    out
}

// ---------------------------------------------------------------- expected keys (independent)

pub fn expected_chunk_key(content: &[u8]) -> Vec<u8> {
    sha3(content).to_vec()
}
pub fn expected_owner_key(owner: &bls::PublicKey) -> Vec<u8> {
    sha3(&owner.to_bytes()).to_vec()
}
pub fn expected_register_key(meta: &[u8; 32], owner: &bls::PublicKey) -> Vec<u8> {
    let mut b = meta.to_vec();
    b.extend_from_slice(&owner.to_bytes());
    sha3(&b).to_vec()
}

// ---------------------------------------------------------------- record values

pub fn rec(key: &[u8], value: Vec<u8>) -> Record {
    Record {
        key: RecordKey::new(&key),
        value,
        publisher: None,
        expires: None,
    }
}

pub fn chunk_value(content: &[u8]) -> Vec<u8> {
    try_serialize_record(&Chunk::new(Bytes::copy_from_slice(content)), RecordKind::Chunk)
        .expect("serialize chunk")
        .to_vec()
}

pub fn chunk_paid_value(content: &[u8], proof: &ProofOfPayment) -> Vec<u8> {
    try_serialize_record(
        &(proof.clone(), Chunk::new(Bytes::copy_from_slice(content))),
        RecordKind::ChunkWithPayment,
    )
    .expect("serialize")
    .to_vec()
}

#[derive(Clone, Copy, Debug, PartialEq, Eq)]
pub enum PadForm {
    /// signed by the owner
    Valid,
    /// no signature at all
    Unsigned,
    /// signed by somebody else
    ForeignSigner,
    /// validly signed, then the counter was raised without re-signing
    InflatedCounter,
    /// validly signed by the owner, then a holder replaced the encrypted content (by other data encrypted to
    /// the owner's public key) while keeping address, counter and signature
    SubstitutedContent,
    /// validly signed by the owner at `counter`, then the counter field is replaced by its byte-swapped value (the
    /// same eight bytes read in the other byte order: 1 becomes 2^56); content and signature untouched
    ByteSwappedCounter,
}

/// A scratchpad of `owner` whose counter is `counter` (>= 1) carrying `data`.
pub fn scratchpad(
    owner: &bls::SecretKey,
    other: &bls::SecretKey,
    counter: u64,
    data: &[u8],
    form: PadForm,
) -> Scratchpad {
    let mut p = Scratchpad::new(owner.public_key(), 0);
    // counter 0 exists for the unsigned form only: the pad as `Scratchpad::new` yields it, nothing written, nothing signed
    let raw_counter = counter;
    let counter = counter.max(1);
    match form {
        PadForm::Valid | PadForm::ForeignSigner => {
            for _ in 1..counter {
                p.increment();
            }
            let signer = if form == PadForm::Valid { owner } else { other };
            p.update_and_sign(Bytes::copy_from_slice(data), signer);
        }
        PadForm::Unsigned => {
            for _ in 0..raw_counter {
                p.increment();
            }
        }
        PadForm::SubstitutedContent => {
            for _ in 1..counter {
                p.increment();
            }
            p.update_and_sign(Bytes::copy_from_slice(data), owner);
            let forged = owner.public_key().encrypt([b"substituted by the holder: ".as_slice(), data].concat()).to_bytes();
            let mut v = serde_json::to_value(&p).expect("pad to json");
            v["encrypted_data"] = serde_json::to_value(Bytes::from(forged)).expect("bytes to json");
            p = serde_json::from_value(v).expect("pad from json");
        }
        PadForm::ByteSwappedCounter => {
            for _ in 1..counter {
                p.increment();
            }
            p.update_and_sign(Bytes::copy_from_slice(data), owner);
            let mut v = serde_json::to_value(&p).expect("pad to json");
            v["counter"] = serde_json::json!(p.count().swap_bytes());
            p = serde_json::from_value(v).expect("pad from json");
        }
        PadForm::InflatedCounter => {
            // signed for counter 1, then raised
            p.update_and_sign(Bytes::copy_from_slice(data), owner);
            for _ in 1..counter.max(2) {
                p.increment();
            }
        }
    }
    p
}

pub fn scratchpad_value(p: &Scratchpad) -> Vec<u8> {
    try_serialize_record(p, RecordKind::Scratchpad)
        .expect("serialize")
        .to_vec()
}

pub fn scratchpad_paid_value(p: &Scratchpad, proof: &ProofOfPayment) -> Vec<u8> {
    try_serialize_record(&(proof.clone(), p.clone()), RecordKind::ScratchpadWithPayment)
        .expect("serialize")
        .to_vec()
}

/// A transaction of `owner` with content tag `n`; `valid == false` signs with `other`.
pub fn transaction(owner: &bls::SecretKey, other: &bls::SecretKey, n: u32, valid: bool) -> Transaction {
    let mut content = [0u8; 32];
    content[..4].copy_from_slice(&n.to_le_bytes());
    let signer = if valid { owner } else { other };
    let (parents, outputs) = tx_links(n);
    Transaction::new(owner.public_key(), parents, content, outputs, signer)
}

/// Parents and outputs of transaction `n` (every signed field is populated, so that a signature that does
/// not cover one of them can be noticed).
fn tx_links(n: u32) -> (Vec<bls::PublicKey>, Vec<(bls::PublicKey, [u8; 32])>) {
    let pk = |i: u64| bls_key(0x7a11, i).public_key();
    let mut c1 = [1u8; 32];
    c1[..4].copy_from_slice(&n.to_le_bytes());
    let mut c2 = [2u8; 32];
    c2[..4].copy_from_slice(&n.to_le_bytes());
    (vec![pk(1)], vec![(pk(2), c1), (pk(3), c2)])
}

/// A transaction validly signed by `owner` and then altered without re-signing: `what` 0 = the contents of
/// the two outputs swapped, 1 = an output key replaced, 2 = the parent replaced, 3 = the content changed.
pub fn tampered_transaction(owner: &bls::SecretKey, other: &bls::SecretKey, n: u32, what: u8) -> Transaction {
    let mut t = transaction(owner, other, n, true);
    match what % 4 {
        0 => {
            let a = t.outputs[0].1;
            t.outputs[0].1 = t.outputs[1].1;
            t.outputs[1].1 = a;
        }
        1 => t.outputs[0].0 = other.public_key(),
        2 => t.parents[0] = other.public_key(),
        _ => t.content[31] ^= 0x55,
    }
    t
}

pub fn transactions_value(txs: &[Transaction]) -> Vec<u8> {
    try_serialize_record(&txs.to_vec(), RecordKind::Transaction)
        .expect("serialize")
        .to_vec()
}

pub fn transaction_paid_value(tx: &Transaction, proof: &ProofOfPayment) -> Vec<u8> {
    try_serialize_record(&(proof.clone(), tx.clone()), RecordKind::TransactionWithPayment)
        .expect("serialize")
        .to_vec()
}

/// A register of `owner` (label `meta`) with the given writers allowed (empty = owner only).
pub fn base_register(owner: &bls::SecretKey, meta: [u8; 32], writers: &[bls::PublicKey], anyone: bool) -> SignedRegister {
    let perms = if anyone {
        Permissions::new_anyone_can_write()
    } else {
        Permissions::new_with(writers.iter().cloned())
    };
    let reg = Register::new(owner.public_key(), XorName(meta), perms);
    let sig = owner.sign(reg.bytes().expect("register bytes"));
    SignedRegister::new(reg, sig, BTreeSet::new())
}

/// One register op writing entry tag `n` on top of nothing (concurrent root entry), signed by `signer`.
pub fn register_op(reg: &SignedRegister, n: u32, signer: &bls::SecretKey) -> RegisterOp {
    let mut crdt = RegisterCrdt::new(*reg.address());
    let entry = n.to_le_bytes().to_vec();
    let (_hash, addr, op) = crdt.write(entry, &BTreeSet::new()).expect("crdt write");
    RegisterOp::new(addr, op, signer)
}

/// An op whose `source` is `named`'s public key while its signature was made by `signer`
/// (what an adversarial peer can put on the wire; the fields are private, so it is forged through serde).
pub fn forged_register_op(reg: &SignedRegister, n: u32, named: &bls::SecretKey, signer: &bls::SecretKey) -> RegisterOp {
    let honest = register_op(reg, n, named);
    let other = register_op(reg, n, signer);
    let mut v = serde_json::to_value(&honest).expect("op to json");
    let o = serde_json::to_value(&other).expect("op to json");
    v["signature"] = o["signature"].clone();
    let forged: RegisterOp = serde_json::from_value(v).expect("op from json");
    assert!(forged != honest && forged.verify_signature(&named.public_key()).is_err());
    forged
}

/// The fixed owner of "big" registers: its block of ops is signed once per process (keyed by register address).
pub fn big_register_owner() -> bls::SecretKey {
    bls_key(0xB16, 1)
}

/// `n` ops of the fixed big-register owner for `base`'s address, built once per process and address.
pub fn big_block(base: &SignedRegister, n: u32) -> Vec<RegisterOp> {
    use std::collections::HashMap;
    use std::sync::{Mutex, OnceLock};
    static BLOCKS: OnceLock<Mutex<HashMap<Vec<u8>, Vec<RegisterOp>>>> = OnceLock::new();
    let owner = big_register_owner();
    let key = rmp_serde::to_vec(base.address()).expect("ser address");
    // built outside the lock-free path on purpose: a process builds each block once, other threads wait
    let mut g = BLOCKS.get_or_init(|| Mutex::new(HashMap::new())).lock().unwrap_or_else(|e| e.into_inner());
    let block = g.entry(key).or_insert_with(|| (0..600u32).map(|i| register_op(base, 10_000 + i, &owner)).collect());
    block[..n as usize].to_vec()
}

/// An op genuinely written and signed by `signer` for register `from`, with its address field rewritten to `to`'s
/// address (what an adversarial peer can put on the wire: same crdt op, source and signature).
pub fn readdressed_register_op(from: &SignedRegister, to: &SignedRegister, n: u32, signer: &bls::SecretKey) -> RegisterOp {
    let op = register_op(from, n, signer);
    let mut v = serde_json::to_value(&op).expect("op to json");
    v["address"] = serde_json::to_value(to.address()).expect("address to json");
    serde_json::from_value(v).expect("op from json")
}

pub fn register_with_ops(base: &SignedRegister, ops: &[RegisterOp]) -> SignedRegister {
    SignedRegister::new(
        base.base_register().clone(),
        owner_signature_of(base),
        ops.iter().cloned().collect(),
    )
}

fn owner_signature_of(reg: &SignedRegister) -> bls::Signature {
    // SignedRegister keeps its signature private; round-trip through serde to read it back
    #[derive(serde::Deserialize)]
    struct Mirror {
        #[allow(dead_code)]
        register: Register,
        signature: bls::Signature,
        #[allow(dead_code)]
        ops: BTreeSet<RegisterOp>,
    }
    let bytes = rmp_serde::to_vec(reg).expect("ser");
    let m: Mirror = rmp_serde::from_slice(&bytes).expect("de");
    m.signature
}

pub fn register_value(reg: &SignedRegister) -> Vec<u8> {
    try_serialize_record(reg, RecordKind::Register)
        .expect("serialize")
        .to_vec()
}

pub fn register_paid_value(reg: &SignedRegister, proof: &ProofOfPayment) -> Vec<u8> {
    try_serialize_record(&(proof.clone(), reg.clone()), RecordKind::RegisterWithPayment)
        .expect("serialize")
        .to_vec()
}

// ---------------------------------------------------------------- quotes and proofs

#[derive(Clone, Copy, Debug, PartialEq, Eq)]
pub enum QuoteSig {
    Valid,
    /// signature bytes corrupted
    Forged,
    /// signed by another node's key while claiming this one
    OtherKey,
    /// a self-consistent quote of ANOTHER node (its public key, its signature), listed under this payee
    OtherNodesQuote,
}

/// A quote by node `kp` for `content`, `age_secs` old (negative = dated in the future).
pub fn quote(
    kp: &Keypair,
    other: &Keypair,
    content: [u8; 32],
    age_secs: i64,
    rewards: RewardsAddress,
    sig: QuoteSig,
    uniq: u64,
) -> PaymentQuote {
    let now = SystemTime::now();
    let timestamp = if age_secs >= 0 {
        now - Duration::from_secs(age_secs as u64)
    } else {
        now + Duration::from_secs((-age_secs) as u64)
    };
    let metrics = QuotingMetrics {
        close_records_stored: 1,
        max_records: 16 * 1024,
        received_payment_count: 0,
        live_time: 1 + uniq,
        network_density: None,
        network_size: Some(100),
    };
    let bytes = PaymentQuote::bytes_for_signing(XorName(content), timestamp, &metrics, &rewards);
    let signer = if sig == QuoteSig::OtherKey || sig == QuoteSig::OtherNodesQuote { other } else { kp };
    let mut signature = signer.sign(&bytes).expect("sign quote");
    if sig == QuoteSig::Forged {
        signature[0] ^= 0x55;
    }
    PaymentQuote {
        content: XorName(content),
        timestamp,
        quoting_metrics: metrics,
        rewards_address: rewards,
        pub_key: if sig == QuoteSig::OtherNodesQuote { other.public().encode_protobuf() } else { kp.public().encode_protobuf() },
        signature,
    }
}

pub fn proof(quotes: Vec<(PeerId, PaymentQuote)>) -> ProofOfPayment {
    ProofOfPayment {
        peer_quotes: quotes
            .into_iter()
            .map(|(p, q)| (EncodedPeerId::from(p), q))
            .collect(),
    }
}

/// A payee id that does not decode to a PeerId (adversarial proof).
pub fn undecodable_payee(tag: u8) -> EncodedPeerId {
    serde_json::from_value(serde_json::json!([0xffu8, tag, 0x00, 0x13, 0x37])).expect("EncodedPeerId from raw bytes")
}

pub fn proof_raw(peer_quotes: Vec<(EncodedPeerId, PaymentQuote)>) -> ProofOfPayment {
    ProofOfPayment { peer_quotes }
}
