//! One real node (SwarmDriver + Network + Node) whose event loop, transport and clock are the simulator.

use ant_evm::{EvmNetwork, RewardsAddress};
use ant_networking::verif::{LocalSwarmCmd, NetworkSwarmCmd};
use ant_networking::{Network, NetworkBuilder, NetworkError, NetworkEvent, NodeRecordStore, SwarmDriver};
use ant_node::VerifNode;
use ant_protocol::messages::{Request, Response};
use libp2p::identity::Keypair;
use libp2p::{Multiaddr, PeerId};
use std::path::PathBuf;
use tokio::sync::{mpsc, oneshot};

/// A request the node wants to send to another peer; the simulator is the transport.
pub struct Outbound {
    pub id: u64,
    pub to: PeerId,
    pub req: Request,
    pub reply: Option<oneshot::Sender<Result<Response, NetworkError>>>,
}

pub struct NodeHost {
    pub idx: usize,
    pub root: PathBuf,
    pub keypair: Keypair,
    pub peer: PeerId,
    pub driver: SwarmDriver,
    pub network: Network,
    pub events: mpsc::Receiver<NetworkEvent>,
    pub node: VerifNode,
    pub outbox: Vec<Outbound>,
    pub next_out: u64,
    /// number of PaymentReceived commands the driver handled
    pub payments_notified: u64,
    /// NetworkSwarmCmds other than requests/responses seen (put record, dial, ...), by name
    pub other_cmds: Vec<String>,
    /// (key, record type as text, does the indexed content hash equal the hash of the held record?
    /// None = not comparable: chunk/scratchpad type, or a write of the key is in flight) taken at the
    /// moment the last TriggerIntervalReplication command was handled
    pub index_at_trigger: Vec<(Vec<u8>, String, Option<bool>)>,
    /// every such snapshot of the run, oldest first (a list built at one trigger may be sent after a later trigger was handled)
    pub index_at_triggers: Vec<Vec<(Vec<u8>, String, Option<bool>)>>,
}

pub fn custom_evm() -> EvmNetwork {
    EvmNetwork::new_custom(
        "http://127.0.0.1:9/",
        "0x5FbDB2315678afecb367f032d93F642f64180aa3",
        "0x8464135c8F25Da09e49BC8782676a84730C318bC",
    )
}

pub fn peer_addr(i: usize, peer: &PeerId) -> Multiaddr {
    format!("/ip4/10.0.{}.{}/udp/{}/quic-v1/p2p/{}", (i / 250) % 250, 1 + i % 250, 10000 + i, peer)
        .parse()
        .expect("multiaddr")
}

impl NodeHost {
    pub fn build(
        idx: usize,
        root: PathBuf,
        keypair: Keypair,
        capacity: Option<usize>,
        cache: Option<usize>,
        rewards: RewardsAddress,
    ) -> Result<Self, String> {
        std::fs::create_dir_all(&root).map_err(|e| format!("mkdir {root:?}: {e}"))?;
        let b = NetworkBuilder::new(keypair.clone(), true);
        let (network, events, driver) = b
            .verif_build_node(root.clone(), capacity, cache)
            .map_err(|e| format!("verif_build_node: {e}"))?;
        let node = VerifNode::new(network.clone(), custom_evm(), rewards);
        let peer = keypair.public().to_peer_id();
        Ok(NodeHost {
            idx,
            root,
            keypair,
            peer,
            driver,
            network,
            events,
            node,
            outbox: vec![],
            next_out: 0,
            payments_notified: 0,
            other_cmds: vec![],
            index_at_trigger: vec![],
            index_at_triggers: vec![],
        })
    }

    pub fn store(&mut self) -> &mut NodeRecordStore {
        self.driver
            .verif_store_mut()
            .verif_node_store()
            .expect("node store")
    }

    fn snapshot_index_at_trigger(&mut self) {
        use ant_protocol::storage::RecordType;
        use libp2p::kad::store::RecordStore;
        let pending: Vec<String> = ant_networking::verif::gates_pending().into_iter().map(|g| g.detail).collect();
        let index = self.store().verif_index();
        let mut snap = vec![];
        for (key, _addr, ty) in index {
            let kb = key.to_vec();
            let hexk = hex::encode(&kb);
            let in_flight = pending.iter().any(|d| d.contains(&hexk) || d.contains(&hexk[..6]));
            let matches = match (&ty, in_flight) {
                (RecordType::NonChunk(h), false) => self
                    .store()
                    .get(&key)
                    .map(|r| crate::data::sha3(&r.value) == h.0),
                _ => None,
            };
            snap.push((kb, format!("{ty:?}"), matches));
        }
        snap.sort();
        self.index_at_triggers.push(snap.clone());
        self.index_at_trigger = snap;
    }

    /// Handle everything that has reached the driver's and the node's channels. Returns how many
    /// items were handled and appends one log line per item.
    pub fn drain(&mut self, log: &mut Vec<String>) -> usize {
        let mut n = 0;
        loop {
            let mut progressed = false;
            while let Some(cmd) = self.driver.verif_try_recv_local_cmd() {
                progressed = true;
                n += 1;
                if matches!(cmd, LocalSwarmCmd::PaymentReceived) {
                    self.payments_notified += 1;
                }
                if matches!(cmd, LocalSwarmCmd::TriggerIntervalReplication) {
                    self.snapshot_index_at_trigger();
                }
                let text = format!("{cmd:?}");
                let res = self.driver.verif_handle_local_cmd(cmd);
                log.push(format!(
                    "  n{} local {} -> {}",
                    self.idx,
                    text,
                    match res {
                        Ok(()) => "ok".to_string(),
                        Err(e) => format!("err({e})"),
                    }
                ));
            }
            while let Some(cmd) = self.driver.verif_try_recv_network_cmd() {
                progressed = true;
                n += 1;
                match cmd {
                    NetworkSwarmCmd::SendRequest { req, peer, sender } if peer != self.peer => {
                        let id = self.next_out;
                        self.next_out += 1;
                        log.push(format!("  n{} outbound #{id} {req:?}", self.idx));
                        self.outbox.push(Outbound {
                            id,
                            to: peer,
                            req,
                            reply: sender,
                        });
                    }
                    cmd @ (NetworkSwarmCmd::SendRequest { .. }
                    | NetworkSwarmCmd::SendResponse { .. }
                    | NetworkSwarmCmd::GetNetworkRecord { .. }) => {
                        let text = format!("{cmd:?}");
                        let text: String = text.chars().take(160).collect();
                        let res = self.driver.verif_handle_network_cmd(cmd);
                        log.push(format!(
                            "  n{} net {} -> {}",
                            self.idx,
                            text,
                            if res.is_ok() { "ok" } else { "err" }
                        ));
                    }
                    other => {
                        let text: String = format!("{other:?}").chars().take(80).collect();
                        log.push(format!("  n{} net (not simulated) {text}", self.idx));
                        self.other_cmds.push(text);
                        // dropping the command drops its reply channel: the caller sees a channel error
                    }
                }
            }
            while let Ok(ev) = self.events.try_recv() {
                progressed = true;
                n += 1;
                log.push(format!("  n{} event {ev:?}", self.idx));
                self.node.handle_network_event(ev);
            }
            if !progressed {
                break;
            }
        }
        n
    }
}

/// Content hashes of records that embed wall-clock timestamps (payment quotes) differ between
/// executions; they are masked in the event log so that one seed is one log.
pub fn scrub(line: &str) -> String {
    let mut out = String::with_capacity(line.len());
    let mut rest = line;
    while let Some(pos) = rest.find("NonChunk(") {
        out.push_str(&rest[..pos]);
        out.push_str("NonChunk(#)");
        let after = &rest[pos + "NonChunk(".len()..];
        // skip to the matching "..)" that ends the pretty-printed xorname
        match after.find("..)") {
            Some(end) => rest = &after[end + 3..],
            None => {
                rest = "";
            }
        }
    }
    out.push_str(rest);
    out
}
