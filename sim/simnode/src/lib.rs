//! Shared pieces of the node-level simulators: deterministic data builders with independent address
//! derivation (`data`) and a host for one real node whose event loop is the simulator (`host`).
pub mod data;
pub mod host;
