//! sim `getrecord` (C05): the real `Network::get_record_from_network` futures as callers, the real
//! SwarmDriver handlers for GetNetworkRecord and for kad get-record progress events; the simulator is
//! the kad query engine: it feeds FoundRecord / terminal events in seeded order with duplicates.

mod world;

use serde::{Deserialize, Serialize};
use simkit::{GenCtx, PropertySpec, Rng, RunReport, Sim, Tier};

#[derive(Serialize, Deserialize, Clone, Debug, PartialEq)]
#[serde(tag = "t")]
pub enum Step {
    /// a caller starts get_record_from_network; quorum: 0 One, 1 Majority, 2 All, 3 N(2), 4.. N(1 + (q-4) % 8);
    /// target: expected version (index) or none
    Call { quorum: u8, target: Option<u8>, retry: bool },
    /// run the `sel`-th parked task (the callers' command sends)
    Run { sel: u32 },
    /// kad reports a record copy from `peer` holding `version`
    Found { peer: u8, version: u8 },
    /// kad terminates the query: 0 FinishedWithNoAdditionalRecord, 1 NotFound, 2 QuorumFailed, 3 Timeout
    Finish { how: u8 },
    Advance { secs: u32 },
    Settle,
    /// caller number `caller` (mod the callers so far) gives up: its get_record_from_network future is dropped
    Cancel { caller: u8 },
}

#[derive(Serialize, Deserialize, Clone, Debug)]
pub struct Plan {
    pub property: String,
    pub mode: String,
    pub seed: u64,
    /// 0 chunk-like opaque versions, 1 register, 2 transactions, 3 scratchpad, 4 mixed kinds,
    /// 5 transactions with one opaque (non-transaction) version among them
    pub kind: u8,
    pub n_versions: u8,
    /// per version a content parameter (register/tx: bit mask of members incl. invalid ones;
    /// scratchpad: counter*4+form)
    pub version_params: Vec<u32>,
    pub steps: Vec<Step>,
    /// register versions share a block of 520 further ops (op counts of two versions add up to more than the
    /// 1024-entry limit while their union stays below it)
    #[serde(default)]
    pub big_register: bool,
}

pub struct GetRecordSim;

impl Sim for GetRecordSim {
    type Plan = Plan;
    const NAME: &'static str = "getrecord";

    fn properties() -> Vec<PropertySpec> {
        vec![PropertySpec {
            id: "C05",
            level: "exploration",
            modes: vec!["orderly", "adversarial"],
            quick_runs: 6_000,
            thorough_runs: 400_000,
            rule: "One run = 1..4 callers of the real Network::get_record_from_network for one key (own quorum One/Majority/All/N(1..8), optional expected record) arriving before/between/after replies, and a seeded stream of kad progress events fed to the real handlers: FoundRecord from 0..8 peers holding 1..4 versions (opaque, registers incl. unverifiable ones, transaction sets, scratchpads valid/unsigned/forged/equal counters, mixed kinds), duplicates, and a terminal event (finished, not found, quorum failed, timeout). Mode orderly: every peer answers once, versions of one kind; mode adversarial: duplicates, late callers, mixed kinds, early terminals. Each caller's outcome is checked against its OWN quorum and target. Non-trivial = >=3 operations and (>=1 duplicated/late/terminal-before-quorum event or non-FIFO decision); distinct = fingerprint of the event and scheduling sequence.",
            assumptions: vec![
                "the simulator plays libp2p's kad query engine: it emits the same kad::Event values the engine emits (OutboundQueryProgressed with FoundRecord / FinishedWithNoAdditionalRecord / errors); the engine itself is not run",
                "retries with back-off are exercised only with a single caller (the back-off jitter comes from an unseeded fastrand generator)",
            ],
        }]
    }

    fn generate(rng: &mut Rng, ctx: &GenCtx) -> Plan {
        let adversarial = ctx.mode == "adversarial";
        // 5 = transaction versions plus one copy that is no transaction record (a corrupt / foreign copy from one holder)
        let kind = if adversarial && rng.chance(1, 8) { 4 } else if adversarial && rng.chance(1, 8) { 5 } else { rng.below(4) as u8 };
        let n_versions = if kind == 5 { rng.range(3, 4) as u8 } else if rng.chance(1, 3) { 1 } else { rng.range(2, 4) as u8 };
        let big = rng.chance(1, 40);
        let version_params: Vec<u32> = (0..n_versions)
            .map(|i| match kind {
                3 => {
                    // counter 1..4, form: mostly valid
                    let counter = rng.range(1, 4) as u32;
                    let form = if rng.chance(2, 3) { 0 } else { rng.range(1, 3) as u32 };
                    counter * 4 + form
                }
                _ => {
                    // bit mask over 5 members; bit 5 = include an invalid member (adversarial only)
                    let mut m = 1 + rng.below(31) as u32;
                    if adversarial && rng.chance(1, 4) {
                        m |= 32;
                    }
                    m + (i as u32) * 64 // keep versions distinct
                }
            })
            .collect();
        let n_callers = if rng.chance(1, 2) { 1 } else { rng.urange(2, 4) };
        let n_peers = rng.urange(1, 8) as u8;
        let single = n_callers == 1;
        let mut steps = vec![];
        let mut calls_left = n_callers;
        // swarm knobs: callers of one run often share a quorum, and runs differ in how often callers
        // expect a specific record (overlapping reads with equal quorum but different expectations)
        let draw_q = |rng: &mut Rng| if rng.chance(1, 4) { 4 + rng.below(8) as u8 } else { rng.below(4) as u8 };
        let shared_quorum: Option<u8> = if rng.chance(1, 2) { Some(draw_q(rng)) } else { None };
        let target_odds = *rng.pick(&[0u64, 1, 1, 2, 3]);
        let call = move |rng: &mut Rng, n_versions: u8, single: bool| Step::Call {
            quorum: shared_quorum.unwrap_or_else(|| draw_q(rng)),
            target: if rng.chance(target_odds, 3) { Some(rng.below(n_versions as u64) as u8) } else { None },
            retry: single && rng.chance(1, 4),
        };
        // first caller
        steps.push(call(rng, n_versions, single));
        calls_left -= 1;
        steps.push(Step::Run { sel: 0 });
        let n_events = match ctx.tier {
            Tier::Quick => rng.urange(1, 14),
            Tier::Thorough => rng.urange(1, 24),
        };
        let mut answered: Vec<u8> = vec![];
        for _ in 0..n_events {
            let r = rng.below(100);
            if calls_left > 0 && r < 25 {
                steps.push(call(rng, n_versions, single));
                calls_left -= 1;
                if !adversarial || rng.chance(2, 3) {
                    steps.push(Step::Run { sel: rng.below(1 << 16) as u32 });
                }
            } else if r < 80 {
                let peer = if adversarial {
                    rng.below(n_peers as u64) as u8
                } else {
                    // every peer answers once
                    let fresh: Vec<u8> = (0..n_peers).filter(|p| !answered.contains(p)).collect();
                    if fresh.is_empty() {
                        continue;
                    }
                    *rng.pick(&fresh)
                };
                answered.push(peer);
                // a peer holds one version (adversarial: may change its answer)
                let version = if adversarial && rng.chance(1, 6) {
                    rng.below(n_versions as u64) as u8
                } else {
                    (peer as u64 * 7 % n_versions as u64) as u8
                };
                steps.push(Step::Found { peer, version });
            } else if r < 88 {
                steps.push(Step::Run { sel: rng.below(1 << 16) as u32 });
            } else if adversarial && r < 94 {
                steps.push(Step::Finish { how: rng.below(4) as u8 });
            } else if adversarial && r < 97 {
                steps.push(Step::Cancel { caller: rng.below(4) as u8 });
            } else {
                steps.push(Step::Run { sel: 0 });
            }
        }
        while calls_left > 0 {
            steps.push(call(rng, n_versions, single));
            calls_left -= 1;
        }
        steps.push(Step::Settle);
        steps.push(Step::Finish { how: if adversarial { rng.below(4) as u8 } else { 0 } });
        steps.push(Step::Settle);
        if single {
            for _ in 0..5 {
                steps.push(Step::Advance { secs: 40 });
                steps.push(Step::Finish { how: 1 });
            }
            steps.push(Step::Settle);
        }
        Plan {
            property: ctx.property.clone(),
            mode: ctx.mode.clone(),
            seed: rng.next_u64(),
            kind,
            n_versions,
            version_params,
            steps,
            big_register: kind == 1 && big,
        }
    }

    fn execute(plan: &Plan, entropy: u64) -> RunReport {
        world::execute(plan, entropy)
    }

    fn shrink(plan: &Plan) -> Vec<Plan> {
        let mut out = vec![];
        for steps in simkit::shrink::remove_chunks(&plan.steps) {
            let mut p = plan.clone();
            p.steps = steps;
            out.push(p);
        }
        for steps in simkit::shrink::simplify_each(&plan.steps, |s| match s {
            Step::Run { sel } if *sel != 0 => vec![Step::Run { sel: 0 }],
            Step::Call { quorum, target: Some(_), retry } => vec![Step::Call { quorum: *quorum, target: None, retry: *retry }],
            Step::Call { quorum, target, retry: true } => vec![Step::Call { quorum: *quorum, target: *target, retry: false }],
            _ => vec![],
        }) {
            let mut p = plan.clone();
            p.steps = steps;
            out.push(p);
        }
        out
    }

    fn components() -> Vec<(&'static str, &'static str)> {
        vec![
            ("Network::get_record_from_network, handle_split_record_error, GetRecordCfg::does_target_match, get_quorum_value", "real"),
            ("SwarmDriver::handle_network_cmd(GetNetworkRecord) incl. request de-duplication, accumulate_get_record_found, handle_get_record_finished, handle_get_record_error", "real (guarded pass-throughs)"),
            ("libp2p kad query engine and transport", "stub: the simulator emits the kad::Event values"),
            ("ant-registers SignedRegister verify/merge, Scratchpad::is_valid, transaction (de)serialisation", "real"),
        ]
    }
}

fn main() {
    simkit::check::main::<GetRecordSim>();
}
