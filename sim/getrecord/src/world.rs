//! Executor and oracle of the `getrecord` sim.

use crate::{Plan, Step};
use ant_networking::verif::{self as hooks, NetworkSwarmCmd};
use ant_networking::{GetRecordCfg, Network, NetworkBuilder, NetworkError, SwarmDriver};
use ant_protocol::storage::{try_deserialize_record, RecordHeader, RecordKind, RetryStrategy, Scratchpad, Transaction};
use ant_registers::{RegisterOp, SignedRegister};
use libp2p::kad::{self, PeerRecord, ProgressStep, QueryId, QueryResult, QueryStats, Quorum, Record, RecordKey};
use libp2p::PeerId;
use simkit::rt::settle;
use simkit::RunReport;
use simnode::data::{self, PadForm};
use std::collections::{BTreeSet, HashSet};
use std::num::NonZeroUsize;
use std::sync::{Arc, Mutex};
use std::time::Duration;

#[derive(Clone, Debug)]
enum VKind {
    Opaque,
    Reg { ops: BTreeSet<RegisterOp>, verifies: bool },
    Txs(BTreeSet<Transaction>),
    Pad { counter: u64, valid: bool },
}

struct Version {
    bytes: Vec<u8>,
    kind: VKind,
}

struct Caller {
    quorum: usize,
    target: Option<u8>,
    tag: PeerId,
    attached: Vec<usize>,
    result: Arc<Mutex<Option<Result<Record, String>>>>,
    judged: bool,
    cmd_handled: bool,
    /// the task awaiting get_record_from_network (aborted by Step::Cancel = the caller gives up)
    handle: Option<tokio::task::JoinHandle<()>>,
    cancelled: bool,
    untagged: bool,
    /// the caller retries with back-off (its command is sent again later)
    retrying: bool,
}

struct QueryModel {
    id: QueryId,
    owner_quorum: usize,
    owner_target: Option<u8>,
    callers: Vec<usize>,
    delivered: Vec<(u8, u8)>,
    done: bool,
}

struct World<'a> {
    plan: &'a Plan,
    rep: RunReport,
    driver: SwarmDriver,
    network: Network,
    key: RecordKey,
    versions: Vec<Version>,
    peers: Vec<PeerId>,
    callers: Vec<Caller>,
    queries: Vec<QueryModel>,
    step_count: usize,
}

/// Metamorphic check for "never an arbitrary pick": the same plan is executed again on another thread
/// under a different entropy (= another std HashMap iteration order inside the code under test); every
/// caller must receive the same outcome.
pub fn execute(plan: &Plan, entropy: u64) -> RunReport {
    let (mut rep, version_bytes) = execute_once(plan, entropy, None);
    let wants_salt = plan.kind >= 3 || entropy % 3 == 0;
    if wants_salt && rep.violations.is_empty() && rep.harness_error.is_none() {
        let alt_entropy = entropy ^ 0x5a17_5a17_5a17_5a17;
        let p2 = plan.clone();
        // the second execution sees byte-identical records (scratchpad encryption is randomised)
        let alt = match simkit::rt::on_fresh_thread(alt_entropy, move || execute_once(&p2, alt_entropy, Some(version_bytes)).0) {
            simkit::rt::ThreadOutcome::Done(r) => r,
            simkit::rt::ThreadOutcome::Panicked(m) => {
                rep.log(format!("second hash order: PANIC {m}"));
                rep.violate("C05", "panic_under_other_hash_order", &[], m);
                return rep;
            }
        };
        rep.probe("second_hash_order_executed");
        let outcomes = |r: &RunReport| -> Vec<String> { r.log.iter().filter(|l| l.starts_with("caller ")).cloned().collect() };
        let (a, b) = (outcomes(&rep), outcomes(&alt));
        if a != b {
            let shape = match plan.kind {
                4 | 5 => "versions_of_mixed_kinds",
                3 => "scratchpad_versions",
                1 => "register_versions",
                2 => "transaction_versions",
                _ => "opaque_versions",
            };
            let diff = a.iter().zip(b.iter()).find(|(x, y)| x != y).map(|(x, y)| format!("{x:?} vs {y:?}")).unwrap_or_else(|| format!("{} vs {} outcomes", a.len(), b.len()));
            rep.log(format!("second hash order gives different outcomes: {diff}"));
            rep.violate("C05", "outcome_depends_on_hash_order", &[("shape", shape.into())], format!("the same replies in the same order give different caller outcomes under another hash-map iteration order: {diff}"));
        }
    }
    rep
}

fn execute_once(plan: &Plan, entropy: u64, preset: Option<Vec<Vec<u8>>>) -> (RunReport, Vec<Vec<u8>>) {
    simkit::rt::block_on(entropy, async move {
        hooks::gates_install();
        let mut rep = RunReport::default();
        let kp = data::ed_key(plan.seed, 0);
        let built = NetworkBuilder::new(kp, true).build_client();
        let (network, _events, driver) = match built {
            Ok(x) => x,
            Err(e) => {
                rep.harness_error = Some(format!("build_client: {e}"));
                return (rep, vec![]);
            }
        };
        let mut w = World::new(plan, rep, driver, network);
        if let Some(p) = preset {
            for (v, b) in w.versions.iter_mut().zip(p.into_iter()) {
                v.bytes = b;
            }
        }
        let bytes = w.versions.iter().map(|v| v.bytes.clone()).collect();
        w.run().await;
        hooks::gates_uninstall();
        (w.rep, bytes)
    })
}

fn quorum_of(q: u8) -> (Quorum, usize) {
    match q {
        0 => (Quorum::One, 1),
        1 => (Quorum::Majority, 3),
        2 => (Quorum::All, 5),
        3 => (Quorum::N(NonZeroUsize::new(2).unwrap()), 2),
        // N(n) for n = 1..=8: also above the close-group size (records live on CLOSE_GROUP_SIZE + 2 nodes)
        n => {
            let n = 1 + (n as usize - 4) % 8;
            (Quorum::N(NonZeroUsize::new(n).unwrap()), n)
        }
    }
}

/// 520 ops of the fixed big-register owner, built once per process.
fn big_block(base: &SignedRegister, owner: &bls::SecretKey) -> &'static Vec<RegisterOp> {
    static BLOCK: std::sync::OnceLock<Vec<RegisterOp>> = std::sync::OnceLock::new();
    BLOCK.get_or_init(|| (0..520u32).map(|n| data::register_op(base, 10_000 + n, owner)).collect())
}

impl<'a> World<'a> {
    fn new(plan: &'a Plan, rep: RunReport, driver: SwarmDriver, network: Network) -> Self {
        let s = plan.seed;
        // the big-register block is signed once per process by a fixed owner
        let owner = if plan.big_register { data::bls_key(0xB16, 1) } else { data::bls_key(s, 1) };
        let stranger = data::bls_key(s, 2);
        let key_bytes = data::expected_owner_key(&owner.public_key());
        let key = RecordKey::new(&key_bytes);
        let base = data::base_register(&owner, [3u8; 32], &[], false);
        let mut versions = vec![];
        let mut seen_masks: Vec<(u8, u32)> = vec![];
        for (i, p) in plan.version_params.iter().enumerate() {
            let kind = match plan.kind {
                4 => 1 + (i as u8 % 3),
                5 => if i as u64 == plan.seed % plan.version_params.len() as u64 { 0 } else { 2 },
                k => k,
            };
            let mut mask = p % 64;
            // versions must differ in content
            while seen_masks.contains(&(kind, mask)) {
                mask = (mask & 32) | ((mask & 31) % 31 + 1);
            }
            seen_masks.push((kind, mask));
            let v = match kind {
                0 => Version {
                    bytes: data::chunk_value(format!("opaque version {p} of {s}").as_bytes()),
                    kind: VKind::Opaque,
                },
                1 => {
                    let mut ops = vec![];
                    for b in 0..5u32 {
                        if mask & (1 << b) != 0 {
                            ops.push(data::register_op(&base, b, &owner));
                        }
                    }
                    if plan.big_register {
                        ops.extend(big_block(&base, &owner).iter().cloned());
                    }
                    let mut verifies = true;
                    if mask & 32 != 0 {
                        // an op the register does not admit: signed by a stranger under its own name, or naming the
                        // owner as its source while carrying the stranger's signature
                        if i % 2 == 0 {
                            ops.push(data::register_op(&base, 100 + i as u32, &stranger));
                        } else {
                            ops.push(data::forged_register_op(&base, 100 + i as u32, &owner, &stranger));
                        }
                        verifies = false;
                    }
                    let reg = data::register_with_ops(&base, &ops);
                    Version {
                        bytes: data::register_value(&reg),
                        kind: VKind::Reg { ops: ops.into_iter().collect(), verifies },
                    }
                }
                2 => {
                    let mut txs = vec![];
                    for b in 0..5u32 {
                        if mask & (1 << b) != 0 {
                            txs.push(data::transaction(&owner, &stranger, b, true));
                        }
                    }
                    if mask & 32 != 0 {
                        txs.push(data::transaction(&owner, &stranger, 100 + i as u32, false));
                    }
                    Version {
                        bytes: data::transactions_value(&txs),
                        kind: VKind::Txs(txs.into_iter().collect()),
                    }
                }
                _ => {
                    let (counter, form) = if plan.kind == 4 { (1 + (p % 4) as u64, 0) } else { ((p / 4) as u64, p % 4) };
                    let form = match form {
                        0 => PadForm::Valid,
                        1 => PadForm::Unsigned,
                        2 => PadForm::ForeignSigner,
                        // the two forged forms alternate with the version index
                        _ if i % 2 == 0 => PadForm::InflatedCounter,
                        _ => PadForm::SubstitutedContent,
                    };
                    let pad = data::scratchpad(&owner, &stranger, counter, format!("pad {i}").as_bytes(), form);
                    Version {
                        bytes: data::scratchpad_value(&pad),
                        // validity by construction, not by asking the code under test
                        kind: VKind::Pad { counter: pad.count(), valid: form == PadForm::Valid },
                    }
                }
            };
            versions.push(v);
        }
        let peers = (0..8).map(|i| data::ed_key(s, 50 + i).public().to_peer_id()).collect();
        World {
            plan,
            rep,
            driver,
            network,
            key,
            versions,
            peers,
            callers: vec![],
            queries: vec![],
            step_count: 0,
        }
    }

    fn record_of(&self, v: usize) -> Record {
        Record {
            key: self.key.clone(),
            value: self.versions[v].bytes.clone(),
            publisher: None,
            expires: None,
        }
    }

    fn refresh_done(&mut self) {
        let pending: HashSet<QueryId> = self.driver.verif_pending_get_record().into_iter().map(|p| p.query_id).collect();
        for q in self.queries.iter_mut() {
            if !q.done && !pending.contains(&q.id) {
                q.done = true;
            }
        }
    }

    async fn drain(&mut self) {
        for _ in 0..1000 {
            settle().await;
            let mut n = 0;
            while let Some(cmd) = self.driver.verif_try_recv_network_cmd() {
                n += 1;
                match cmd {
                    NetworkSwarmCmd::GetNetworkRecord { key, sender, cfg } => {
                        let caller = if cfg.expected_holders.is_empty() {
                            // the only caller whose command is outstanding and that carries no tag
                            self.callers.iter().position(|c| c.untagged && (!c.cmd_handled || c.retrying))
                        } else {
                            self.callers.iter().position(|c| cfg.expected_holders.contains(&c.tag))
                        };
                        let before_list = self.driver.verif_pending_get_record();
                        let before: HashSet<QueryId> = before_list.iter().map(|p| p.query_id).collect();
                        let res = self.driver.verif_handle_network_cmd(NetworkSwarmCmd::GetNetworkRecord { key, sender, cfg });
                        let after = self.driver.verif_pending_get_record();
                        let new_q = after.iter().find(|p| !before.contains(&p.query_id)).map(|p| p.query_id);
                        if let Some(c) = caller {
                            self.callers[c].cmd_handled = true;
                            match new_q {
                                Some(id) => {
                                    let (q, t) = (self.callers[c].quorum, self.callers[c].target);
                                    self.queries.push(QueryModel { id, owner_quorum: q, owner_target: t, callers: vec![c], delivered: vec![], done: false });
                                    let qi = self.queries.len() - 1;
                                    self.callers[c].attached.push(qi);
                                    self.rep.log(format!("  driver: caller {c} starts query q{qi} ({})", if res.is_ok() { "ok" } else { "err" }));
                                }
                                None => {
                                    // attached to an in-flight query for the key: the one whose waiting list grew
                                    let grown = after.iter().find(|a| {
                                        before_list.iter().any(|b| b.query_id == a.query_id && a.waiting_callers > b.waiting_callers)
                                    }).map(|a| a.query_id);
                                    if let Some(qi) = grown.and_then(|id| self.queries.iter().position(|q| q.id == id)) {
                                        self.queries[qi].callers.push(c);
                                        self.callers[c].attached.push(qi);
                                        self.rep.probe("caller_attached_to_in_flight_query");
                                        self.rep.log(format!("  driver: caller {c} attached to in-flight query q{qi}"));
                                    } else {
                                        self.rep.harness_error = Some("caller attached but no in-flight query in the model".into());
                                    }
                                }
                            }
                        } else {
                            self.rep.harness_error = Some("GetNetworkRecord without caller tag".into());
                        }
                    }
                    other => {
                        let text: String = format!("{other:?}").chars().take(80).collect();
                        self.rep.log(format!("  driver: ignored {text}"));
                    }
                }
            }
            while let Some(cmd) = self.driver.verif_try_recv_local_cmd() {
                n += 1;
                let _ = self.driver.verif_handle_local_cmd(cmd);
            }
            if n == 0 {
                break;
            }
        }
        self.refresh_done();
        self.judge_finished_callers();
    }

    fn current_query(&self) -> Option<usize> {
        self.queries.iter().rposition(|q| !q.done)
    }

    /// What a caller received, described independently of serialisation order: a transaction set is
    /// the same value whatever order its members are written in.
    fn classify(&self, r: &Record) -> String {
        if let Ok(h) = RecordHeader::from_record(r) {
            if h.kind == RecordKind::Transaction {
                if let Ok(txs) = try_deserialize_record::<Vec<Transaction>>(r) {
                    let mut ids: Vec<String> = txs
                        .iter()
                        .map(|t| format!("{}{}", u32::from_le_bytes([t.content[0], t.content[1], t.content[2], t.content[3]]), if t.verify() { "" } else { "!" }))
                        .collect();
                    ids.sort();
                    ids.dedup();
                    return format!("txs{{{}}}", ids.join(","));
                }
            }
            if h.kind == RecordKind::Register {
                if let Ok(reg) = try_deserialize_record::<SignedRegister>(r) {
                    return format!("register with {} ops (verifies: {})", reg.ops().len(), reg.verify().is_ok());
                }
            }
        }
        match self.versions.iter().position(|v| v.bytes == r.value) {
            Some(v) => {
                let canon = (0..=v).find(|a| self.versions[*a].bytes == self.versions[v].bytes).unwrap_or(v);
                format!("v{canon}")
            }
            None => "merged/other".into(),
        }
    }

    /// The per-caller oracle, applied once when a caller's future has completed.
    fn judge_finished_callers(&mut self) {
        for c in 0..self.callers.len() {
            if self.callers[c].judged || self.callers[c].cancelled {
                continue;
            }
            let res = self.callers[c].result.lock().unwrap().clone();
            let Some(res) = res else { continue };
            self.callers[c].judged = true;
            let q_need = self.callers[c].quorum;
            let target = self.callers[c].target;
            let Some(&qi) = self.callers[c].attached.last() else {
                self.rep.harness_error = Some(format!("caller {c} finished without a query"));
                continue;
            };
            let delivered = self.queries[qi].delivered.clone();
            let owner_differs = self.queries[qi].owner_quorum != q_need || self.queries[qi].owner_target != target;
            let first = self.queries[qi].callers.first() == Some(&c);
            match res {
                Err(e) => {
                    self.rep.log(format!("caller {c} -> Err({e})"));
                    self.rep.probe("caller_got_error");
                    if let Some(n) = e.strip_prefix("SplitRecord#").and_then(|n| n.parse::<usize>().ok()) {
                        // differing content that is not merged reaches the caller as the FULL set of versions
                        let canon = |v: usize| (0..=v).find(|a| self.versions[*a].bytes == self.versions[v].bytes).unwrap_or(v);
                        let dv: BTreeSet<usize> = delivered.iter().map(|(_, v)| canon(*v as usize)).collect();
                        self.rep.probe("caller_got_split_record_error");
                        if n < dv.len() {
                            self.rep.violate(
                                "C05",
                                "split_error_does_not_carry_all_versions",
                                &[("first_caller", if first { "yes" } else { "no" }.into())],
                                format!("caller {c} received SplitRecord with {n} versions although {} differing versions had been delivered to its read", dv.len()),
                            );
                        }
                    }
                    if e.contains("InternalMsgChannelDropped") && self.queries[qi].callers.iter().any(|o| self.callers[*o].cancelled) {
                        self.rep.probe("caller_failed_with_channel_error_because_a_co_waiting_caller_was_cancelled");
                    }
                }
                Ok(r) => {
                    let cls = self.classify(&r);
                    self.rep.log(format!("caller {c} -> Ok({cls})"));
                    if r.key != self.key {
                        self.rep.violate("C05", "value_for_other_key", &[], format!("caller {c} received a record with another key"));
                        continue;
                    }
                    // (a) quorum of byte-identical copies from distinct peers, matching the caller's target
                    let version = self.versions.iter().position(|v| v.bytes == r.value);
                    let mut quorum_ok = false;
                    if let Some(v) = version {
                        // versions with identical bytes are one version
                        let same = |a: usize, b: usize| self.versions[a].bytes == self.versions[b].bytes;
                        let peers: BTreeSet<u8> = delivered.iter().filter(|(_, dv)| same(*dv as usize, v)).map(|(p, _)| *p).collect();
                        let target_ok = target.map(|t| same(t as usize, v)).unwrap_or(true);
                        quorum_ok = peers.len() >= q_need && target_ok;
                        if quorum_ok {
                            self.rep.probe("ok_by_quorum");
                            if delivered.iter().filter(|(_, dv)| same(*dv as usize, v)).count() > peers.len() {
                                self.rep.probe("quorum_reached_with_duplicate_replies_present");
                            }
                        }
                    }
                    // (b) the deterministic merge of the delivered versions
                    let canon = |v: usize| (0..=v).find(|a| self.versions[*a].bytes == self.versions[v].bytes).unwrap_or(v);
                    let delivered_versions: BTreeSet<usize> = delivered.iter().map(|(_, v)| canon(*v as usize)).collect();
                    let mut merge_ok = false;
                    if delivered_versions.len() > 1 {
                        let is_kind = |k: RecordKind| RecordHeader::from_record(&r).map(|h| h.kind == k).unwrap_or(false);
                        if is_kind(RecordKind::Transaction) {
                            if let Ok(got) = try_deserialize_record::<Vec<Transaction>>(&r) {
                                let mut want = BTreeSet::new();
                                for v in &delivered_versions {
                                    if let VKind::Txs(t) = &self.versions[*v].kind {
                                        want.extend(t.iter().cloned());
                                    }
                                }
                                merge_ok = !want.is_empty() && got.iter().cloned().collect::<BTreeSet<_>>() == want;
                            }
                        } else if is_kind(RecordKind::Register) {
                            if let Ok(got) = try_deserialize_record::<SignedRegister>(&r) {
                                let mut want = BTreeSet::new();
                                let mut any = false;
                                for v in &delivered_versions {
                                    if let VKind::Reg { ops, verifies } = &self.versions[*v].kind {
                                        if *verifies {
                                            any = true;
                                            want.extend(ops.iter().cloned());
                                        }
                                    }
                                }
                                merge_ok = any && *got.ops() == want;
                            }
                        } else if is_kind(RecordKind::Scratchpad) {
                            if let Ok(got) = try_deserialize_record::<Scratchpad>(&r) {
                                let best = delivered_versions
                                    .iter()
                                    .filter_map(|v| match &self.versions[*v].kind {
                                        VKind::Pad { counter, valid: true } => Some(*counter),
                                        _ => None,
                                    })
                                    .max();
                                merge_ok = got.is_valid()
                                    && Some(got.count()) == best
                                    && delivered_versions.iter().any(|v| self.versions[*v].bytes == r.value);
                            }
                        }
                        if merge_ok {
                            self.rep.probe("ok_by_merge_of_split_versions");
                        }
                    }
                    if quorum_ok && delivered_versions.len() > 1 && !merge_ok {
                        // enough peers agreed on this version, but other peers had returned differing content
                        // before the read completed: the caller must get the set / merge, not the pick
                        self.rep.violate(
                            "C05",
                            "one_version_returned_although_peers_differed",
                            &[],
                            format!(
                                "caller {c} (quorum {q_need}) got Ok({cls}) although {} differing versions had been delivered to the read before it completed and the value is not their merge",
                                delivered_versions.len()
                            ),
                        );
                    } else if !quorum_ok && !merge_ok {
                        let shape = if owner_differs && !first {
                            "attached_to_in_flight_query_of_caller_with_other_cfg"
                        } else {
                            "own_query"
                        };
                        let have = version
                            .map(|v| delivered.iter().filter(|(_, dv)| *dv as usize == v).map(|(p, _)| *p).collect::<BTreeSet<u8>>().len())
                            .unwrap_or(0);
                        self.rep.violate(
                            "C05",
                            "ok_without_quorum_or_merge",
                            &[("shape", shape.into())],
                            format!(
                                "caller {c} (quorum {q_need}, target {target:?}) got Ok({cls}) but only {have} distinct peers had delivered that content and it is not the merge of the {} delivered versions",
                                delivered_versions.len()
                            ),
                        );
                    }
                }
            }
        }
    }

    fn feed(&mut self, qi: usize, result: QueryResult, last: bool) {
        let id = self.queries[qi].id;
        let count = self.queries[qi].delivered.len().max(1);
        let ev = kad::Event::OutboundQueryProgressed {
            id,
            result,
            stats: QueryStats::empty(),
            step: ProgressStep {
                count: NonZeroUsize::new(count).unwrap(),
                last,
            },
        };
        let r = self.driver.verif_handle_kad_event(ev);
        if r.is_err() {
            self.rep.probe("kad_event_for_finished_query");
        }
    }

    async fn step(&mut self, step: &Step) {
        match step {
            Step::Call { quorum, target, retry } => {
                let c = self.callers.len();
                let (q, qv) = quorum_of(*quorum);
                let target = target.map(|t| t % self.plan.n_versions);
                let tag = data::ed_key(self.plan.seed, 900 + c as u64).public().to_peer_id();
                // callers are told apart by a tag in `expected_holders`; when no other caller's command is still
                // on its way to the driver, every other caller is sent without one (the usual reader names no holder)
                let untagged = self.callers.iter().all(|o| o.cmd_handled) && (self.plan.seed.rotate_right(c as u32) & 1) == 1;
                let is_register = matches!(target.map(|t| &self.versions[t as usize].kind), Some(VKind::Reg { .. }));
                let cfg = GetRecordCfg {
                    get_quorum: q,
                    retry_strategy: if *retry { Some(RetryStrategy::Quick) } else { None },
                    target_record: target.map(|t| self.record_of(t as usize)),
                    expected_holders: if untagged { Default::default() } else { [tag].into_iter().collect() },
                    is_register,
                };
                let result = Arc::new(Mutex::new(None));
                let net = self.network.clone();
                let key = self.key.clone();
                let res2 = result.clone();
                let result = res2.clone();
                let handle = tokio::spawn(async move {
                    let r = net.get_record_from_network(key, &cfg).await;
                    *result.lock().unwrap() = Some(r.map_err(|e: NetworkError| {
                        if let NetworkError::GetRecordError(ant_networking::GetRecordError::SplitRecord { result_map }) = &e {
                            // "the caller receives the full set of versions": remember how many it got
                            return format!("SplitRecord#{}", result_map.len());
                        }
                        let s = format!("{e:?}");
                        s.split(['(', '{', ' ']).next().unwrap_or("").to_string()
                    }));
                });
                self.callers.push(Caller { quorum: qv, target, tag, attached: vec![], result: res2, judged: false, cmd_handled: false, handle: Some(handle), cancelled: false, untagged, retrying: *retry });
                self.rep.ops += 1;
                self.rep.log(format!("call: caller {c} quorum={qv} target={target:?} retry={retry}"));
                self.drain().await;
            }
            Step::Run { sel } => {
                let gates = hooks::gates_pending();
                if gates.is_empty() {
                    self.rep.log("run: nothing parked");
                    return;
                }
                let idx = if *sel == u32::MAX { gates.len() - 1 } else { *sel as usize % gates.len() };
                if idx != 0 {
                    self.rep.nonfifo += 1;
                }
                self.rep.sched.write_u64(idx as u64);
                self.rep.log(format!("run {} #{idx}", gates[idx].site));
                hooks::gate_open(gates[idx].id);
                self.drain().await;
            }
            Step::Found { peer, version } => {
                let Some(qi) = self.current_query() else {
                    self.rep.log("found: no query in flight");
                    return;
                };
                let v = (*version % self.plan.n_versions) as usize;
                let p = *peer % 8;
                if self.queries[qi].delivered.iter().any(|(dp, _)| *dp == p) {
                    self.rep.fault("duplicate_or_changed_reply_from_peer");
                }
                self.queries[qi].delivered.push((p, v as u8));
                self.rep.sched.write_u64(1000 + p as u64 * 8 + v as u64);
                self.rep.ops += 1;
                self.rep.log(format!("found: q{qi} peer {p} version v{v}"));
                let rec = self.record_of(v);
                self.feed(qi, QueryResult::GetRecord(Ok(kad::GetRecordOk::FoundRecord(PeerRecord { peer: Some(self.peers[p as usize]), record: rec }))), false);
                self.drain().await;
            }
            Step::Finish { how } => {
                let Some(qi) = self.current_query() else {
                    self.rep.log("finish: no query in flight");
                    return;
                };
                let key = self.key.clone();
                let result = match how % 4 {
                    0 => QueryResult::GetRecord(Ok(kad::GetRecordOk::FinishedWithNoAdditionalRecord { cache_candidates: Default::default() })),
                    1 => QueryResult::GetRecord(Err(kad::GetRecordError::NotFound { key, closest_peers: vec![] })),
                    2 => QueryResult::GetRecord(Err(kad::GetRecordError::QuorumFailed { key, records: vec![], quorum: NonZeroUsize::new(1).unwrap() })),
                    _ => QueryResult::GetRecord(Err(kad::GetRecordError::Timeout { key })),
                };
                self.rep.fault(match how % 4 {
                    0 => "terminal_finished",
                    1 => "terminal_not_found",
                    2 => "terminal_quorum_failed",
                    _ => "terminal_timeout",
                });
                self.rep.ops += 1;
                self.rep.log(format!("finish: q{qi} how={}", how % 4));
                self.feed(qi, result, true);
                self.drain().await;
                // after the terminal event no entry for the query remains
                if self.driver.verif_pending_get_record().iter().any(|p| p.query_id == self.queries[qi].id) {
                    self.rep.violate("C05", "query_entry_left_after_terminal_event", &[], format!("q{qi} still pending after its terminal event"));
                }
                // every caller attached to it has exactly one outcome now (a retrying caller moves on to a new query)
                let attached = self.queries[qi].callers.clone();
                for c in attached {
                    if self.callers[c].cancelled {
                        continue;
                    }
                    let done = self.callers[c].result.lock().unwrap().is_some();
                    let moved_on = self.callers[c].attached.last() != Some(&qi);
                    let retrying = hooks::gates_pending().len() > 0 || tokio::runtime::Handle::current().metrics().num_alive_tasks() > 0;
                    if !done && !moved_on && !retrying {
                        self.rep.violate("C05", "caller_without_outcome_after_terminal_event", &[], format!("caller {c} has no outcome although q{qi} terminated"));
                    }
                }
            }
            Step::Advance { secs } => {
                simkit::rt::advance(Duration::from_secs(*secs as u64)).await;
                self.rep.sim_time_ms += *secs as u64 * 1000;
                self.rep.log(format!("advance {secs}s"));
                self.drain().await;
            }
            Step::Cancel { caller } => {
                if self.callers.is_empty() {
                    return;
                }
                let c = *caller as usize % self.callers.len();
                let has_outcome = self.callers[c].result.lock().unwrap().is_some();
                if has_outcome || self.callers[c].cancelled {
                    self.rep.log(format!("cancel: caller {c} already finished"));
                    return;
                }
                if let Some(h) = self.callers[c].handle.take() {
                    h.abort();
                }
                self.callers[c].cancelled = true;
                self.rep.fault("caller_cancelled");
                self.rep.ops += 1;
                self.rep.log(format!("cancel: caller {c} gives up (its future is dropped)"));
                self.drain().await;
            }
            Step::Settle => {
                for _ in 0..10_000 {
                    let gates = hooks::gates_pending();
                    let Some(g) = gates.first() else { break };
                    hooks::gate_open(g.id);
                    self.drain().await;
                }
                self.rep.log("settle");
            }
        }
    }

    async fn run(&mut self) {
        self.rep.log(format!(
            "getrecord sim: mode={} kind={} versions={} params={:?}",
            self.plan.mode, self.plan.kind, self.plan.n_versions, self.plan.version_params
        ));
        let steps = self.plan.steps.clone();
        for s in &steps {
            if self.rep.harness_error.is_some() || !self.rep.violations.is_empty() {
                break;
            }
            self.rep.steps += 1;
            self.step_count += 1;
            self.step(s).await;
        }
        // end of run: a caller whose command reached the driver and whose query terminated must have an outcome
        if self.rep.violations.is_empty() && self.rep.harness_error.is_none() {
            for c in 0..self.callers.len() {
                let done = self.callers[c].result.lock().unwrap().is_some();
                let last_q_done = self.callers[c].attached.last().map(|q| self.queries[*q].done).unwrap_or(false);
                let alive = tokio::runtime::Handle::current().metrics().num_alive_tasks();
                if self.callers[c].cmd_handled && !self.callers[c].cancelled && last_q_done && !done && hooks::gates_pending().is_empty() && alive == 0 {
                    self.rep.violate("C05", "caller_without_outcome_after_terminal_event", &[], format!("caller {c} never received an outcome"));
                }
            }
        }
        let mut st = String::new();
        for c in &self.callers {
            st.push_str(&format!("{:?};", c.result.lock().unwrap().as_ref().map(|r| r.as_ref().map(|x| x.value.len()).map_err(|e| e.clone()))));
        }
        self.rep.state.write_str(&st);
    }
}
