//! Executor and oracles of the `cluster` sim.

use crate::{Plan, Step};
use ant_evm::{QuoteHash, RewardsAddress};
use ant_networking::verif as nhooks;
use ant_networking::{NetworkError, NetworkEvent, MsgResponder};
use ant_protocol::messages::{Cmd, CmdResponse, Query, Request, Response};
use ant_protocol::storage::{try_deserialize_record, RecordType, Scratchpad, Transaction};
use ant_protocol::NetworkAddress;
use ant_registers::{RegisterOp, SignedRegister};
use evmlib::verif as ledger;
use libp2p::identity::Keypair;
use libp2p::kad::store::RecordStore;
use libp2p::kad::{self, Record, RecordKey};
use libp2p::PeerId;
use simkit::rt::settle;
use simkit::RunReport;
use simnode::data::{self, PadForm, QuoteSig};
use simnode::host::{peer_addr, scrub, NodeHost};
use std::collections::{BTreeMap, BTreeSet, HashMap};
use std::path::PathBuf;
use std::sync::atomic::{AtomicU64, Ordering};
use std::sync::{Arc, Mutex};
use std::time::Duration;
use tokio::sync::oneshot;

static RUN_COUNTER: AtomicU64 = AtomicU64::new(0);

struct RunDir(PathBuf);
impl Drop for RunDir {
    fn drop(&mut self) {
        let _ = std::fs::remove_dir_all(&self.0);
    }
}

type Reply = oneshot::Sender<Result<Response, NetworkError>>;

enum Payload {
    Req { req: Request, reply: Option<Reply>, held_at_send: Vec<(NetworkAddress, RecordType)> },
    Resp { resp: Response, reply: Reply },
}

struct Transit {
    id: u64,
    from: usize,
    /// destination node; None = a peer that is not simulated
    to: Option<usize>,
    payload: Payload,
}

struct Awaiting {
    from: usize,
    to: usize,
    rx: oneshot::Receiver<Result<Response, NetworkError>>,
    reply: Option<Reply>,
}

#[derive(Clone, Debug)]
enum Want {
    Chunk(Vec<u8>),
    /// any of these pads (equal highest counter)
    Pad(Vec<Scratchpad>),
    Txs(BTreeSet<Transaction>),
    Reg(Box<SignedRegister>, BTreeSet<RegisterOp>),
}

struct World<'a> {
    plan: &'a Plan,
    rep: RunReport,
    hosts: Vec<NodeHost>,
    fillers: Vec<(Keypair, PeerId)>,
    unknown: Keypair,
    transit: Vec<Transit>,
    awaiting: Vec<Awaiting>,
    next_msg: u64,
    rewards: RewardsAddress,
    chain: HashMap<QuoteHash, bool>,
    /// what every node must hold once replication has converged
    want: BTreeMap<Vec<u8>, Want>,
    uploads: u64,
    pad_owners: Vec<bls::SecretKey>,
    tx_owners: Vec<bls::SecretKey>,
    reg_owners: Vec<bls::SecretKey>,
    stranger: bls::SecretKey,
    foreign_keys: Vec<Vec<u8>>,
    /// held (key, type) set of each node when interval replication was last triggered
    /// responsible distance range set at a node (store + fetcher), as big-endian distance bytes
    ranges: Vec<Option<[u8; 32]>>,
    /// a transient disk-write error is armed for the node's next first-copy write of a replicated record
    disk_err_armed: Vec<bool>,
    /// node instances that were stopped by a restart: kept (never driven again) so that their tasks stay parked
    zombies: Vec<NodeHost>,
    /// pairs of nodes between which every message is lost
    cut: BTreeSet<(usize, usize)>,
    /// per node: the filler peers currently in its routing table (index into `fillers`)
    rt_fillers: Vec<Vec<usize>>,
    /// per node: filler peers that left its routing table
    retired: Vec<Vec<PeerId>>,
    /// per node: the peers it sent a replication list of its own to (collected during the final clean rounds)
    advertised_to: Vec<BTreeSet<PeerId>>,
    held_from_the_start: Vec<bool>,
}

pub fn execute(plan: &Plan, entropy: u64) -> RunReport {
    simkit::rt::block_on(entropy, async move {
        let n = RUN_COUNTER.fetch_add(1, Ordering::SeqCst);
        let root = PathBuf::from(format!("/dev/shm/antsim/{}/cluster-{n}", std::process::id()));
        let _guard = RunDir(root.clone());
        nhooks::gates_install();
        ledger::ledger_install();
        let mut rep = RunReport::default();
        let rewards = RewardsAddress::from([0x22u8; 20]);
        let mut hosts = vec![];
        for i in 0..plan.n_nodes as usize {
            match NodeHost::build(i, root.join(format!("n{i}")), data::ed_key(plan.seed, i as u64), None, if plan.cache == 0 { None } else { Some(plan.cache) }, rewards) {
                Ok(h) => hosts.push(h),
                Err(e) => {
                    rep.harness_error = Some(e);
                    return rep;
                }
            }
        }
        let s = plan.seed;
        let mut w = World {
            plan,
            rep,
            hosts,
            fillers: (0..(if plan.fillers == 0 { 2 } else { plan.fillers as u64 })).map(|i| { let k = data::ed_key(s, 100 + i); let p = k.public().to_peer_id(); (k, p) }).collect(),
            unknown: data::ed_key(s, 999),
            transit: vec![],
            awaiting: vec![],
            next_msg: 0,
            rewards,
            chain: HashMap::new(),
            want: BTreeMap::new(),
            uploads: 0,
            pad_owners: (0..2).map(|i| data::bls_key(s, 100 + i)).collect(),
            tx_owners: (0..2).map(|i| data::bls_key(s, 200 + i)).collect(),
            reg_owners: (0..2)
                .map(|i| if i == 0 && plan.big_registers { data::big_register_owner() } else { data::bls_key(s, 300 + i) })
                .collect(),
            stranger: data::bls_key(s, 401),
            foreign_keys: vec![],
            ranges: vec![None; plan.n_nodes as usize],
            disk_err_armed: vec![false; plan.n_nodes as usize],
            zombies: vec![],
            cut: BTreeSet::new(),
            rt_fillers: vec![(0..(if plan.fillers == 0 { 2 } else { plan.fillers as usize })).collect(); plan.n_nodes as usize],
            retired: vec![vec![]; plan.n_nodes as usize],
            advertised_to: vec![BTreeSet::new(); plan.n_nodes as usize],
            held_from_the_start: vec![],
        };
        w.run().await;
        nhooks::gates_uninstall();
        ledger::ledger_uninstall();
        w.rep
    })
}

fn kind_name(k: u8) -> &'static str {
    match k {
        0 => "chunk",
        1 => "scratchpad",
        2 => "transaction",
        _ => "register",
    }
}

impl<'a> World<'a> {
    fn node_of(&self, p: &PeerId) -> Option<usize> {
        self.hosts.iter().position(|h| h.peer == *p)
    }

    fn setup(&mut self) {
        let ids: Vec<PeerId> = self.hosts.iter().map(|h| h.peer).collect();
        for i in 0..self.hosts.len() {
            for (j, p) in ids.iter().enumerate() {
                if i != j {
                    self.hosts[i].driver.verif_add_peer(*p, peer_addr(j, p));
                }
            }
            for k in self.rt_fillers[i].clone() {
                let p = self.fillers[k].1;
                self.hosts[i].driver.verif_add_peer(p, peer_addr(50 + k, &p));
            }
        }
    }

    /// The peers node `a` replicates to, computed with the harness's own metric: the peers of its routing table within
    /// its responsible range when at least CLOSE_GROUP_SIZE are, else its CLOSE_GROUP_SIZE closest peers.
    fn replication_targets(&self, a: usize) -> Vec<PeerId> {
        let me = self.hosts[a].peer.to_bytes();
        let mut peers: Vec<([u8; 32], PeerId)> = self
            .hosts
            .iter()
            .enumerate()
            .filter(|(j, _)| *j != a)
            .map(|(_, h)| h.peer)
            .chain(self.rt_fillers[a].iter().map(|k| self.fillers[*k].1))
            .map(|p| (data::xor_distance(&me, &p.to_bytes()), p))
            .collect();
        peers.sort();
        if let Some(r) = &self.ranges[a] {
            let within: Vec<PeerId> = peers.iter().filter(|(d, _)| d <= r).map(|(_, p)| *p).collect();
            if within.len() >= ant_protocol::CLOSE_GROUP_SIZE {
                return within;
            }
        }
        peers.iter().take(ant_protocol::CLOSE_GROUP_SIZE).map(|(_, p)| *p).collect()
    }

    /// "A node advertises every record it holds to its replication targets": over the clean rounds at the end (ranges
    /// and routing tables no longer change, no message is lost) every node that holds records has sent a replication
    /// list of its own to every one of its replication targets, nodes and filler peers alike.
    fn check_every_target_was_advertised_to(&mut self) {
        for a in 0..self.hosts.len() {
            if self.hosts[a].store().verif_index().is_empty() || !self.held_from_the_start.get(a).copied().unwrap_or(false) {
                continue;
            }
            let targets = self.replication_targets(a);
            let missing: Vec<PeerId> = targets.iter().filter(|t| !self.advertised_to[a].contains(*t)).copied().collect();
            if let Some(m) = missing.first() {
                let what = if self.node_of(m).is_some() { "node" } else { "filler_peer" };
                self.rep.violate(
                    "C09",
                    "replication_target_never_advertised_to",
                    &[("target", what.into())],
                    format!("n{a} holds {} records and sent its replication list to {} peers during the clean rounds, but never to {} of its {} replication targets (first: a {what})", self.hosts[a].store().verif_index().len(), self.advertised_to[a].len(), missing.len(), targets.len()),
                );
                return;
            }
            self.rep.probe("every_replication_target_advertised_to");
        }
    }

    fn all_nodes_are_mutual_targets(&self) -> bool {
        (0..self.hosts.len()).all(|a| {
            let t = self.replication_targets(a);
            (0..self.hosts.len()).all(|b| a == b || t.contains(&self.hosts[b].peer))
        })
    }

    fn log_lines(&mut self, lines: Vec<String>) {
        for l in lines {
            let l = scrub(&l);
            let l: String = l.chars().take(200).collect();
            self.rep.log(l);
        }
    }

    /// everything that can happen without a scheduling decision
    async fn drain(&mut self) {
        for _ in 0..10_000 {
            settle().await;
            let mut n = 0;
            for i in 0..self.hosts.len() {
                let mut log = vec![];
                n += self.hosts[i].drain(&mut log);
                self.log_lines(log);
                // kad queries (replication fall-back) find nothing
                for p in self.hosts[i].driver.verif_pending_get_record() {
                    let ev = kad::Event::OutboundQueryProgressed {
                        id: p.query_id,
                        result: kad::QueryResult::GetRecord(Err(kad::GetRecordError::NotFound { key: p.key.clone(), closest_peers: vec![] })),
                        stats: kad::QueryStats::empty(),
                        step: kad::ProgressStep { count: std::num::NonZeroUsize::new(1).unwrap(), last: true },
                    };
                    let _ = self.hosts[i].driver.verif_handle_kad_event(ev);
                    self.rep.probe("kad_get_answered_not_found");
                    n += 1;
                }
                // outbound requests enter the simulated network
                let out: Vec<_> = self.hosts[i].outbox.drain(..).collect();
                for o in out {
                    n += 1;
                    let held: Vec<(NetworkAddress, RecordType)> = self.hosts[i].store().verif_record_addresses().into_iter().collect();
                    let to = self.node_of(&o.to);
                    // the replication-list oracle is evaluated at the moment the list is sent
                    if let Request::Cmd(Cmd::Replicate { holder, .. }) = &o.req {
                        if holder.as_peer_id() == Some(self.hosts[i].peer) {
                            self.advertised_to[i].insert(o.to);
                        }
                    }
                    if let Request::Cmd(Cmd::Replicate { holder, keys }) = &o.req {
                        if holder.as_peer_id() == Some(self.hosts[i].peer) && to.is_some() {
                            let keys = keys.clone();
                            self.check_replicate_list(i, &keys, &held);
                        }
                    }
                    let id = self.next_msg;
                    self.next_msg += 1;
                    self.transit.push(Transit { id, from: i, to, payload: Payload::Req { req: o.req, reply: o.reply, held_at_send: held } });
                }
            }
            // the ledger confirms every payment
            for r in ledger::ledger_pending() {
                n += 1;
                let mut res = [(QuoteHash::default(), ant_evm::Amount::ZERO, true); 3];
                for (i, (h, _)) in r.payments.iter().take(3).enumerate() {
                    res[i] = (*h, ant_evm::Amount::from(1u64), self.chain.get(h).copied().unwrap_or(false));
                }
                ledger::ledger_reply(r.id, ledger::LedgerReply::Results(res));
            }
            // answers produced by queried nodes become messages in transit
            let mut i = 0;
            while i < self.awaiting.len() {
                match self.awaiting[i].rx.try_recv() {
                    Ok(r) => {
                        n += 1;
                        let a = self.awaiting.remove(i);
                        if let (Ok(resp), Some(reply)) = (r, a.reply) {
                            let id = self.next_msg;
                            self.next_msg += 1;
                            self.transit.push(Transit { id, from: a.to, to: Some(a.from), payload: Payload::Resp { resp, reply } });
                        }
                    }
                    Err(oneshot::error::TryRecvError::Closed) => {
                        self.awaiting.remove(i);
                    }
                    Err(oneshot::error::TryRecvError::Empty) => i += 1,
                }
            }
            if n == 0 {
                break;
            }
        }
    }

    /// A periodic (multi-key) replication list must be exactly the sender's index as it was when the
    /// trigger command was handled, and every advertised content hash must be the hash of the record held.
    fn check_replicate_list(&mut self, from: usize, keys: &[(NetworkAddress, RecordType)], _held: &[(NetworkAddress, RecordType)]) {
        if keys.len() < 2 {
            // a single key is (almost always) a fresh-record notification; not comparable with the index
            return;
        }
        let list: BTreeSet<(Vec<u8>, String)> = keys.iter().map(|(a, t)| (a.to_record_key().to_vec(), format!("{t:?}"))).collect();
        // the list was built when one of the node's trigger commands was handled; it may be sent after a later
        // trigger has been handled, so it must equal the index as it was at one of them (newest first)
        let snaps = self.hosts[from].index_at_triggers.clone();
        let matching = snaps.iter().rev().find(|s| s.iter().map(|(k, t, _)| (k.clone(), t.clone())).collect::<BTreeSet<_>>() == list);
        if matching.is_some() && !std::ptr::eq(matching.unwrap(), snaps.last().unwrap()) {
            self.rep.probe("replicate_list_sent_after_a_later_trigger");
        }
        let snap = matching.cloned().unwrap_or_else(|| self.hosts[from].index_at_trigger.clone());
        let have: BTreeSet<(Vec<u8>, String)> = snap.iter().map(|(k, t, _)| (k.clone(), t.clone())).collect();
        if list != have {
            let missing = have.difference(&list).count();
            let extra = list.difference(&have).count();
            self.rep.violate(
                "C09",
                "replicate_list_differs_from_held_set",
                &[("shape", if extra > 0 { "advertises_unheld".into() } else { "omits_held".to_string() })],
                format!("node {from} advertised {} keys while its index held {} when the list was built: {missing} held records missing from the list, {extra} listed but not held", list.len(), have.len()),
            );
            return;
        }
        self.rep.probe("replicate_list_equals_held_set");
        if let Some((k, _, _)) = snap.iter().find(|(_, _, m)| *m == Some(false)) {
            self.rep.violate(
                "C09",
                "advertised_version_is_not_the_held_version",
                &[],
                format!("node {from} advertises record {} with a content hash that is not the hash of the record it holds (no write of it in flight)", hex::encode(&k[..6])),
            );
        } else if snap.iter().any(|(_, _, m)| m.is_none()) {
            self.rep.probe("advert_hash_not_comparable_for_some_keys");
        }
    }

    async fn deliver(&mut self, idx: usize) {
        let t = self.transit.remove(idx);
        self.rep.sched.write_u64(t.id);
        if let Some(to) = t.to {
            if self.cut.contains(&(t.from.min(to), t.from.max(to))) {
                self.rep.fault("message_lost_in_partition");
                self.rep.log(format!("net: #{} n{} -> n{to} lost (partitioned)", t.id, t.from));
                drop(t);
                self.drain().await;
                return;
            }
        }
        match t.payload {
            Payload::Req { req, reply, held_at_send } => {
                let Some(to) = t.to else {
                    self.rep.log(format!("net: #{} from n{} to an unsimulated peer: dropped", t.id, t.from));
                    return;
                };
                match req {
                    Request::Cmd(Cmd::Replicate { holder, keys }) => {
                        self.rep.log(format!("net: #{} n{} -> n{to} Replicate({} keys)", t.id, t.from, keys.len()));
                        let _ = &held_at_send;
                        self.hosts[to].driver.verif_handle_replicate_request(holder, keys);
                        if let Some(r) = reply {
                            let _ = r.send(Ok(Response::Cmd(CmdResponse::Replicate(Ok(())))));
                        }
                    }
                    Request::Query(query) => {
                        self.rep.log(scrub(&format!("net: #{} n{} -> n{to} {query:?}", t.id, t.from)).chars().take(160).collect::<String>());
                        if matches!(query, Query::GetReplicatedRecord { .. }) {
                            self.rep.probe("replication_fetch_request_delivered");
                        }
                        let (tx, rx) = oneshot::channel();
                        self.hosts[to].node.handle_network_event(NetworkEvent::QueryRequestReceived { query, channel: MsgResponder::FromSelf(Some(tx)) });
                        self.awaiting.push(Awaiting { from: t.from, to, rx, reply });
                    }
                    other => {
                        self.rep.log(format!("net: #{} n{} -> n{to} {other:?} (ignored)", t.id, t.from).chars().take(120).collect::<String>());
                    }
                }
            }
            Payload::Resp { resp, reply } => {
                self.rep.log(scrub(&format!("net: #{} n{} -> n{:?} response {resp:?}", t.id, t.from, t.to)).chars().take(140).collect::<String>());
                let _ = reply.send(Ok(resp));
            }
        }
        self.drain().await;
    }

    async fn run_item(&mut self, sel: u32) -> bool {
        let gates = nhooks::gates_pending();
        let total = gates.len() + self.transit.len();
        if total == 0 {
            return false;
        }
        let idx = if sel == u32::MAX { total - 1 } else { sel as usize % total };
        if idx != 0 {
            self.rep.nonfifo += 1;
        }
        if idx < gates.len() {
            self.rep.sched.write_str(gates[idx].site);
            let planted = self.maybe_plant_disk_error(&gates[idx]);
            nhooks::gate_open(gates[idx].id);
            self.drain().await;
            if let Some(p) = planted {
                // the error was transient
                let _ = std::fs::remove_dir(&p);
            }
        } else {
            self.deliver(idx - gates.len()).await;
        }
        true
    }

    /// A parked disk write of the FIRST copy of a record that node fetched through replication fails once
    /// (a directory occupies the file path) when a disk error is armed for the node. Only writes whose loss
    /// loses nothing are failed: the node does not hold the key, and another node holds the same bytes.
    fn maybe_plant_disk_error(&mut self, g: &nhooks::GateInfo) -> Option<PathBuf> {
        if g.site != "store.write" {
            return None;
        }
        let path = PathBuf::from(g.detail.trim_matches('"'));
        let key = hex::decode(path.file_name()?.to_str()?).ok()?;
        let node_dir = path.parent()?.parent()?.file_name()?.to_str()?.to_string();
        let node: usize = node_dir.strip_prefix('n')?.parse().ok()?;
        if node >= self.hosts.len() || !self.disk_err_armed[node] {
            return None;
        }
        let rk = RecordKey::new(&key);
        if self.hosts[node].store().verif_index().iter().any(|(k, _, _)| *k == rk) {
            return None;
        }
        let mine = self.read(node, &key)?;
        let mut backed = false;
        for a in 0..self.hosts.len() {
            if a != node && self.hosts[a].store().verif_index().iter().any(|(k, _, _)| *k == rk) {
                if self.read(a, &key).map(|r| r.value == mine.value).unwrap_or(false) {
                    backed = true;
                }
            }
        }
        if !backed || std::fs::create_dir(&path).is_err() {
            return None;
        }
        self.disk_err_armed[node] = false;
        self.rep.fault("disk_write_error_on_first_replicated_copy");
        self.rep.log(format!("n{node}: the disk write of the replicated record {} fails (transient)", hex::encode(&key[..3])));
        Some(path)
    }

    /// run every parked task and timer, deliver nothing
    async fn pump_local(&mut self) {
        for round in 0..30 {
            for _ in 0..200_000 {
                self.drain().await;
                let gates = nhooks::gates_pending();
                let Some(g) = gates.first() else { break };
                self.rep.sched.write_str(g.site);
                nhooks::gate_open(g.id);
            }
            self.drain().await;
            let alive = tokio::runtime::Handle::current().metrics().num_alive_tasks();
            if alive == 0 || round >= 13 {
                break;
            }
            simkit::rt::advance(Duration::from_millis(100)).await;
            self.rep.sim_time_ms += 100;
        }
    }

    async fn pump_fifo(&mut self) {
        for round in 0..30 {
            for _ in 0..200_000 {
                self.drain().await;
                if !self.run_item(0).await {
                    break;
                }
            }
            let alive = tokio::runtime::Handle::current().metrics().num_alive_tasks();
            if alive == 0 || round >= 13 {
                break;
            }
            simkit::rt::advance(Duration::from_millis(100)).await;
            self.rep.sim_time_ms += 100;
        }
    }

    fn read(&mut self, node: usize, key: &[u8]) -> Option<Record> {
        self.hosts[node].store().get(&RecordKey::new(&key)).map(|c| c.into_owned())
    }

    fn holds(&self, got: &Record, want: &Want) -> bool {
        match want {
            Want::Chunk(c) => got.value == data::chunk_value(c),
            Want::Pad(pads) => pads.iter().any(|p| got.value == data::scratchpad_value(p)),
            Want::Txs(set) => try_deserialize_record::<Vec<Transaction>>(got).map(|v| v.into_iter().collect::<BTreeSet<_>>() == *set).unwrap_or(false),
            Want::Reg(base, ops) => try_deserialize_record::<SignedRegister>(got).map(|g| g.base_register() == base.base_register() && g.ops() == ops).unwrap_or(false),
        }
    }

    fn converged(&mut self) -> Vec<(usize, Vec<u8>, &'static str)> {
        let mut bad = vec![];
        let want = self.want.clone();
        for (key, w) in &want {
            for n in 0..self.hosts.len() {
                // a node fetches (and updates) only records within its responsible range, when it has one
                if let Some(range) = &self.ranges[n] {
                    if data::xor_distance(&self.hosts[n].peer.to_bytes(), key) > *range {
                        self.rep.probe("pair_out_of_the_nodes_responsible_range");
                        continue;
                    }
                }
                // held = in the node's index (what it advertises and counts), not merely served from its cache
                let rk = RecordKey::new(key);
                if !self.hosts[n].store().verif_index().iter().any(|(k, _, _)| *k == rk) {
                    bad.push((n, key.clone(), "missing"));
                    continue;
                }
                match self.read(n, key) {
                    None => bad.push((n, key.clone(), "missing")),
                    Some(r) => {
                        if !self.holds(&r, w) {
                            bad.push((n, key.clone(), "differs"));
                        }
                    }
                }
            }
        }
        bad
    }

    async fn round(&mut self, label: &str) {
        for i in 0..self.hosts.len() {
            self.hosts[i].driver.verif_age(Duration::from_secs(35));
            self.hosts[i].node.try_interval_replication();
        }
        self.rep.sim_time_ms += 35_000;
        self.rep.log(format!("round {label}: clocks +35 s, interval replication triggered at every node"));
        self.pump_fifo().await;
    }

    async fn upload(&mut self, node: usize, kind: u8, who: u8, counter: u8, items: &[u8]) {
        let uid = self.uploads;
        self.uploads += 1;
        let me = &self.hosts[node];
        // payees: this node and two peers it knows
        let mut payees: Vec<(Keypair, PeerId)> = vec![(me.keypair.clone(), me.peer)];
        for (j, h) in self.hosts.iter().enumerate() {
            if j != node && payees.len() < 3 {
                payees.push((h.keypair.clone(), h.peer));
            }
        }
        for f in &self.fillers {
            if payees.len() < 3 {
                payees.push(f.clone());
            }
        }
        let (key, value, new_want): (Vec<u8>, Vec<u8>, Option<Want>) = {
            let make_proof = |w: &mut World, key: &[u8]| {
                let mut content = [0u8; 32];
                content.copy_from_slice(&key[..32]);
                let quotes = payees
                    .iter()
                    .enumerate()
                    .map(|(i, (kp, pid))| {
                        let q = data::quote(kp, &w.unknown, content, 90, w.rewards, QuoteSig::Valid, uid * 8 + i as u64);
                        w.chain.insert(q.hash(), true);
                        (*pid, q)
                    })
                    .collect();
                data::proof(quotes)
            };
            match kind {
                0 => {
                    let mut c = format!("cluster chunk {} seed {}", who % 3, self.plan.seed).into_bytes();
                    c.resize(80 + who as usize * 9, 0x5a);
                    let key = data::expected_chunk_key(&c);
                    let proof = make_proof(self, &key);
                    let w = if self.want.contains_key(&key) { None } else { Some(Want::Chunk(c.clone())) };
                    (key, data::chunk_paid_value(&c, &proof), w)
                }
                1 => {
                    let owner = self.pad_owners[who as usize % 2].clone();
                    let key = data::expected_owner_key(&owner.public_key());
                    let pad = data::scratchpad(&owner, &self.stranger, counter.max(1) as u64, format!("pad {uid}").as_bytes(), PadForm::Valid);
                    let proof = make_proof(self, &key);
                    // accepted at this node only if higher than what this node holds
                    let local = self.read(node, &key).and_then(|r| try_deserialize_record::<Scratchpad>(&r).ok()).map(|p| p.count());
                    let accepted = local.map(|c| pad.count() > c).unwrap_or(true);
                    let w = if accepted {
                        match self.want.get(&key) {
                            Some(Want::Pad(ps)) if ps[0].count() > pad.count() => None,
                            Some(Want::Pad(ps)) if ps[0].count() == pad.count() => {
                                let mut v = ps.clone();
                                v.push(pad.clone());
                                Some(Want::Pad(v))
                            }
                            _ => Some(Want::Pad(vec![pad.clone()])),
                        }
                    } else {
                        None
                    };
                    (key, data::scratchpad_paid_value(&pad, &proof), w)
                }
                2 => {
                    let owner = self.tx_owners[who as usize % 2].clone();
                    let key = data::expected_owner_key(&owner.public_key());
                    let tx = data::transaction(&owner, &self.stranger, items[0] as u32, true);
                    let proof = make_proof(self, &key);
                    let mut set = match self.want.get(&key) {
                        Some(Want::Txs(s)) => s.clone(),
                        _ => BTreeSet::new(),
                    };
                    set.insert(tx.clone());
                    (key, data::transaction_paid_value(&tx, &proof), Some(Want::Txs(set)))
                }
                _ => {
                    let owner = self.reg_owners[who as usize % 2].clone();
                    let mut meta = [9u8; 32];
                    meta[0] = who % 2;
                    let key = data::expected_register_key(&meta, &owner.public_key());
                    let base = data::base_register(&owner, meta, &[], false);
                    let late = if self.plan.big_registers && who % 2 == 0 { 0xF0 } else { 0 };
                    let mut ops: Vec<RegisterOp> = items.iter().map(|i| data::register_op(&base, late + *i as u32, &owner)).collect();
                    if self.plan.big_registers && who % 2 == 0 {
                        ops.extend(data::big_block(&base, 560 + 8 * (counter as u32 % 6)));
                        self.rep.probe("big_register_uploaded");
                    }
                    let reg = data::register_with_ops(&base, &ops);
                    let proof = make_proof(self, &key);
                    let mut all = match self.want.get(&key) {
                        Some(Want::Reg(_, o)) => o.clone(),
                        _ => BTreeSet::new(),
                    };
                    all.extend(ops.iter().cloned());
                    (key, data::register_paid_value(&reg, &proof), Some(Want::Reg(Box::new(base), all)))
                }
            }
        };
        self.rep.ops += 1;
        self.rep.sched.write_str(&format!("up{node}{kind}{who}{counter}{items:?}"));
        self.rep.log(format!("upload #{uid} at n{node}: {} who={who} counter={counter} items={items:?}", kind_name(kind)));
        let result = Arc::new(Mutex::new(None));
        let (nodeh, res) = (self.hosts[node].node.clone(), result.clone());
        let record = data::rec(&key, value);
        tokio::spawn(async move {
            let r = nodeh.validate_and_store_record(record).await;
            *res.lock().unwrap() = Some(r.map_err(|e| e.to_string()));
        });
        if self.plan.mode == "fault" {
            // the node processes the upload; what it sends stays in transit for the fault steps to act on
            self.pump_local().await;
        } else {
            self.pump_fifo().await;
        }
        let r = result.lock().unwrap().clone();
        self.rep.log(format!("  upload #{uid} -> {r:?}"));
        if let Some(w) = new_want {
            // only what a node really accepted counts
            let stored_ok = self.read(node, &key).map(|g| self.holds(&g, &w) || matches!(w, Want::Reg(..) | Want::Txs(..))).unwrap_or(false);
            if stored_ok {
                // for merged kinds the node holds a subset of the global union; for pads / chunks exactly w
                self.want.insert(key, w);
            } else {
                self.rep.probe("upload_not_stored_by_its_node");
            }
        }
    }

    async fn run(&mut self) {
        self.setup();
        self.drain().await;
        self.rep.log(format!("cluster sim: mode={} nodes={}", self.plan.mode, self.hosts.len()));
        let steps = self.plan.steps.clone();
        for step in &steps {
            if self.rep.harness_error.is_some() || !self.rep.violations.is_empty() {
                break;
            }
            self.rep.steps += 1;
            match step {
                Step::Upload { node, kind, who, counter, items } => {
                    let node = *node as usize % self.hosts.len();
                    self.upload(node, *kind % 4, *who, *counter, items).await;
                }
                Step::Round => self.round("(in plan)").await,
                Step::Trigger { node } => {
                    let i = *node as usize % self.hosts.len();
                    self.hosts[i].driver.verif_age(Duration::from_secs(35));
                            self.hosts[i].node.try_interval_replication();
                    self.rep.sim_time_ms += 35_000;
                    self.rep.log(format!("trigger interval replication at n{i}"));
                    self.drain().await;
                }
                Step::SetRange { node, sel } => {
                    let i = *node as usize % self.hosts.len();
                    let me = self.hosts[i].peer.to_bytes();
                    let mut ds: Vec<[u8; 32]> = self.want.keys().map(|k| data::xor_distance(&me, k)).collect();
                    ds.sort();
                    if ds.is_empty() {
                        self.rep.log("set range: no records yet");
                    } else {
                        let d = ds[*sel as usize % ds.len()];
                        self.ranges[i] = Some(d);
                        self.hosts[i].driver.verif_set_responsible_range(ant_evm::U256::from_be_bytes(d));
                        self.rep.fault("responsible_range_set");
                        self.rep.log(format!("n{i}: responsible range set to the distance of its {}-th closest record of {}", *sel as usize % ds.len() + 1, ds.len()));
                    }
                }
                Step::SetPeerRange { node, j } => {
                    let i = *node as usize % self.hosts.len();
                    let me = self.hosts[i].peer.to_bytes();
                    let mut ds: Vec<[u8; 32]> = self
                        .hosts
                        .iter()
                        .enumerate()
                        .filter(|(k, _)| *k != i)
                        .map(|(_, h)| h.peer)
                        .chain(self.rt_fillers[i].iter().map(|k| self.fillers[*k].1))
                        .map(|p| data::xor_distance(&me, &p.to_bytes()))
                        .collect();
                    ds.sort();
                    let d = ds[(*j as usize).clamp(1, ds.len()) - 1];
                    self.ranges[i] = Some(d);
                    self.hosts[i].driver.verif_set_responsible_range(ant_evm::U256::from_be_bytes(d));
                    self.rep.fault("responsible_range_set_by_peer_rank");
                    self.rep.log(format!("n{i}: responsible range set to the distance of its {}-th closest peer of {}", (*j as usize).clamp(1, ds.len()), ds.len()));
                }
                Step::Churn { node, which } => {
                    let i = *node as usize % self.hosts.len();
                    // fillers 0 and 1 are payees of the uploads and stay
                    let extra: Vec<usize> = self.rt_fillers[i].iter().copied().filter(|k| *k >= 2).collect();
                    if extra.is_empty() {
                        self.rep.log("churn: no extra filler peer in this routing table");
                    } else {
                        let leaving = extra[*which as usize % extra.len()];
                        let gone = self.fillers[leaving].1;
                        let k = data::ed_key(self.plan.seed, 500 + self.fillers.len() as u64);
                        let joining = k.public().to_peer_id();
                        self.fillers.push((k, joining));
                        let new_idx = self.fillers.len() - 1;
                        let removed = self.hosts[i].driver.verif_remove_peer(&gone);
                        let added = self.hosts[i].driver.verif_add_peer(joining, peer_addr(50 + new_idx, &joining));
                        if !removed || !added {
                            self.rep.harness_error = Some(format!("churn at n{i}: removed={removed} added={added}"));
                            return;
                        }
                        self.rt_fillers[i].retain(|k| *k != leaving);
                        self.rt_fillers[i].push(new_idx);
                        self.retired[i].push(gone);
                        self.rep.fault("routing_table_churn");
                        self.rep.log(format!("n{i}: filler peer #{leaving} left its routing table, filler peer #{new_idx} joined"));
                        self.drain().await;
                    }
                }
                Step::Partition { a, b } => {
                    let (a, b) = (*a as usize % self.hosts.len(), *b as usize % self.hosts.len());
                    if a != b {
                        self.cut.insert((a.min(b), a.max(b)));
                        self.rep.fault("partition");
                        self.rep.log(format!("net: n{a} and n{b} partitioned"));
                    }
                }
                Step::Heal => {
                    if !self.cut.is_empty() {
                        self.cut.clear();
                        self.rep.log("net: partitions healed");
                    }
                }
                Step::Restart { node } => {
                    let i = *node as usize % self.hosts.len();
                    // a clean stop: everything the node has accepted locally completes first (what was
                    // acknowledged to an uploader is durable); messages stay in transit
                    self.pump_local().await;
                    if !nhooks::gates_pending().is_empty() {
                        self.rep.log(format!("restart of n{i} skipped: local work still pending"));
                    } else {
                        let (root, kp) = (self.hosts[i].root.clone(), self.hosts[i].keypair.clone());
                        match NodeHost::build(i, root, kp, None, if self.plan.cache == 0 { None } else { Some(self.plan.cache) }, self.rewards) {
                            Ok(h) => {
                                let old = std::mem::replace(&mut self.hosts[i], h);
                                self.zombies.push(old);
                                let ids: Vec<PeerId> = self.hosts.iter().map(|h| h.peer).collect();
                                for (j, p) in ids.iter().enumerate() {
                                    if i != j {
                                        self.hosts[i].driver.verif_add_peer(*p, peer_addr(j, p));
                                    }
                                }
                                for k in self.rt_fillers[i].clone() {
                                    let p = self.fillers[k].1;
                                    self.hosts[i].driver.verif_add_peer(p, peer_addr(50 + k, &p));
                                }
                                // the responsible range is not persisted
                                self.ranges[i] = None;
                                self.rep.fault("node_restarted");
                                self.rep.log(format!("n{i} restarted from its directory ({} records indexed)", self.hosts[i].store().verif_index().len()));
                                self.drain().await;
                            }
                            Err(e) => self.rep.harness_error = Some(format!("restart of n{i}: {e}")),
                        }
                    }
                }
                Step::DiskErr { node } => {
                    let i = *node as usize % self.hosts.len();
                    self.disk_err_armed[i] = true;
                    self.rep.log(format!("n{i}: disk error armed for its next first-copy write of a replicated record"));
                }
                Step::Run { sel } => {
                    if !self.run_item(*sel).await {
                        self.rep.log("run: nothing pending");
                    }
                }
                Step::Drop { sel } => {
                    if !self.transit.is_empty() {
                        let idx = *sel as usize % self.transit.len();
                        let t = self.transit.remove(idx);
                        self.rep.fault("message_lost");
                        self.rep.log(format!("net: message #{} from n{} lost", t.id, t.from));
                        drop(t);
                        self.drain().await;
                    }
                }
                Step::Dup { sel } => {
                    if !self.transit.is_empty() {
                        let idx = *sel as usize % self.transit.len();
                        if let Payload::Req { req, held_at_send, .. } = &self.transit[idx].payload {
                            let id = self.next_msg;
                            self.next_msg += 1;
                            let (from, to) = (self.transit[idx].from, self.transit[idx].to);
                            let copy = Transit { id, from, to, payload: Payload::Req { req: req.clone(), reply: None, held_at_send: held_at_send.clone() } };
                            self.transit.push(copy);
                            self.rep.fault("message_duplicated");
                            self.rep.log(format!("net: request duplicated as #{id}"));
                        }
                    }
                }
                Step::ForeignAdvert { node } => {
                    let i = *node as usize % self.hosts.len();
                    // the sender: a peer the node never knew, or (every other time) one that left its routing table
                    let u = match self.retired[i].last() {
                        Some(p) if self.foreign_keys.len() % 2 == 0 => {
                            self.rep.fault("advert_from_peer_that_left_the_routing_table");
                            *p
                        }
                        _ => self.unknown.public().to_peer_id(),
                    };
                    let fake = data::seed_bytes(self.plan.seed, "foreign-advert", self.foreign_keys.len() as u64).to_vec();
                    self.foreign_keys.push(fake.clone());
                    // alternately: a list of two keys (an unknown one and a real one this node may lack), a single
                    // unknown key, a single real key (single-key lists take the fetcher's immediate-fetch path)
                    let real = self.want.keys().nth(self.foreign_keys.len() % self.want.len().max(1)).cloned();
                    let fake_k = (NetworkAddress::from_record_key(&RecordKey::new(&fake)), RecordType::Chunk);
                    let keys = match (self.foreign_keys.len() % 3, real) {
                        (1, _) | (_, None) => vec![fake_k],
                        (2, Some(k)) => vec![(NetworkAddress::from_record_key(&RecordKey::new(&k)), RecordType::Chunk)],
                        (_, Some(k)) => vec![fake_k, (NetworkAddress::from_record_key(&RecordKey::new(&k)), RecordType::Chunk)],
                    };
                    self.rep.fault("advert_from_peer_not_among_closest");
                    self.rep.log(format!("net: unknown peer sends a replication list of {} keys to n{i}", keys.len()));
                    self.hosts[i].driver.verif_handle_replicate_request(NetworkAddress::from_peer(u), keys);
                    self.drain().await;
                    let queued = self.hosts[i].driver.verif_fetcher_queued().into_iter().any(|(_, _, h)| h == u);
                    let flying = self.hosts[i].driver.verif_fetcher_in_flight().into_iter().any(|(_, _, h)| h == u);
                    let asked = self.transit.iter().any(|t| t.from == i && t.to.is_none() && matches!(&t.payload, Payload::Req { req: Request::Query(Query::GetReplicatedRecord { .. }), .. }));
                    if queued || flying || asked {
                        self.rep.violate("C09", "acted_on_advert_from_non_close_peer", &[], format!("n{i} scheduled fetches for a replication list sent by a peer that is not among its closest"));
                    }
                }
            }
        }
        if self.rep.harness_error.is_some() || !self.rep.violations.is_empty() {
            return;
        }
        // faults have stopped: bounded convergence
        self.cut.clear();
        for a in self.disk_err_armed.iter_mut() {
            *a = false;
        }
        let mut converged_at = None;
        for a in self.advertised_to.iter_mut() {
            a.clear();
        }
        // the advertise-to-every-target rule applies to nodes that hold records throughout the clean rounds
        self.held_from_the_start = (0..self.hosts.len()).map(|a| !self.hosts[a].store().verif_index().is_empty()).collect();
        if !self.all_nodes_are_mutual_targets() {
            // some node is not among another node's replication targets (bigger routing tables): that pair does not
            // exchange lists, nothing obliges the replicas to converge
            for r in 0..3 {
                self.round(&format!("final {}", r + 1)).await;
            }
            self.rep.probe("not_all_nodes_are_mutual_replication_targets");
            self.rep.log("convergence not required: not every node is a replication target of every other node");
            if self.rep.violations.is_empty() {
                self.check_every_target_was_advertised_to();
            }
            return;
        }
        if self.plan.fillers != 0 && self.ranges.iter().any(|r| r.is_some()) {
            self.rep.probe("mutual_targets_in_a_big_routing_table_with_a_range");
        }
        for r in 0..self.plan.final_rounds {
            self.round(&format!("final {}", r + 1)).await;
            if !self.rep.violations.is_empty() {
                return;
            }
            if converged_at.is_none() && self.converged().is_empty() {
                converged_at = Some(r + 1);
            }
            // a peer is sent a list at most every 45 s and the rounds are 35 s apart: three rounds give every
            // replication target its turn
            if converged_at.is_some() && r >= 2 {
                break;
            }
        }
        if self.rep.violations.is_empty() {
            self.check_every_target_was_advertised_to();
            if !self.rep.violations.is_empty() {
                return;
            }
        }
        match converged_at {
            Some(r) => {
                self.rep.probe("converged");
                self.rep.probe_n("rounds_to_converge", r as u64);
                self.rep.log(format!("converged after {r} clean rounds ({} keys)", self.want.len()));
            }
            None => {
                let bad = self.converged();
                let (n, key, how) = bad[0].clone();
                let kind = match self.want.get(&key) {
                    Some(Want::Chunk(_)) => "chunk",
                    Some(Want::Pad(_)) => "scratchpad",
                    Some(Want::Txs(_)) => "transaction",
                    _ => "register",
                };
                self.rep.violate(
                    "C09",
                    "not_converged_after_clean_rounds",
                    &[("kind", kind.into()), ("how", how.into())],
                    format!("after {} clean replication rounds n{n} {} the {kind} record {} ({} node/key pairs off)", self.plan.final_rounds, if how == "missing" { "still lacks" } else { "holds another version of" }, hex::encode(&key[..6]), bad.len()),
                );
            }
        }
        let mut st = String::new();
        for (k, w) in &self.want {
            st.push_str(&hex::encode(&k[..3]));
            st.push_str(match w { Want::Chunk(_) => "c", Want::Pad(_) => "p", Want::Txs(_) => "t", Want::Reg(..) => "r" });
        }
        self.rep.state.write_str(&st);
    }
}
