//! sim `cluster` (C09): two or three full simulated nodes (Node + SwarmDriver + store + fetcher each)
//! whose routing tables contain each other; the simulator is the transport between them (Cmd::Replicate,
//! Query::GetReplicatedRecord and the responses) with delay, reordering, duplication and loss.

mod world;

use serde::{Deserialize, Serialize};
use simkit::{GenCtx, PropertySpec, Rng, RunReport, Sim, Tier};

#[derive(Serialize, Deserialize, Clone, Debug, PartialEq)]
#[serde(tag = "t")]
pub enum Step {
    /// a client upload (valid payment) accepted at `node`: kind 0 chunk, 1 scratchpad, 2 transaction, 3 register;
    /// `who` = content id / owner; scratchpad counter; items = tx ids / register op ids
    Upload { node: u8, kind: u8, who: u8, counter: u8, items: Vec<u8> },
    /// one replication round: every node's clock moves past the 30 s throttle and it triggers interval replication;
    /// then everything is delivered in FIFO order
    Round,
    /// trigger interval replication at one node only (no delivery)
    Trigger { node: u8 },
    /// deliver / run the `sel`-th pending item (parked task or message in transit)
    Run { sel: u32 },
    /// lose the `sel`-th message in transit
    Drop { sel: u32 },
    /// duplicate the `sel`-th request in transit
    Dup { sel: u32 },
    /// a peer that is not among the closest sends a replication list to `node`
    ForeignAdvert { node: u8 },
    /// the node's responsible range (store + fetcher) is set to the distance of its `sel`-th closest record:
    /// it keeps and advertises what it holds beyond the range but no longer fetches such records
    SetRange { node: u8, sel: u8 },
    /// the next disk write of a first copy fetched through replication fails once at `node` (transient error)
    DiskErr { node: u8 },
    /// clean stop and restart of `node` from its directory (only durable state survives: cache, fetcher state,
    /// responsible range and routing table are rebuilt); messages addressed to it stay in transit
    Restart { node: u8 },
    /// every message between `a` and `b` is lost until `Heal` (or until the faults stop)
    Partition { a: u8, b: u8 },
    Heal,
    /// the node's responsible range is set to the distance of its `j`-th closest PEER: exactly j peers of its
    /// routing table lie within the range (fewer than CLOSE_GROUP_SIZE in range: the closest CLOSE_GROUP_SIZE remain
    /// its replication targets)
    SetPeerRange { node: u8, j: u8 },
    /// routing-table churn at `node`: one of its extra filler peers leaves the table and a peer never seen before
    /// joins (the table keeps its size); what the peer that left advertises afterwards must be ignored
    Churn { node: u8, which: u8 },
}

#[derive(Serialize, Deserialize, Clone, Debug)]
pub struct Plan {
    pub property: String,
    pub mode: String,
    pub seed: u64,
    pub n_nodes: u8,
    pub steps: Vec<Step>,
    /// clean rounds at the end, after faults have stopped
    pub final_rounds: u8,
    /// swarm knob: size of each node's in-memory record cache (0 = default 25)
    #[serde(default)]
    pub cache: usize,
    /// swarm knob: register 0 belongs to the fixed big-register owner; every upload of it carries a share (505..520)
    /// of that owner's pre-signed block of ops, so divergent replicas each hold more than half the entry limit
    #[serde(default)]
    pub big_registers: bool,
    /// swarm knob: number of filler peers in every routing table (0 = 2, the historic value); with more than 2 a
    /// node has more peers than CLOSE_GROUP_SIZE and not every node is every other node's replication target
    #[serde(default)]
    pub fillers: u8,
}

pub struct ClusterSim;

impl Sim for ClusterSim {
    type Plan = Plan;
    const NAME: &'static str = "cluster";

    fn properties() -> Vec<PropertySpec> {
        vec![PropertySpec {
            id: "C09",
            level: "exploration",
            modes: vec!["nofault", "fault"],
            quick_runs: 3_000,
            thorough_runs: 12_000,
            rule: "One run = 2..3 full real nodes in one process, each accepting seeded client uploads (all four kinds; divergent versions of the same mutable record at different nodes), then replication rounds (clock past the 30 s throttle, TriggerIntervalReplication, Replicate lists, GetReplicatedRecord fetches, store_replicated_in_record) over a simulated transport; mode fault delays, reorders, duplicates and loses messages, fails the first disk write of a replicated copy once, partitions pairs of nodes, restarts nodes from their directories, and injects advertisements from a peer that is not among the closest. After the faults stop, 6 clean rounds follow and all nodes must hold byte-identical immutable records and converged mutable records (merged register, union of transactions, highest scratchpad). Every Replicate list must equal the sender's held set. Non-trivial = >= 3 operations and (>= 1 fault or non-FIFO delivery).",
            assumptions: vec![
                "libp2p transport / kad / request-response are stubs: the simulator carries the same Request/Response values between the real handlers of the nodes",
                "the payment contract is the in-process ledger (all uploads in this sim carry valid payments)",
                "all nodes are within each other's K closest and replication candidates (small routing tables), spare capacity; a responsible range is set at some nodes in a third of the runs (pairs out of a node's range are exempt from the convergence requirement, never from the advertise-everything requirement)",
                "in two fifths of the runs the routing tables hold 3-8 filler peers besides the nodes (more peers than CLOSE_GROUP_SIZE), ranges are also set by peer rank and filler peers leave / join; convergence is then required only when every node is a replication target of every other node (within the sender's range when at least CLOSE_GROUP_SIZE peers are, else among its CLOSE_GROUP_SIZE closest - computed with the harness's own metric)",
                "std::time::Instant deadlines of the replication throttle / fetcher are aged through the guarded hook (equivalent to the clock advancing)",
            ],
        }]
    }

    fn generate(rng: &mut Rng, ctx: &GenCtx) -> Plan {
        let fault = ctx.mode == "fault";
        let n_nodes = rng.range(2, 3) as u8;
        let n_uploads = match ctx.tier {
            Tier::Quick => rng.urange(1, 6),
            Tier::Thorough => rng.urange(1, 10),
        };
        // swarm knob: in a third of the runs some nodes get a responsible range
        let with_ranges = rng.chance(1, 3);
        let with_restarts = fault && rng.chance(1, 2);
        let with_partitions = fault && rng.chance(1, 2);
        let mut steps = vec![];
        // swarm knob: bigger routing tables (peer-based ranges and churn only there)
        let fillers: u8 = if rng.chance(2, 5) { *rng.pick(&[3u8, 4, 5, 6, 8]) } else { 0 };
        if fillers != 0 && rng.chance(1, 2) {
            steps.push(Step::SetPeerRange { node: rng.below(n_nodes as u64) as u8, j: rng.range(3, 6) as u8 });
        }
        for _ in 0..n_uploads {
            let kind = rng.below(4) as u8;
            let items = (0..rng.urange(1, 3)).map(|_| rng.below(5) as u8).collect();
            steps.push(Step::Upload {
                node: rng.below(n_nodes as u64) as u8,
                kind,
                who: rng.below(2) as u8,
                counter: rng.range(1, 6) as u8,
                items,
            });
            if fault {
                for _ in 0..rng.urange(0, 4) {
                    steps.push(match rng.below(10) {
                        0 => Step::Drop { sel: rng.below(1 << 16) as u32 },
                        1 => Step::Dup { sel: rng.below(1 << 16) as u32 },
                        2 => Step::Trigger { node: rng.below(n_nodes as u64) as u8 },
                        3 => Step::ForeignAdvert { node: rng.below(n_nodes as u64) as u8 },
                        4 if rng.chance(1, 2) => Step::DiskErr { node: rng.below(n_nodes as u64) as u8 },
                        5 if with_restarts && rng.chance(1, 2) => Step::Restart { node: rng.below(n_nodes as u64) as u8 },
                        6 if with_partitions && rng.chance(1, 2) => Step::Partition { a: rng.below(n_nodes as u64) as u8, b: rng.below(n_nodes as u64) as u8 },
                        7 if with_partitions && rng.chance(1, 3) => Step::Heal,
                        _ => Step::Run { sel: rng.below(1 << 16) as u32 },
                    });
                }
            }
            if rng.chance(1, 3) {
                steps.push(Step::Round);
            }
            if fillers != 0 && rng.chance(1, 4) {
                steps.push(Step::Churn { node: rng.below(n_nodes as u64) as u8, which: rng.below(8) as u8 });
                if rng.chance(1, 2) {
                    steps.push(Step::ForeignAdvert { node: rng.below(n_nodes as u64) as u8 });
                }
            }
            if fillers != 0 && rng.chance(1, 8) {
                steps.push(Step::SetPeerRange { node: rng.below(n_nodes as u64) as u8, j: rng.range(2, 7) as u8 });
            }
            if with_ranges && rng.chance(1, 4) {
                steps.push(Step::SetRange { node: rng.below(n_nodes as u64) as u8, sel: rng.below(8) as u8 });
            }
        }
        if fault {
            for _ in 0..rng.urange(0, 2) {
                steps.push(Step::Trigger { node: rng.below(n_nodes as u64) as u8 });
                for _ in 0..rng.urange(2, 20) {
                    steps.push(match rng.below(8) {
                        0 => Step::Drop { sel: rng.below(1 << 16) as u32 },
                        1 => Step::Dup { sel: rng.below(1 << 16) as u32 },
                        _ => Step::Run { sel: rng.below(1 << 16) as u32 },
                    });
                }
            }
        }
        Plan {
            property: ctx.property.clone(),
            mode: ctx.mode.clone(),
            seed: rng.next_u64(),
            n_nodes,
            steps,
            final_rounds: 6,
            cache: *rng.pick(&[0usize, 0, 1, 2]),
            big_registers: rng.chance(1, 30),
            fillers,
        }
    }

    fn execute(plan: &Plan, entropy: u64) -> RunReport {
        world::execute(plan, entropy)
    }

    fn shrink(plan: &Plan) -> Vec<Plan> {
        let mut out = vec![];
        for steps in simkit::shrink::remove_chunks(&plan.steps) {
            let mut p = plan.clone();
            p.steps = steps;
            out.push(p);
        }
        if plan.n_nodes > 2 {
            let mut p = plan.clone();
            p.n_nodes = 2;
            out.push(p);
        }
        for steps in simkit::shrink::simplify_each(&plan.steps, |s| match s {
            Step::Run { sel } if *sel != 0 => vec![Step::Run { sel: 0 }],
            Step::Upload { node, kind, who, counter, items } if items.len() > 1 => vec![Step::Upload { node: *node, kind: *kind, who: *who, counter: *counter, items: items[..1].to_vec() }],
            _ => vec![],
        }) {
            let mut p = plan.clone();
            p.steps = steps;
            out.push(p);
        }
        out
    }

    fn components() -> Vec<(&'static str, &'static str)> {
        vec![
            ("per node: ant-node Node (validate_and_store_record, fetch_replication_keys_without_wait, store_replicated_in_record, handle_query GetReplicatedRecord, replicate_valid_fresh_record), SwarmDriver handlers (TriggerIntervalReplication / try_interval_replication, replicate-request handler add_keys_to_replication_fetcher, get_replicate_candidates), ReplicationFetcher, NodeRecordStore", "real"),
            ("transport between the nodes (libp2p request/response), kad", "stub: the simulator carries Request/Response values with delay / reorder / duplication / loss"),
            ("payment contract", "stub: in-process ledger, all payments valid"),
            ("event loops, task scheduling, clocks", "stub: the simulator (gates, aged Instant deadlines, paused tokio clock)"),
        ]
    }
}

fn main() {
    simkit::check::main::<ClusterSim>();
}
