//! Independent reference pieces of the `fetcher` sim: key universe, record versions, the XOR metric
//! (own implementation), and the tracking model of the fetcher's queue + in-flight set in simulated time.
//!
//! The tracking model follows the documented behaviour of `ReplicationFetcher` closely enough to know every
//! deadline (needed to age safely) and to say *why* an entry left a set. It is NOT the oracle: the oracle
//! clauses (a)-(h) live in world.rs and are written from the property statement. Where the fetcher's choice
//! depends on hash order (which of several equally close entries / holders is taken) the model adopts the
//! observed choice after the oracle has validated it.

use sha2::{Digest, Sha256};
use std::collections::{BTreeMap, BTreeSet};

pub type D256 = [u8; 32];

pub const FETCH_TIMEOUT_MS: i64 = 20_000;
pub const PENDING_TIMEOUT_MS: i64 = 900_000;
pub const MAX_PARALLEL: usize = 20;
/// no modelled deadline may be closer than this to "now" after an advance
pub const MARGIN_MS: i64 = 2_500;

/// sha256(a) xor sha256(b), big-endian — recomputed here, never through the code under test.
pub fn xor_distance(a: &[u8], b: &[u8]) -> D256 {
    let ha = Sha256::digest(a);
    let hb = Sha256::digest(b);
    let mut out = [0u8; 32];
    for i in 0..32 {
        out[i] = ha[i] ^ hb[i];
    }
    out
}

pub fn plus_one(d: &D256) -> D256 {
    let mut out = *d;
    for i in (0..32).rev() {
        if out[i] == 0xff {
            out[i] = 0;
        } else {
            out[i] += 1;
            break;
        }
    }
    out
}

pub fn minus_one(d: &D256) -> D256 {
    let mut out = *d;
    for i in (0..32).rev() {
        if out[i] == 0 {
            out[i] = 0xff;
        } else {
            out[i] -= 1;
            break;
        }
    }
    out
}

pub fn short(d: &D256) -> String {
    hex::encode(&d[..4])
}

pub fn key_bytes(node_key: u64, idx: usize) -> [u8; 32] {
    let mut h = Sha256::new();
    h.update(b"antsim-fetcher-key");
    h.update(node_key.to_le_bytes());
    h.update((idx as u64).to_le_bytes());
    h.finalize().into()
}

/// 0 chunk, 1 scratchpad, 2 register/transaction (NonChunk)
pub fn kind_of(node_key: u64, idx: usize) -> u8 {
    let mut h = Sha256::new();
    h.update(b"antsim-fetcher-kind");
    h.update(node_key.to_le_bytes());
    h.update((idx as u64).to_le_bytes());
    let d = h.finalize();
    match d[0] % 5 {
        0 | 1 => 0,
        2 => 1,
        _ => 2,
    }
}

/// Record "version" = what the fetcher calls the record type.
#[derive(Clone, Copy, PartialEq, Eq, PartialOrd, Ord, Debug, Hash)]
pub enum Ty {
    Chunk,
    Scratchpad,
    NonChunk([u8; 32]),
}

impl Ty {
    pub fn tag(&self) -> String {
        match self {
            Ty::Chunk => "C".into(),
            Ty::Scratchpad => "S".into(),
            Ty::NonChunk(h) => format!("N{}", hex::encode(&h[..2])),
        }
    }
}

/// The version `ver` of key `idx` as a holder would advertise it. Versions 0..=3 follow the key's kind
/// (content hash number `ver` for NonChunk keys); 4 and 5 are holders that disagree about the kind.
pub fn ty_of(node_key: u64, idx: usize, ver: u8) -> Ty {
    let content = |v: u8| {
        let mut h = Sha256::new();
        h.update(b"antsim-fetcher-content");
        h.update(node_key.to_le_bytes());
        h.update((idx as u64).to_le_bytes());
        h.update([v]);
        let d: [u8; 32] = h.finalize().into();
        Ty::NonChunk(d)
    };
    match ver {
        4 => Ty::Chunk,
        5 => Ty::Scratchpad,
        v if v > 5 => content(v),
        v => match kind_of(node_key, idx) {
            0 => Ty::Chunk,
            1 => Ty::Scratchpad,
            _ => content(v),
        },
    }
}

/// (key index, version, holder index)
pub type Triple = (usize, Ty, usize);

pub fn fmt_triple(t: &Triple) -> String {
    format!("k{}/{}@h{}", t.0, t.1.tag(), t.2)
}

#[derive(Clone, Debug)]
pub struct InFlight {
    pub holder: usize,
    pub deadline: i64,
    /// index of the simulated network fetch this entry stands for
    pub wf: usize,
}

#[derive(Default, Debug)]
pub struct Trace {
    /// in-flight entries that timed out in this call: (entry, network fetch index)
    pub expired: Vec<(Triple, usize)>,
    pub failed_holders: BTreeSet<usize>,
    /// queued entries dropped because their holder failed
    pub dropped_with_holder: usize,
    /// the fetcher's single-key fast path scheduled this entry
    pub fast: Option<Triple>,
    /// the fast path was taken but the version was already in flight (key neither fetched nor queued)
    pub fast_blocked: bool,
    /// number of advertised entries left after the fetcher's filtering
    pub filtered_len: Option<usize>,
    /// in-flight entries that left for another reason than timeout: (network fetch index, cause)
    pub ended: Vec<(usize, &'static str)>,
    pub pending_expired: usize,
    /// entries scheduled by the batch step, in returned order
    pub batch: Vec<Triple>,
    /// a batch entry was scheduled although its version was already in flight (holder of the old entry)
    pub dup_in_flight: Vec<(Triple, usize)>,
    /// network fetches started in this call: (index, entry)
    pub started: Vec<(usize, Triple)>,
    /// queue entries dropped by this call because they are held / notified / completed / too far
    pub queue_removed: usize,
    /// batch entries whose PENDING_TIMEOUT had passed (only add_keys drops those)
    pub stale_scheduled: usize,
    pub pruned: bool,
}

pub struct Model {
    pub queue: BTreeMap<Triple, i64>,
    pub infl: BTreeMap<(usize, Ty), InFlight>,
    pub range: Option<D256>,
    /// limit the fetcher enforces (it only ever shrinks)
    pub far_min: Option<D256>,
    pub now: i64,
    pub next_wf: usize,
}

impl Model {
    pub fn new() -> Self {
        Model {
            queue: BTreeMap::new(),
            infl: BTreeMap::new(),
            range: None,
            far_min: None,
            now: 0,
            next_wf: 0,
        }
    }

    pub fn queue_set(&self) -> BTreeSet<Triple> {
        self.queue.keys().cloned().collect()
    }

    pub fn infl_set(&self) -> BTreeSet<Triple> {
        self.infl.iter().map(|((k, t), f)| (*k, *t, f.holder)).collect()
    }

    pub fn deadlines(&self) -> Vec<i64> {
        let mut v: Vec<i64> = self.queue.values().cloned().collect();
        v.extend(self.infl.values().map(|f| f.deadline));
        v.sort();
        v
    }

    fn start(&mut self, t: Triple, tr: &mut Trace) {
        let wf = self.next_wf;
        self.next_wf += 1;
        self.infl.insert(
            (t.0, t.1),
            InFlight {
                holder: t.2,
                deadline: self.now + FETCH_TIMEOUT_MS,
                wf,
            },
        );
        tr.started.push((wf, t));
    }

    /// timed-out in-flight entries leave, their holders fail, the failed holders' queued entries go
    pub fn prune(&mut self, tr: &mut Trace) {
        tr.pruned = true;
        let now = self.now;
        let expired: Vec<(usize, Ty)> = self
            .infl
            .iter()
            .filter(|(_, f)| f.deadline < now)
            .map(|(k, _)| *k)
            .collect();
        for k in expired {
            let f = self.infl.remove(&k).unwrap();
            tr.expired.push(((k.0, k.1, f.holder), f.wf));
            tr.failed_holders.insert(f.holder);
        }
        if !tr.failed_holders.is_empty() {
            let before = self.queue.len();
            let failed = tr.failed_holders.clone();
            self.queue.retain(|(_, _, h), _| !failed.contains(h));
            tr.dropped_with_holder += before - self.queue.len();
        }
    }

    /// everything `add_keys` does before its scheduling step
    pub fn add_keys(
        &mut self,
        holder: usize,
        list: &[(usize, Ty)],
        index: &BTreeMap<usize, Ty>,
        dist: &[D256],
        tr: &mut Trace,
    ) {
        let mut filtered: Vec<(usize, Ty)> = vec![];
        for (k, t) in list {
            // MIRRORS FINDING 2 (findings/proposed_known_findings.json): a held key is skipped whatever version
            // is held. If /repo starts comparing versions here, compare `index.get(k) == Some(t)` instead.
            if index.get(k) == Some(t) || self.queue.contains_key(&(*k, *t, holder)) {
                continue;
            }
            if let Some(f) = &self.far_min {
                if dist[*k] > *f {
                    continue;
                }
            }
            filtered.push((*k, *t));
        }
        tr.filtered_len = Some(filtered.len());
        // entries for versions the index holds leave both sets
        let before = self.queue.len();
        self.queue.retain(|(k, t, _), _| index.get(k) != Some(t));
        tr.queue_removed += before - self.queue.len();
        let held: Vec<(usize, Ty)> = self
            .infl
            .keys()
            .filter(|(k, t)| index.get(k) == Some(t))
            .cloned()
            .collect();
        for k in held {
            let f = self.infl.remove(&k).unwrap();
            tr.ended.push((f.wf, "held_in_index"));
        }
        // MIRRORS FINDING 1: the fast path is decided on the FILTERED list. If /repo decides it on the advertised
        // list, this becomes `list.len() == 1 && filtered.len() == 1`.
        if list.len() == 1 && filtered.len() == 1 {
            let (k, t) = filtered[0];
            if self.infl.contains_key(&(k, t)) {
                tr.fast_blocked = true;
            } else {
                tr.fast = Some((k, t, holder));
                self.start((k, t, holder), tr);
            }
            filtered.clear();
        }
        let now = self.now;
        let before = self.queue.len();
        self.queue.retain(|_, d| *d > now);
        tr.pending_expired += before - self.queue.len();
        if let Some(r) = &self.range {
            filtered.retain(|(k, _)| dist[*k] <= *r);
        }
        for (k, t) in filtered {
            self.queue.entry((k, t, holder)).or_insert(now + PENDING_TIMEOUT_MS);
        }
        self.prune(tr);
    }

    pub fn notify_put(&mut self, key: usize, ty: Ty, tr: &mut Trace) {
        let before = self.queue.len();
        self.queue.retain(|(k, t, _), _| !(*k == key && *t == ty));
        tr.queue_removed += before - self.queue.len();
        // MIRRORS FINDING 3: in-flight entries of EVERY version of the key leave (the queue only loses `ty`).
        let gone: Vec<(usize, Ty)> = self.infl.keys().filter(|(k, _)| *k == key).cloned().collect();
        for k in gone {
            let f = self.infl.remove(&k).unwrap();
            let cause = match (k.1, ty) {
                (a, b) if a == b => "arrived",
                (Ty::NonChunk(_), Ty::NonChunk(_)) => "put_of_other_content_version",
                _ => "put_of_other_kind",
            };
            tr.ended.push((f.wf, cause));
        }
        self.prune(tr);
    }

    pub fn early_completed(&mut self, key: usize, ty: Ty, tr: &mut Trace) {
        let before = self.queue.len();
        self.queue.retain(|(k, t, _), _| !(*k == key && *t == ty));
        tr.queue_removed += before - self.queue.len();
        if let Some(f) = self.infl.remove(&(key, ty)) {
            tr.ended.push((f.wf, "early_completed"));
        }
        self.prune(tr);
    }

    pub fn set_farthest(&mut self, d: D256, dist: &[D256], tr: &mut Trace) {
        if let Some(old) = &self.far_min {
            if d >= *old {
                return;
            }
        }
        let before = self.queue.len();
        self.queue.retain(|(k, _, _), _| dist[*k] <= d);
        tr.queue_removed += before - self.queue.len();
        let gone: Vec<(usize, Ty)> = self.infl.keys().filter(|(k, _)| dist[*k] > d).cloned().collect();
        for k in gone {
            let f = self.infl.remove(&k).unwrap();
            tr.ended.push((f.wf, "farthest_on_full"));
        }
        self.far_min = Some(d);
    }

    /// The scheduling step: the entries that left the queue beyond the removals above are the batch.
    /// `returned` is the batch part of the returned list as (holder, key).
    pub fn adopt_batch(
        &mut self,
        obs_queue: &BTreeSet<Triple>,
        returned: &[(usize, usize)],
        tr: &mut Trace,
    ) -> Result<(), String> {
        let mid = self.queue_set();
        if let Some(x) = obs_queue.difference(&mid).next() {
            return Err(format!("queue holds {} which the model does not expect", fmt_triple(x)));
        }
        let mut removed: BTreeSet<Triple> = mid.difference(obs_queue).cloned().collect();
        for (h, k) in returned {
            let pick = removed.iter().find(|t| t.0 == *k && t.2 == *h).cloned();
            match pick {
                Some(t) => {
                    removed.remove(&t);
                    tr.batch.push(t);
                }
                None => {
                    return Err(format!(
                        "returned fetch k{k}@h{h} does not correspond to an entry that left the queue"
                    ))
                }
            }
        }
        if let Some(x) = removed.iter().next() {
            return Err(format!(
                "queued entry {} vanished without being held, completed, timed out or scheduled",
                fmt_triple(x)
            ));
        }
        for t in tr.batch.clone() {
            if let Some(d) = self.queue.remove(&t) {
                if d < self.now {
                    tr.stale_scheduled += 1;
                }
            }
            if let Some(old) = self.infl.get(&(t.0, t.1)) {
                tr.dup_in_flight.push((t, old.holder));
                tr.ended.push((old.wf, "overwritten"));
            }
            self.start(t, tr);
        }
        Ok(())
    }
}
