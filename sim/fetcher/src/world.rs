//! Executor + oracles of the `fetcher` sim (DESIGN.md §5 C08).
//!
//! The simulator plays everything around the real `ReplicationFetcher`: the holders and their adverts, the
//! network fetches started for every returned `(holder, key)`, the node's store index, the driver glue that
//! calls the fetcher, the clock (through `age`) and the delivery of the `FailedToFetchHolders` task.

use crate::model::*;
use crate::{Plan, Step, KV};
use ant_evm::U256;
use ant_networking::verif::{self as hooks, VerifFetcher};
use ant_networking::NetworkEvent;
use ant_protocol::storage::{ChunkAddress, RecordType, TransactionAddress};
use ant_protocol::NetworkAddress;
use libp2p::identity::Keypair;
use libp2p::kad::RecordKey;
use libp2p::PeerId;
use simkit::rt::settle;
use simkit::RunReport;
use std::collections::{BTreeMap, BTreeSet, HashMap};
use std::time::Duration;
use tokio::sync::mpsc;
use xor_name::XorName;

const PROP: &str = "C08";

pub fn execute(plan: &Plan, entropy: u64) -> RunReport {
    // real time must never decide a deadline comparison: a run that took >= 1 s is discarded and re-run
    let t0 = std::time::Instant::now();
    let rep = run_once(plan, entropy);
    if t0.elapsed() < Duration::from_millis(1000) {
        return rep;
    }
    for _ in 0..4 {
        let p = plan.clone();
        let out = simkit::rt::on_fresh_thread(entropy, move || {
            let t = std::time::Instant::now();
            let r = run_once(&p, entropy);
            (r, t.elapsed())
        });
        match out {
            simkit::rt::ThreadOutcome::Done((r, e)) if e < Duration::from_millis(1000) => return r,
            simkit::rt::ThreadOutcome::Done(_) => continue,
            simkit::rt::ThreadOutcome::Panicked(msg) => panic!("{msg}"),
        }
    }
    let mut r = RunReport::default();
    r.harness_error = Some("run exceeded 1 s of real time five times in a row".into());
    r
}

fn run_once(plan: &Plan, entropy: u64) -> RunReport {
    simkit::rt::block_on(entropy, async move {
        hooks::gates_install();
        let mut w = World::new(plan);
        w.run().await;
        hooks::gates_uninstall();
        w.rep
    })
}

struct KeyInfo {
    rkey: RecordKey,
    addr: NetworkAddress,
}

struct WorldFetch {
    entry: Triple,
    start: i64,
    /// the simulated network fetch has delivered (arrived or completed early)
    done: bool,
    /// why the fetcher's in-flight entry for this fetch is gone (None = still in flight)
    ended: Option<&'static str>,
}

enum Call<'b> {
    AddKeys { holder: usize, list: &'b [(usize, Ty)] },
    NotifyPut { key: usize, ty: Ty },
    Early { key: usize, ty: Ty },
    Next,
}

struct World<'a> {
    plan: &'a Plan,
    rep: RunReport,
    fault_mode: bool,
    fetcher: VerifFetcher,
    events: mpsc::Receiver<NetworkEvent>,
    keys: Vec<KeyInfo>,
    dist: Vec<D256>,
    /// key indices sorted by distance from self
    by_rank: Vec<usize>,
    key_idx: HashMap<Vec<u8>, usize>,
    holders: Vec<PeerId>,
    holder_idx: HashMap<PeerId, usize>,
    /// the node's store index as the simulator keeps it, and the same as the map handed to add_keys
    index: BTreeMap<usize, Ty>,
    index_real: HashMap<RecordKey, (NetworkAddress, RecordType)>,
    /// versions the fetcher was told are held: last index passed in + notifications since
    told: BTreeSet<(usize, Ty)>,
    arrived_ever: BTreeSet<(usize, Ty)>,
    m: Model,
    wfs: Vec<WorldFetch>,
    /// parked event tasks: gate id -> holders the event must name
    gates: BTreeMap<u64, BTreeSet<usize>>,
    /// statement-level farthest-on-full bound: the value of the latest call
    far_last: Option<D256>,
    reported: BTreeSet<String>,
    stop: bool,
    in_liveness: bool,
    /// the node layer does not receive events at the moment; what the delivered event tasks must have sent
    node_stalled: bool,
    undrained: Vec<BTreeSet<usize>>,
    live_scheduled: BTreeSet<(usize, Ty)>,
}

fn to_record_type(t: &Ty) -> RecordType {
    match t {
        Ty::Chunk => RecordType::Chunk,
        Ty::Scratchpad => RecordType::Scratchpad,
        Ty::NonChunk(h) => RecordType::NonChunk(XorName(*h)),
    }
}

fn from_record_type(t: &RecordType) -> Ty {
    match t {
        RecordType::Chunk => Ty::Chunk,
        RecordType::Scratchpad => Ty::Scratchpad,
        RecordType::NonChunk(x) => Ty::NonChunk(x.0),
    }
}

fn fmt_set(s: &BTreeSet<Triple>) -> String {
    let mut f = simkit::Fnv::new();
    for t in s {
        f.write_u64(t.0 as u64);
        match &t.1 {
            Ty::Chunk => f.write(&[1]),
            Ty::Scratchpad => f.write(&[2]),
            Ty::NonChunk(h) => f.write(&h[..8]),
        }
        f.write_u64(t.2 as u64);
    }
    format!("{}#{:08x}", s.len(), f.finish() as u32)
}

impl<'a> World<'a> {
    fn new(plan: &'a Plan) -> Self {
        let mut kb = [0u8; 32];
        kb[..8].copy_from_slice(&plan.node_key.to_le_bytes());
        kb[8] = 0xfe;
        let self_peer = Keypair::ed25519_from_bytes(kb).expect("keypair").public().to_peer_id();
        let self_bytes = self_peer.to_bytes();
        let mut holders = vec![];
        let mut holder_idx = HashMap::new();
        for h in 0..plan.n_holders.max(1) {
            let mut hb = [0u8; 32];
            hb[..8].copy_from_slice(&plan.node_key.to_le_bytes());
            hb[8] = h as u8 + 1;
            hb[9] = 0xaa;
            let p = Keypair::ed25519_from_bytes(hb).expect("keypair").public().to_peer_id();
            holder_idx.insert(p, h);
            holders.push(p);
        }
        let n = plan.n_keys.max(1);
        let mut keys = Vec::with_capacity(n);
        let mut dist = Vec::with_capacity(n);
        let mut key_idx = HashMap::new();
        for i in 0..n {
            let bytes = key_bytes(plan.node_key, i);
            let rkey = RecordKey::new(&bytes);
            // the address form a holder would use for this kind; all forms carry the same 32 bytes
            let addr = match kind_of(plan.node_key, i) {
                0 => NetworkAddress::from_chunk_address(ChunkAddress::new(XorName(bytes))),
                1 => NetworkAddress::from_record_key(&rkey),
                _ => NetworkAddress::from_transaction_address(TransactionAddress::new(XorName(bytes))),
            };
            dist.push(xor_distance(&self_bytes, &bytes));
            key_idx.insert(bytes.to_vec(), i);
            keys.push(KeyInfo { rkey, addr });
        }
        let mut by_rank: Vec<usize> = (0..n).collect();
        by_rank.sort_by(|a, b| dist[*a].cmp(&dist[*b]));
        let (tx, rx) = mpsc::channel(plan.chan_cap.max(1));
        let fetcher = VerifFetcher::new(self_peer, tx);
        let mut w = World {
            plan,
            rep: RunReport::default(),
            fault_mode: plan.mode == "fault",
            fetcher,
            events: rx,
            keys,
            dist,
            by_rank,
            key_idx,
            holders,
            holder_idx,
            index: BTreeMap::new(),
            index_real: HashMap::new(),
            told: BTreeSet::new(),
            arrived_ever: BTreeSet::new(),
            m: Model::new(),
            wfs: vec![],
            gates: BTreeMap::new(),
            far_last: None,
            reported: BTreeSet::new(),
            stop: false,
            in_liveness: false,
            node_stalled: false,
            undrained: vec![],
            live_scheduled: BTreeSet::new(),
        };
        for (k, v) in &plan.held {
            let k = *k % n;
            let t = ty_of(plan.node_key, k, *v);
            w.index_insert(k, t);
        }
        w
    }

    fn n_keys(&self) -> usize {
        self.keys.len()
    }

    fn kv(&self, kv: &KV) -> (usize, Ty) {
        let k = kv.0 % self.n_keys();
        (k, ty_of(self.plan.node_key, k, kv.1))
    }

    fn index_insert(&mut self, k: usize, t: Ty) {
        self.index.insert(k, t);
        self.index_real.insert(
            self.keys[k].rkey.clone(),
            (self.keys[k].addr.clone(), to_record_type(&t)),
        );
    }

    fn index_remove(&mut self, k: usize) {
        self.index.remove(&k);
        self.index_real.remove(&self.keys[k].rkey);
    }

    fn farthest_held(&self) -> Option<usize> {
        self.index.keys().cloned().max_by(|a, b| self.dist[*a].cmp(&self.dist[*b]))
    }

    fn dead(&self, h: usize) -> bool {
        self.plan.dead.get(h).copied().unwrap_or(false)
    }

    /// faults are counted where they fire; outside fault mode the same situations are only probes
    fn fault(&mut self, kind: &str) {
        if self.fault_mode {
            self.rep.fault(kind);
        } else {
            self.rep.probe(kind);
        }
    }

    fn violate(&mut self, rule: &str, shape: &str, detail: String) {
        self.violate_sig(rule, &[("shape", shape.to_string())], detail)
    }

    fn violate_sig(&mut self, rule: &str, sig: &[(&str, String)], detail: String) {
        // one report per (rule, signature) and run
        if self.reported.insert(format!("{rule}/{sig:?}")) {
            self.rep.violate(PROP, rule, sig, detail);
        }
    }

    fn diverged(&mut self, detail: String) {
        self.violate("model.diverged", "fetcher_state_or_output_differs_from_tracking_model", detail);
        self.stop = true;
    }

    // ---------------------------------------------------------------- observation

    /// Let a freshly spawned event task run up to its gate. Every live task of this runtime is an event task;
    /// the ones the simulator knows are parked, so a differing count means something was spawned.
    async fn settle_if_spawned(&mut self) {
        let alive = tokio::runtime::Handle::current().metrics().num_alive_tasks();
        if alive != self.gates.len() {
            settle().await;
        }
    }

    fn observe(&mut self) -> Option<(BTreeSet<Triple>, Vec<Triple>)> {
        let mut q = BTreeSet::new();
        for (k, t, h) in self.fetcher.queued() {
            match (self.key_idx.get(k.as_ref() as &[u8]), self.holder_idx.get(&h)) {
                (Some(ki), Some(hi)) => {
                    q.insert((*ki, from_record_type(&t), *hi));
                }
                _ => {
                    self.diverged("queue holds an entry for an unknown key or holder".into());
                    return None;
                }
            }
        }
        let mut f = vec![];
        for (k, t, h) in self.fetcher.in_flight() {
            match (self.key_idx.get(k.as_ref() as &[u8]), self.holder_idx.get(&h)) {
                (Some(ki), Some(hi)) => f.push((*ki, from_record_type(&t), *hi)),
                _ => {
                    self.diverged("in-flight set holds an entry for an unknown key or holder".into());
                    return None;
                }
            }
        }
        f.sort();
        Some((q, f))
    }

    fn fmt_returned(&self, r: &[(usize, usize)]) -> String {
        if r.len() > 8 {
            let mut f = simkit::Fnv::new();
            for (h, k) in r {
                f.write_u64(*h as u64);
                f.write_u64(*k as u64);
            }
            return format!("[{} fetches #{:08x}]", r.len(), f.finish() as u32);
        }
        let v: Vec<String> = r.iter().map(|(h, k)| format!("h{h}:k{k}")).collect();
        format!("[{}]", v.join(","))
    }

    /// Everything that follows a fetcher call that may schedule fetches.
    async fn after_call(&mut self, desc: String, call: Call<'_>, returned: Vec<(PeerId, RecordKey)>) {
        self.rep.ops += 1;
        self.settle_if_spawned().await;
        let q_before = self.m.queue_set();
        let now = self.m.now;
        let expected_expired: Vec<Triple> = self
            .m
            .infl
            .iter()
            .filter(|(_, f)| f.deadline < now)
            .map(|((k, t), f)| (*k, *t, f.holder))
            .collect();

        // the returned list in simulator terms
        let mut ret: Vec<(usize, usize)> = vec![];
        for (p, k) in &returned {
            match (self.holder_idx.get(p), self.key_idx.get(k.as_ref() as &[u8])) {
                (Some(h), Some(ki)) => ret.push((*h, *ki)),
                _ => {
                    self.diverged(format!("{desc}: returned a fetch for an unknown holder or key"));
                    return;
                }
            }
        }
        let Some((obs_q, obs_f_vec)) = self.observe() else { return };
        let obs_f: BTreeSet<Triple> = obs_f_vec.iter().cloned().collect();
        self.rep.log(format!(
            "{desc} -> {} queued={} inflight={}",
            self.fmt_returned(&ret),
            fmt_set(&obs_q),
            fmt_set(&obs_f)
        ));

        // ---- tracking model: the part of the call that does not depend on hash order
        let mut tr = Trace::default();
        match &call {
            Call::AddKeys { holder, list } => {
                self.told = self.index.iter().map(|(k, t)| (*k, *t)).collect();
                self.m.add_keys(*holder, list, &self.index, &self.dist, &mut tr);
            }
            Call::NotifyPut { key, ty } => {
                self.told.insert((*key, *ty));
                self.m.notify_put(*key, *ty, &mut tr);
            }
            Call::Early { key, ty } => self.m.early_completed(*key, *ty, &mut tr),
            Call::Next => self.m.prune(&mut tr),
        }
        let q_mid = self.m.queue_set();
        let mut diverged: Option<String> = None;
        let mut batch_ret: &[(usize, usize)] = &ret;
        if let Some(f) = &tr.fast {
            if ret.first() == Some(&(f.2, f.0)) {
                batch_ret = &ret[1..];
            } else {
                diverged = Some(format!(
                    "a single new key {} was expected to be fetched at once, returned list starts differently",
                    fmt_triple(f)
                ));
            }
        }
        if diverged.is_none() {
            if let Err(e) = self.m.adopt_batch(&obs_q, batch_ret, &mut tr) {
                diverged = Some(e);
            }
        }
        if diverged.is_none() {
            let mf = self.m.infl_set();
            if let Some(x) = obs_f.difference(&mf).next() {
                diverged = Some(format!(
                    "in-flight set holds {} which should have left or never entered",
                    fmt_triple(x)
                ));
            } else if let Some(x) = mf.difference(&obs_f).next() {
                diverged = Some(format!(
                    "in-flight entry {} vanished without arrival, completion, timeout or limit",
                    fmt_triple(x)
                ));
            }
        }

        // ---- oracle clauses on what was observed
        // (d) structural: one in-flight entry per (key, version)
        for w in obs_f_vec.windows(2) {
            if w[0].0 == w[1].0 && w[0].1 == w[1].1 {
                self.violate(
                    "dup.two_inflight_entries",
                    "same_key_and_version",
                    format!("{desc}: {} and {} in flight together", fmt_triple(&w[0]), fmt_triple(&w[1])),
                );
            }
        }
        // (g) arrival / early completion / timeout
        match &call {
            Call::NotifyPut { key, ty } => {
                if let Some(x) = obs_f.iter().find(|t| t.0 == *key && t.1 == *ty) {
                    self.violate(
                        "inflight.kept_after_arrival",
                        "notify_about_new_put",
                        format!("{desc}: {} still in flight after the record arrived", fmt_triple(x)),
                    );
                }
            }
            Call::Early { key, ty } => {
                if let Some(x) = obs_f.iter().find(|t| t.0 == *key && t.1 == *ty) {
                    self.violate(
                        "inflight.kept_after_early_completion",
                        "notify_fetch_early_completed",
                        format!("{desc}: {} still in flight after it was reported complete", fmt_triple(x)),
                    );
                }
            }
            _ => {}
        }
        for x in &expected_expired {
            // (the same holder may be asked again in the same call when the stale entry left for another
            // reason first and a duplicate was queued)
            if obs_f.contains(x) && !tr.started.iter().any(|(_, t)| t == x) {
                self.violate(
                    "inflight.kept_after_timeout",
                    "deadline_passed_before_call",
                    format!("{desc}: {} still in flight although its fetch timed out", fmt_triple(x)),
                );
            }
        }
        for h in tr.failed_holders.clone() {
            if let Some(x) = obs_q.iter().find(|t| t.2 == h) {
                self.violate(
                    "timeout.queued_entries_of_failed_holder_kept",
                    "after_prune",
                    format!("{desc}: {} still queued although holder h{h} timed out", fmt_triple(x)),
                );
            }
        }
        // the event task
        let mut fresh = vec![];
        for g in hooks::gates_pending() {
            if !self.gates.contains_key(&g.id) {
                fresh.push(g);
            }
        }
        if !tr.failed_holders.is_empty() {
            self.rep.probe("timeout_holders_failed");
            match fresh.len() {
                0 => self.violate(
                    "timeout.holder_not_reported",
                    "no_event_task",
                    format!("{desc}: holders {:?} timed out, no FailedToFetchHolders task was spawned", tr.failed_holders),
                ),
                1 => {
                    self.gates.insert(fresh[0].id, tr.failed_holders.clone());
                }
                n => diverged = diverged.or(Some(format!("{n} event tasks spawned by one call"))),
            }
            for g in fresh.iter().skip(1) {
                self.gates.insert(g.id, BTreeSet::new());
            }
        } else if !fresh.is_empty() {
            for g in &fresh {
                self.gates.insert(g.id, BTreeSet::new());
            }
            diverged = diverged.or(Some(format!(
                "an event task ({}) was spawned although no fetch timed out",
                fresh[0].detail
            )));
        }

        // ---- why the fetcher stopped tracking older network fetches (needed by clause (d) below)
        for (wf, cause) in &tr.ended {
            if let Some(w) = self.wfs.get_mut(*wf) {
                w.ended = Some(cause);
            }
            self.rep.probe(&format!("inflight_left:{cause}"));
        }
        for (t, wf) in &tr.expired {
            if let Some(w) = self.wfs.get_mut(*wf) {
                w.ended = Some("timeout");
            }
            if self.dead(t.2) {
                self.fault("timeout_dead_holder");
            } else {
                self.fault("timeout_slow_holder");
            }
        }
        if let Call::AddKeys { holder, list } = &call {
            self.check_range_admission(&desc, *holder, list, tr.filtered_len, &q_before, &obs_q, &obs_f, &ret);
        }
        if diverged.is_none() {
            self.check_scheduled(&desc, &call, &tr, &q_mid, &obs_q, &obs_f);
        } else {
            // the tracking model cannot attribute the returned fetches; clause (a) straight from what is
            // observable: a returned (holder, key) whose every in-flight version is one the node was told it holds
            for (h, k) in &ret {
                let cands: Vec<&Triple> = obs_f.iter().filter(|t| t.0 == *k && t.2 == *h).collect();
                if !cands.is_empty() && cands.iter().all(|t| self.told.contains(&(t.0, t.1))) {
                    let x = *cands[0];
                    self.violate(
                        "held.fetch_of_held_version",
                        "returned_fetch",
                        format!("{desc}: fetch of {} although the node holds that version", fmt_triple(&x)),
                    );
                }
            }
        }

        // ---- the fetches started by this call
        if tr.dropped_with_holder > 0 {
            self.rep.probe_n("queued_dropped_with_failed_holder", tr.dropped_with_holder as u64);
        }
        if tr.pending_expired > 0 {
            for _ in 0..tr.pending_expired {
                self.fault("pending_entry_expired");
            }
        }
        for (wf, t) in &tr.started {
            debug_assert_eq!(*wf, self.wfs.len());
            self.wfs.push(WorldFetch { entry: *t, start: now, done: false, ended: None });
            self.rep.sched.write_str(&fmt_triple(t));
            if self.in_liveness && !self.dead(t.2) {
                self.live_scheduled.insert((t.0, t.1));
            }
        }
        if let Some(e) = diverged {
            self.diverged(format!("{desc}: {e}"));
        }
    }

    /// Clause (b), from observable facts only: whatever this advertisement added to the queue, or had fetched
    /// at once without having been queued before, was admitted now; from a multi-key list it must be in range.
    #[allow(clippy::too_many_arguments)]
    fn check_range_admission(
        &mut self,
        desc: &str,
        holder: usize,
        list: &[(usize, Ty)],
        filtered_len: Option<usize>,
        q_before: &BTreeSet<Triple>,
        obs_q: &BTreeSet<Triple>,
        obs_f: &BTreeSet<Triple>,
        ret: &[(usize, usize)],
    ) {
        let multi = list.len() >= 2;
        let reduced = multi && filtered_len == Some(1);
        let shape = if reduced { "multi_key_advert_reduced_to_one_key_by_filtering" } else { "multi_key_advert" };
        let mut admitted: Vec<Triple> = obs_q.difference(q_before).cloned().collect();
        for (h, k) in ret {
            if *h != holder {
                continue;
            }
            for t in obs_f.iter().filter(|t| t.0 == *k && t.2 == holder) {
                if !q_before.contains(t) && list.iter().any(|(lk, lt)| lk == k && *lt == t.1) {
                    admitted.push(*t);
                }
            }
        }
        if admitted.len() < list.len() && list.iter().any(|(k, t)| q_before.contains(&(*k, *t, holder))) {
            self.rep.probe("readvertised_entry_already_pending");
        }
        let Some(r) = self.m.range else { return };
        let rejected = list.iter().filter(|(k, _)| !self.index.contains_key(k) && self.dist[*k] > r).count();
        if multi && rejected > 0 {
            self.rep.probe_n("advertised_keys_out_of_range", rejected as u64);
        }
        if !multi {
            if admitted.iter().any(|a| self.dist[a.0] > r) {
                self.rep.probe("single_key_advert_out_of_range_fetched");
            }
            return;
        }
        for a in &admitted {
            if self.dist[a.0] > r {
                self.violate(
                    "range.out_of_range_admitted",
                    shape,
                    format!(
                        "{desc}: {} taken from a list of {} keys at distance {} > responsible distance {}",
                        fmt_triple(a),
                        list.len(),
                        short(&self.dist[a.0]),
                        short(&r)
                    ),
                );
            }
        }
    }

    /// Clauses (a) (b) (c) (d) (e) (f) over the fetches scheduled by this call.
    #[allow(clippy::too_many_arguments)]
    fn check_scheduled(
        &mut self,
        desc: &str,
        call: &Call<'_>,
        tr: &Trace,
        q_mid: &BTreeSet<Triple>,
        obs_q: &BTreeSet<Triple>,
        obs_f: &BTreeSet<Triple>,
    ) {
        let now = self.m.now;
        let mut scheduled: Vec<Triple> = vec![];
        if let Some(f) = &tr.fast {
            scheduled.push(*f);
            self.rep.probe("fast_path_fetch");
        }
        scheduled.extend(tr.batch.iter().cloned());
        if !tr.batch.is_empty() {
            self.rep.probe("batch_scheduled");
        }
        if tr.stale_scheduled > 0 {
            self.rep.probe("expired_pending_entry_scheduled");
        }
        if tr.fast_blocked {
            self.rep.probe("fast_path_blocked_version_in_flight");
        }
        if obs_f.len() >= MAX_PARALLEL {
            self.rep.probe("cap_reached");
        }
        if obs_f.len() > MAX_PARALLEL {
            self.rep.probe("in_flight_above_cap");
        }
        // shape of an advertisement
        let (multi, reduced) = match call {
            Call::AddKeys { list, .. } => (list.len() >= 2, list.len() >= 2 && tr.filtered_len == Some(1)),
            _ => (false, false),
        };
        if reduced {
            self.rep.probe("multi_key_advert_reduced_to_one_key");
        }
        let advert_shape = if reduced {
            "multi_key_advert_reduced_to_one_key_by_filtering"
        } else if multi {
            "multi_key_advert"
        } else {
            "batch_from_queue"
        };

        // (a) nothing the fetcher was told is held
        for s in &scheduled {
            if self.told.contains(&(s.0, s.1)) {
                self.violate(
                    "held.fetch_of_held_version",
                    advert_shape,
                    format!("{desc}: fetch of {} although the node holds that version", fmt_triple(s)),
                );
            }
        }
        // (c) nothing farther than the farthest-on-full limit
        if let Some(far) = self.far_last {
            for s in &scheduled {
                if self.dist[s.0] > far {
                    self.violate(
                        "farthest.fetch_beyond_farthest",
                        advert_shape,
                        format!("{desc}: fetch of {} beyond the farthest held record", fmt_triple(s)),
                    );
                }
            }
        }
        // (d) never two fetches of one version at once
        for (s, old_holder) in &tr.dup_in_flight {
            self.violate(
                "dup.scheduled_while_in_flight",
                "queue_entry_scheduled_over_in_flight_entry",
                format!("{desc}: {} scheduled while h{old_holder} was still fetching that version", fmt_triple(s)),
            );
        }
        for s in &scheduled {
            let clash = self.wfs.iter().find(|w| {
                w.entry.0 == s.0
                    && w.entry.1 == s.1
                    && !w.done
                    && now - w.start < FETCH_TIMEOUT_MS
                    && matches!(
                        w.ended,
                        Some("put_of_other_content_version") | Some("put_of_other_kind") | Some("farthest_on_full")
                    )
            });
            if let Some(w) = clash {
                let shape = format!("inflight_entry_dropped_by_{}", w.ended.unwrap_or("?"));
                let detail = format!(
                    "{desc}: fetch of {} started {} ms after the fetch {} of the same version, which has neither arrived, completed nor timed out",
                    fmt_triple(s),
                    now - w.start,
                    fmt_triple(&w.entry)
                );
                self.violate("dup.refetch_while_fetch_running", &shape, detail);
            }
        }
        // (e) batch scheduling respects the parallel-fetch limit (only a true single-key advert is exempt)
        let mut batch_stmt = tr.batch.len();
        if multi && tr.fast.is_some() {
            batch_stmt += 1;
        }
        if batch_stmt > 0 && obs_f.len() > MAX_PARALLEL {
            self.violate(
                "cap.exceeded",
                advert_shape,
                format!("{desc}: {} fetches in flight after batch scheduling added {batch_stmt}", obs_f.len()),
            );
        }
        // (f) closest first
        for w in tr.batch.windows(2) {
            if self.dist[w[0].0] > self.dist[w[1].0] {
                self.violate(
                    "order.batch_not_closest_first",
                    "returned_order",
                    format!("{desc}: {} returned before the closer {}", fmt_triple(&w[0]), fmt_triple(&w[1])),
                );
            }
        }
        let in_flight_versions: BTreeSet<(usize, Ty)> = obs_f.iter().map(|t| (t.0, t.1)).collect();
        let eligible: Vec<&Triple> = obs_q.iter().filter(|t| !in_flight_versions.contains(&(t.0, t.1))).collect();
        if let Some(worst) = tr.batch.iter().max_by(|a, b| self.dist[a.0].cmp(&self.dist[b.0])) {
            if let Some(better) = eligible.iter().find(|t| self.dist[t.0] < self.dist[worst.0]) {
                self.violate(
                    "order.closer_entry_left_queued",
                    "batch_selection",
                    format!("{desc}: {} chosen while the closer {} stayed queued", fmt_triple(worst), fmt_triple(better)),
                );
            }
        }
        if !eligible.is_empty() && obs_f.len() < MAX_PARALLEL {
            self.violate(
                "progress.capacity_left_unused",
                "eligible_entry_not_scheduled",
                format!(
                    "{desc}: {} stayed queued although only {} fetches are in flight",
                    fmt_triple(eligible[0]),
                    obs_f.len()
                ),
            );
        }
        // reach
        for s in &tr.batch {
            if q_mid.iter().any(|t| t.0 == s.0 && t.1 == s.1 && t.2 != s.2) {
                self.rep.probe("holder_chosen_by_hash_order");
            }
        }
        let mut per_key: BTreeMap<usize, usize> = BTreeMap::new();
        for t in obs_f {
            *per_key.entry(t.0).or_insert(0) += 1;
        }
        if per_key.values().any(|n| *n > 1) {
            self.rep.probe("two_versions_of_one_key_in_flight");
        }
    }

    // ---------------------------------------------------------------- operations

    async fn do_advert(&mut self, i: &str, holder: usize, kvs: &[KV]) {
        let holder = holder % self.holders.len();
        let list: Vec<(usize, Ty)> = kvs.iter().map(|kv| self.kv(kv)).collect();
        let incoming: Vec<(NetworkAddress, RecordType)> = list
            .iter()
            .map(|(k, t)| (self.keys[*k].addr.clone(), to_record_type(t)))
            .collect();
        let shown: Vec<String> = list.iter().take(8).map(|(k, t)| format!("k{k}/{}", t.tag())).collect();
        let desc = format!(
            "{i} advert h{holder} {} keys [{}{}]",
            list.len(),
            shown.join(","),
            if list.len() > 8 { ",.." } else { "" }
        );
        if list.len() == 1 {
            self.rep.probe("advert_single_key");
        } else {
            self.rep.probe("advert_multi_key");
        }
        let ret = self.fetcher.add_keys(self.holders[holder], incoming, &self.index_real);
        self.after_call(desc, Call::AddKeys { holder, list: &list }, ret).await;
    }

    async fn do_notify_put(&mut self, desc: String, key: usize, ty: Ty) {
        if self.m.infl.keys().any(|(k, t)| *k == key && *t != ty) {
            self.rep.probe("put_while_other_version_in_flight");
        }
        let ret = self.fetcher.notify_about_new_put(self.keys[key].rkey.clone(), to_record_type(&ty));
        self.after_call(desc, Call::NotifyPut { key, ty }, ret).await;
    }

    async fn do_set_farthest(&mut self, i: &str, key: Option<usize>) {
        self.rep.ops += 1;
        let mut tr = Trace::default();
        match key {
            None => {
                self.fetcher.set_farthest_on_full(None);
            }
            Some(k) => {
                let d = self.dist[k];
                self.fetcher.set_farthest_on_full(Some(self.keys[k].rkey.clone()));
                self.far_last = Some(d);
                self.m.set_farthest(d, &self.dist, &mut tr);
            }
        }
        self.settle_if_spawned().await;
        let Some((obs_q, obs_f_vec)) = self.observe() else { return };
        let obs_f: BTreeSet<Triple> = obs_f_vec.iter().cloned().collect();
        self.rep.log(format!(
            "{i} set_farthest_on_full {} -> queued={} inflight={}",
            key.map(|k| format!("k{k}")).unwrap_or("None".into()),
            fmt_set(&obs_q),
            fmt_set(&obs_f)
        ));
        // (c) farther entries are gone from both sets
        if let Some(k) = key {
            let d = self.dist[k];
            if let Some(x) = obs_q.iter().chain(obs_f.iter()).find(|t| self.dist[t.0] > d) {
                self.violate(
                    "farthest.farther_entry_kept",
                    "after_set_farthest_on_full",
                    format!("{i}: {} is farther than the farthest held record k{k} and is still queued or in flight", fmt_triple(x)),
                );
            }
        }
        if !tr.ended.is_empty() || tr.queue_removed > 0 {
            self.fault("farthest_limit_dropped_entries");
        }
        for (wf, cause) in &tr.ended {
            if let Some(w) = self.wfs.get_mut(*wf) {
                w.ended = Some(cause);
            }
            self.rep.probe(&format!("inflight_left:{cause}"));
        }
        if obs_q != self.m.queue_set() || obs_f != self.m.infl_set() {
            self.diverged(format!("{i}: sets after set_farthest_on_full differ from the tracking model"));
        }
    }

    async fn do_arrive(&mut self, i: &str, wf: usize, outcome: u8) {
        let (k, t, h) = self.wfs[wf].entry;
        let late = self.wfs[wf].ended == Some("timeout");
        self.wfs[wf].done = true;
        if late {
            self.fault("late_arrival");
        }
        let outcome = if self.fault_mode || self.in_liveness { outcome } else { 0 };
        let mut what = "stored";
        match outcome {
            1 => {
                // Err(MaxRecords): restrict the fetcher to the farthest held record, then notify
                what = "store full";
                self.fault("store_full");
                let far = self.farthest_held();
                self.do_set_farthest(&format!("{i}a"), far).await;
                if self.stop {
                    return;
                }
            }
            2 => {
                what = "store error";
                self.fault("store_error");
            }
            3 => {
                // the store prunes its farthest record to make room for a closer one
                match self.farthest_held() {
                    Some(far) if self.dist[far] > self.dist[k] => {
                        what = "stored after evicting the farthest record";
                        self.fault("store_evicted_farthest");
                        self.index_remove(far);
                    }
                    _ => {}
                }
                self.index_insert(k, t);
                self.arrived_ever.insert((k, t));
            }
            _ => {
                self.index_insert(k, t);
                self.arrived_ever.insert((k, t));
            }
        }
        let desc = format!("{i} arrive {} ({what}{})", fmt_triple(&(k, t, h)), if late { ", late" } else { "" });
        self.do_notify_put(desc, k, t).await;
    }

    fn deliverable(&self) -> Vec<usize> {
        (0..self.wfs.len())
            .filter(|i| {
                let w = &self.wfs[*i];
                !w.done && !self.dead(w.entry.2) && (self.fault_mode || self.in_liveness || w.ended != Some("timeout"))
            })
            .collect()
    }

    fn pick(&mut self, n: usize, sel: u32) -> usize {
        let i = if sel == u32::MAX { n - 1 } else { sel as usize % n };
        if i != 0 {
            self.rep.nonfifo += 1;
        }
        i
    }

    /// `d` adjusted so that afterwards every modelled deadline is at least MARGIN_MS away from now;
    /// outside fault mode no deadline is crossed at all.
    fn effective_advance(&self, ms: i64, may_cross: bool) -> i64 {
        let deadlines = self.m.deadlines();
        let now = self.m.now;
        let mut target = now + ms;
        if !may_cross {
            if let Some(first) = deadlines.first() {
                target = target.min(first - MARGIN_MS);
            }
            return (target - now).max(0);
        }
        loop {
            match deadlines.iter().find(|d| (**d - target).abs() < MARGIN_MS) {
                Some(d) => target = d + MARGIN_MS,
                None => break,
            }
        }
        target - now
    }

    fn do_advance(&mut self, i: &str, ms: u64, may_cross: bool) {
        let d = self.effective_advance(ms as i64, may_cross);
        if d <= 0 {
            self.rep.log(format!("{i} advance {ms} ms skipped (a deadline is too close)"));
            return;
        }
        self.fetcher.age(Duration::from_millis(d as u64));
        self.m.now += d;
        self.rep.sim_time_ms += d as u64;
        let now = self.m.now;
        let crossed_f = self.m.infl.values().filter(|f| f.deadline < now && f.deadline >= now - d).count();
        let crossed_q = self.m.queue.values().filter(|x| **x < now && **x >= now - d).count();
        if crossed_f > 0 {
            self.fault("advance_past_fetch_timeout");
        }
        if crossed_q > 0 {
            self.fault("advance_past_pending_timeout");
        }
        self.rep.sched.write_u64(d as u64);
        self.rep.log(format!(
            "{i} advance {d} ms (asked {ms}) now={} fetch deadlines passed={crossed_f} pending deadlines passed={crossed_q}",
            self.m.now
        ));
    }

    /// The node layer catches up: every event sent while it was stalled arrives, none is lost.
    async fn resume_node(&mut self, i: &str) {
        if !self.node_stalled {
            return;
        }
        self.node_stalled = false;
        let mut got: Vec<BTreeSet<usize>> = vec![];
        for _ in 0..64 {
            settle().await;
            let mut n = 0;
            while let Ok(ev) = self.events.try_recv() {
                n += 1;
                match ev {
                    NetworkEvent::FailedToFetchHolders(set) => got.push(set.iter().filter_map(|p| self.holder_idx.get(p).copied()).collect()),
                    other => {
                        self.diverged(format!("{i}: unexpected event {other:?}"));
                        return;
                    }
                }
            }
            if n == 0 {
                break;
            }
        }
        let mut want = std::mem::take(&mut self.undrained);
        self.rep.log(format!("{i} node layer resumes: {} events received, {} were sent", got.len(), want.len()));
        got.sort();
        want.sort();
        if got != want {
            self.violate(
                "timeout.wrong_holders_reported",
                "events_sent_while_node_stalled",
                format!("{i}: while the node layer was stalled the fetcher sent reports {want:?}; it received {got:?}"),
            );
        } else if !want.is_empty() {
            self.rep.probe("events_survived_a_stalled_node_layer");
        }
    }

    async fn do_deliver(&mut self, i: &str, sel: u32) {
        let pending: Vec<u64> = hooks::gates_pending()
            .iter()
            .map(|g| g.id)
            .filter(|id| self.gates.contains_key(id))
            .collect();
        if pending.is_empty() {
            self.rep.log(format!("{i} deliver: no event task parked"));
            return;
        }
        let idx = self.pick(pending.len(), sel);
        let id = pending[idx];
        let expected = self.gates.remove(&id).unwrap_or_default();
        self.rep.sched.write_u64(id);
        hooks::gate_open(id);
        settle().await;
        if self.node_stalled {
            // nobody receives: the event sits in the channel, or its task waits for capacity
            self.undrained.push(expected);
            self.rep.log(format!("{i} deliver event task {id}: node layer stalled, event left in the channel ({} waiting)", self.undrained.len()));
            return;
        }
        let mut got = vec![];
        while let Ok(ev) = self.events.try_recv() {
            got.push(ev);
        }
        settle().await;
        while let Ok(ev) = self.events.try_recv() {
            got.push(ev);
        }
        if got.len() != 1 {
            self.diverged(format!("{i}: event task {id} produced {} events", got.len()));
            return;
        }
        match &got[0] {
            NetworkEvent::FailedToFetchHolders(set) => {
                let named: BTreeSet<usize> = set.iter().filter_map(|p| self.holder_idx.get(p).copied()).collect();
                self.rep.log(format!("{i} deliver event task {id}: FailedToFetchHolders {named:?}"));
                self.rep.probe("failed_holders_event_delivered");
                if named != expected || named.len() != set.len() {
                    self.violate(
                        "timeout.wrong_holders_reported",
                        "failed_to_fetch_holders_event",
                        format!("{i}: event names {named:?}, the holders that timed out are {expected:?}"),
                    );
                }
            }
            other => self.diverged(format!("{i}: unexpected event {other:?}")),
        }
    }

    async fn step(&mut self, n: usize, s: &Step) {
        let i = format!("#{n}");
        self.rep.steps += 1;
        match s {
            Step::Advert { holder, keys } => {
                if keys.is_empty() {
                    return;
                }
                self.do_advert(&i, *holder, keys).await
            }
            Step::Arrive { sel, outcome } => {
                let c = self.deliverable();
                if c.is_empty() {
                    self.rep.log(format!("{i} arrive: no fetch running"));
                    return;
                }
                let wf = c[self.pick(c.len(), *sel)];
                self.rep.sched.write_u64(wf as u64);
                self.do_arrive(&i, wf, *outcome).await
            }
            Step::Early { sel } => {
                let c = self.deliverable();
                if c.is_empty() {
                    self.rep.log(format!("{i} early: no fetch running"));
                    return;
                }
                let wf = c[self.pick(c.len(), *sel)];
                self.rep.sched.write_u64(wf as u64);
                let (k, t, h) = self.wfs[wf].entry;
                self.wfs[wf].done = true;
                if self.wfs[wf].ended == Some("timeout") {
                    self.fault("late_early_completion");
                }
                self.rep.probe("early_completion");
                let ret = self.fetcher.notify_fetch_early_completed(self.keys[k].rkey.clone(), to_record_type(&t));
                let desc = format!("{i} early-completed {}", fmt_triple(&(k, t, h)));
                self.after_call(desc, Call::Early { key: k, ty: t }, ret).await
            }
            Step::SpuriousEarly { key, ver } => {
                if !self.fault_mode {
                    return;
                }
                let (k, t) = self.kv(&(*key, *ver));
                if self.m.infl.contains_key(&(k, t)) {
                    self.fault("completion_reported_for_running_fetch");
                } else if self.m.queue.keys().any(|x| x.0 == k && x.1 == t) {
                    self.fault("completion_reported_for_queued_only_version");
                } else {
                    self.fault("completion_reported_for_unknown_version");
                }
                let ret = self.fetcher.notify_fetch_early_completed(self.keys[k].rkey.clone(), to_record_type(&t));
                let desc = format!("{i} spurious early-completed k{k}/{}", t.tag());
                self.after_call(desc, Call::Early { key: k, ty: t }, ret).await
            }
            Step::Put { key, ver } => {
                let (k, t) = self.kv(&(*key, *ver));
                self.index_insert(k, t);
                let desc = format!("{i} put k{k}/{} by another path", t.tag());
                self.do_notify_put(desc, k, t).await
            }
            Step::SetRange { rank, above } => {
                self.rep.ops += 1;
                let k = self.by_rank[*rank % self.n_keys()];
                let d = if *above { plus_one(&self.dist[k]) } else { minus_one(&self.dist[k]) };
                let shrunk = match self.m.range {
                    None => true,
                    Some(old) => d < old,
                };
                let pending_beyond = self
                    .m
                    .queue
                    .keys()
                    .map(|t| t.0)
                    .chain(self.m.infl.keys().map(|t| t.0))
                    .any(|k| self.dist[k] > d);
                if shrunk && pending_beyond {
                    self.fault("range_shrunk_below_pending_entries");
                }
                self.m.range = Some(d);
                self.fetcher.set_replication_distance_range(U256::from_be_bytes(d));
                self.rep.log(format!(
                    "{i} set_replication_distance_range {} k{k} ({})",
                    if *above { "just above" } else { "just below" },
                    short(&d)
                ));
            }
            Step::SetFarthest { rank } => {
                let key = rank.map(|r| self.by_rank[r % self.n_keys()]);
                self.do_set_farthest(&i, key).await
            }
            Step::Evict => {
                if let Some(far) = self.farthest_held() {
                    self.index_remove(far);
                    self.fault("held_record_evicted");
                    self.rep.log(format!("{i} store evicts its farthest record k{far}"));
                }
            }
            Step::Advance { ms } => self.do_advance(&i, *ms, self.fault_mode),
            Step::Next => {
                let ret = self.fetcher.next_keys_to_fetch();
                self.after_call(format!("{i} next_keys_to_fetch"), Call::Next, ret).await
            }
            Step::Deliver { sel } => self.do_deliver(&i, *sel).await,
            Step::StallNode => {
                if !self.node_stalled {
                    self.node_stalled = true;
                    self.fault("node_layer_stalled");
                    self.rep.log(format!("{i} node layer stalls (event channel capacity {})", self.plan.chan_cap.max(1)));
                }
            }
            Step::ResumeNode => self.resume_node(&i).await,
        }
    }

    // ---------------------------------------------------------------- (h) bounded liveness

    async fn deliver_all_completions(&mut self, tag: &str) {
        let mut n = 0;
        loop {
            let c = self.deliverable();
            let Some(wf) = c.first().copied() else { break };
            n += 1;
            self.do_arrive(&format!("{tag}.{n}"), wf, 0).await;
            if self.stop {
                return;
            }
        }
    }

    async fn liveness(&mut self) {
        if self.plan.live_keys.is_empty() {
            return;
        }
        let responsive: Vec<usize> = (0..self.holders.len()).filter(|h| !self.dead(*h)).collect();
        if responsive.is_empty() {
            self.rep.probe("liveness_skipped_no_responsive_holder");
            return;
        }
        self.in_liveness = true;
        let h = responsive[self.plan.live_holder % responsive.len()];
        let kvs: Vec<KV> = self.plan.live_keys.clone();
        let list: Vec<(usize, Ty)> = kvs.iter().map(|kv| self.kv(kv)).collect();
        // ceil(queued/20) + 2 rounds, plus one round per dead holder: a dead holder's queued copy of the same
        // version may be tried first (hash order) and costs one timeout round before the next copy is tried
        let dead_holders = (0..self.holders.len()).filter(|h| self.dead(*h)).count();
        let bound = (self.m.queue.len() + list.len()).div_ceil(MAX_PARALLEL) + 2 + dead_holders;
        self.rep.log(format!(
            "liveness: h{h} keeps advertising {} keys; queued={} => bound {bound} rounds",
            list.len(),
            self.m.queue.len()
        ));
        let mut round = 0;
        loop {
            round += 1;
            let tag = format!("L{round}");
            self.deliver_all_completions(&tag).await;
            if self.stop {
                return;
            }
            self.do_advance(&tag, 25_000, true);
            self.do_advert(&tag, h, &kvs).await;
            if self.stop {
                return;
            }
            // what is still owed
            let mut owed: Vec<(usize, Ty)> = vec![];
            let mut other_version: Vec<(usize, Ty, Ty)> = vec![];
            for (k, t) in &list {
                let in_range = match self.m.range {
                    None => true,
                    Some(r) => self.dist[*k] <= r,
                };
                let within_far = self.m.far_min.map(|f| self.dist[*k] <= f).unwrap_or(true);
                if !in_range || !within_far {
                    continue;
                }
                if self.index.get(k) == Some(t)
                    || self.arrived_ever.contains(&(*k, *t))
                    || self.live_scheduled.contains(&(*k, *t))
                {
                    continue;
                }
                // a responsive holder already fetching it counts as scheduled
                if let Some(f) = self.m.infl.get(&(*k, *t)) {
                    if !self.dead(f.holder) {
                        continue;
                    }
                }
                // a differing content version of a held mutable record is owed like any other record
                // (fixed in /repo: add_keys compares the held record type); differing kinds are only recorded
                match self.index.get(k) {
                    Some(other) => match (t, other) {
                        (Ty::NonChunk(_), Ty::NonChunk(_)) => owed.push((*k, *t)),
                        _ => other_version.push((*k, *t, *other)),
                    },
                    None => owed.push((*k, *t)),
                }
            }
            if owed.is_empty() {
                self.rep.probe("liveness_all_scheduled");
                self.rep.probe_n("liveness_rounds", round as u64);
                if round > 2 {
                    self.rep.probe("liveness_needed_more_than_two_rounds");
                }
                for (_k, _t, _other) in other_version {
                    self.rep.probe("advertised_kind_differs_from_held_kind");
                }
                break;
            }
            if round >= bound {
                let (k, t) = owed[0];
                self.violate(
                    "liveness.not_scheduled_within_bound",
                    "in_range_key_from_responsive_holder",
                    format!(
                        "k{k}/{} advertised by responsive h{h} in each of {round} rounds (bound {bound}) was never scheduled; {} keys owed",
                        t.tag(),
                        owed.len()
                    ),
                );
                break;
            }
        }
        self.deliver_all_completions("Lend").await;
        self.in_liveness = false;
    }

    async fn run(&mut self) {
        let plan = self.plan;
        self.rep.log(format!(
            "fetcher sim: mode={} keys={} holders={} dead={:?} held={} steps={}",
            plan.mode,
            self.n_keys(),
            self.holders.len(),
            plan.dead,
            self.index.len(),
            plan.steps.len()
        ));
        for (n, s) in plan.steps.iter().enumerate() {
            self.step(n, s).await;
            if self.stop {
                break;
            }
        }
        if !self.stop {
            self.resume_node("before-liveness").await;
        }
        if !self.stop {
            self.liveness().await;
        }
        // flush the parked event tasks in FIFO order
        let mut guard = 0;
        while !self.stop && !self.gates.is_empty() && guard < 1000 {
            guard += 1;
            self.do_deliver("end", 0).await;
        }
        for t in self.m.queue_set() {
            self.rep.state.write_str(&fmt_triple(&t));
        }
        self.rep.state.write_str("|");
        for t in self.m.infl_set() {
            self.rep.state.write_str(&fmt_triple(&t));
        }
        self.rep.state.write_str("|");
        for (k, t) in &self.index {
            self.rep.state.write_str(&format!("k{k}/{}", t.tag()));
        }
    }
}
