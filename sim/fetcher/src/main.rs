//! sim `fetcher`: the real `ReplicationFetcher` (through `ant_networking::verif::VerifFetcher`) driven by
//! seeded interleavings of advertisement lists from several holders, arrivals, early completions,
//! range / fullness updates and timer expiries in simulated time. Serves C08.

mod model;
mod glue;
mod world;

use serde::{Deserialize, Serialize};
use simkit::{GenCtx, PropertySpec, Rng, RunReport, Sim, Tier};

/// (key index, version) — the version decides the record type a holder advertises (model::ty_of)
pub type KV = (usize, u8);

#[derive(Serialize, Deserialize, Clone, Debug, PartialEq)]
#[serde(tag = "t")]
pub enum Step {
    /// `add_keys(holder, keys, index)`: one key = fresh-record advertisement, several = periodic list
    Advert { holder: usize, keys: Vec<KV> },
    /// the `sel`-th running network fetch of a responsive holder delivers its record (PutLocalRecord):
    /// outcome 0 stored, 1 store full (set_farthest_on_full, not stored), 2 other store error,
    /// 3 stored after the store evicted its farthest record
    Arrive { sel: u32, outcome: u8 },
    /// the `sel`-th running network fetch is reported complete early (FetchCompleted)
    Early { sel: u32 },
    /// FetchCompleted for a version nobody is fetching (or only queued)
    SpuriousEarly { key: usize, ver: u8 },
    /// a record reaches the node by another path (client upload / other fetch): index insert + notify
    Put { key: usize, ver: u8 },
    /// responsible distance := distance of the key of rank `rank` (+1 if `above`, -1 otherwise)
    SetRange { rank: usize, above: bool },
    /// `set_farthest_on_full(Some(key of rank))`, None = `set_farthest_on_full(None)`
    SetFarthest { rank: Option<usize> },
    /// the store drops its farthest held record (index shrinks, the fetcher is not told)
    Evict,
    Advance { ms: u64 },
    Next,
    /// deliver the `sel`-th parked event-sending task
    Deliver { sel: u32 },
    /// the node layer stalls: events sent from now on stay in the (small) event channel, un-received
    StallNode,
    /// the node layer catches up: every event sent meanwhile must arrive
    ResumeNode,
}

#[derive(Serialize, Deserialize, Clone, Debug)]
pub struct Plan {
    pub property: String,
    pub mode: String,
    pub node_key: u64,
    pub n_keys: usize,
    pub n_holders: usize,
    /// holders that never answer a fetch
    pub dead: Vec<bool>,
    pub chan_cap: usize,
    /// records held before the run starts
    pub held: Vec<KV>,
    pub steps: Vec<Step>,
    /// bounded-liveness phase at the end: this responsive holder keeps advertising this list
    pub live_holder: usize,
    pub live_keys: Vec<KV>,
    /// mode full_node_glue: the real driver glue around the fetcher (see glue.rs)
    #[serde(default)]
    pub glue: Option<glue::Glue>,
}

pub struct FetcherSim;

fn draw_ver(rng: &mut Rng, alt: u64) -> u8 {
    // mostly version 0; `alt`/16 of the draws pick another content version or a disagreeing kind
    if rng.below(16) < alt {
        *rng.pick(&[1u8, 1, 2, 2, 3, 4, 5, 6])
    } else {
        0
    }
}

/// Key indices of one advertisement list: a window of neighbouring indices or scattered keys.
fn draw_keys(rng: &mut Rng, n_keys: usize, len: usize) -> Vec<usize> {
    let base = rng.usize_below(n_keys);
    let windowed = rng.chance(1, 2);
    (0..len)
        .map(|i| if windowed { (base + i) % n_keys } else { rng.usize_below(n_keys) })
        .collect()
}

/// A holder holds one version of a key: the version is drawn the first time the holder advertises the key.
struct Holdings {
    ver: Vec<std::collections::BTreeMap<usize, u8>>,
    alt: u64,
}

impl Holdings {
    fn list(&mut self, rng: &mut Rng, holder: usize, keys: Vec<usize>) -> Vec<KV> {
        keys.into_iter()
            .map(|k| {
                let alt = self.alt;
                let v = *self.ver[holder].entry(k).or_insert_with(|| draw_ver(rng, alt));
                (k, v)
            })
            .collect()
    }
}

impl Sim for FetcherSim {
    type Plan = Plan;
    const NAME: &'static str = "fetcher";

    fn properties() -> Vec<PropertySpec> {
        vec![PropertySpec {
            id: "C08",
            level: "exploration",
            modes: vec!["nofault", "fault", "full_node_glue"],
            quick_runs: 60_000,
            thorough_runs: 4_000_000,
            rule: "One run = one seeded plan over a universe of 5..120 keys (chunk / scratchpad / register-or-transaction with several content versions) and 1..4 holders: single-key and multi-key advertisement lists with overlaps, re-advertisements and disagreeing versions, arrivals in chosen order (stored / store full / store error / stored after eviction), early completions, puts by other paths, range and farthest-on-full updates, next_keys_to_fetch calls, event deliveries and simulated-time advances (mode fault: dead holders, advances beyond FETCH_TIMEOUT and PENDING_TIMEOUT, late arrivals, spurious completions, range shrinkage and evictions while fetches are in flight; mode nofault: every holder answers and no timer expires), followed by a bounded-liveness phase (deliver, advance 25 s, re-advertise). Every returned list, both fetcher sets and every event are checked against oracle clauses (a)-(h) and a tracking model in simulated time. Non-trivial = >=3 operations and (>=1 fired fault or >=1 arrival/delivery order that differs from FIFO); distinct = distinct fingerprint of the executed sequence of resolved choices and faults.",
            assumptions: vec![
                "age(d) on every stored deadline is observationally the clock advancing by d; advances keep every modelled deadline >= 2.5 s from now and a run takes far less than 1 s of real time (re-run otherwise)",
                "the simulator plays SwarmDriver's part exactly as cmd.rs / request_response.rs do: index passed to add_keys, set_farthest_on_full before notify_about_new_put on a full store, notify regardless of the store result",
                "distances are recomputed by the harness as sha256(a) xor sha256(b), independent of NetworkAddress::distance / convert_distance_to_u256",
                "a fetch of (holder,key) delivers the version that holder advertised",
                "getrandom is the only entropy source (hash order is a function of the run's entropy)",
            ],
        }]
    }

    fn generate(rng: &mut Rng, ctx: &GenCtx) -> Plan {
        if ctx.mode == "full_node_glue" {
            let n_arr = rng.urange(1, 6);
            return Plan {
                property: ctx.property.clone(),
                mode: ctx.mode.clone(),
                node_key: rng.next_u64(),
                n_keys: 0,
                n_holders: 1,
                dead: vec![false],
                chan_cap: 4,
                held: vec![],
                steps: vec![],
                live_holder: 0,
                live_keys: vec![],
                glue: Some(if rng.chance(1, 4) {
                    // variant 2: held mutable records updated in place, then advertised in the version held (see glue.rs)
                    glue::Glue {
                        capacity: rng.urange(2, 8),
                        n_far: rng.urange(0, 3),
                        n_near: rng.urange(1, 4),
                        arrivals: (0..8).map(|_| rng.below(1 << 16) as u32).collect(),
                        variant: 2,
                    }
                } else if rng.chance(1, 3) {
                    // variant 1: a periodic list consisting mostly of records the node holds (see glue.rs)
                    glue::Glue {
                        capacity: rng.urange(6, 30),
                        n_far: rng.urange(1, 3),
                        n_near: rng.urange(0, 2),
                        arrivals: vec![rng.below(1 << 16) as u32, rng.below(1 << 16) as u32],
                        variant: 1,
                    }
                } else {
                    glue::Glue {
                        capacity: rng.urange(2, 6),
                        n_far: rng.urange(21, 40),
                        n_near: rng.urange(0, 3),
                        arrivals: (0..n_arr).map(|_| if rng.chance(1, 2) { 0 } else { rng.below(1 << 16) as u32 }).collect(),
                        variant: 0,
                    }
                }),
            };
        }
        let fault = ctx.mode == "fault";
        let n_keys = match rng.below(10) {
            0..=3 => rng.urange(5, 12),
            4..=7 => rng.urange(13, 45),
            _ => rng.urange(46, 120),
        };
        let n_holders = rng.urange(1, 4);
        let dead: Vec<bool> = (0..n_holders).map(|_| fault && rng.chance(1, 3)).collect();
        let node_key = rng.next_u64();
        let alt = *rng.pick(&[0u64, 1, 3, 6]);
        // initially held fraction
        let held_num = *rng.pick(&[0u64, 0, 1, 4, 7]);
        let mut held = vec![];
        for k in 0..n_keys {
            if rng.below(8) < held_num {
                held.push((k, draw_ver(rng, alt)));
            }
        }
        // swarm knobs
        let p_single = *rng.pick(&[1u64, 4, 8]); // of 10
        let big_lists = rng.chance(1, 2);
        let p_readvert = *rng.pick(&[0u64, 3, 6]); // of 10
        let w_advert = rng.range(25, 60);
        let w_arrive = rng.range(5, 45);
        let w_early = if rng.chance(1, 2) { rng.range(1, 8) } else { 0 };
        let w_put = if rng.chance(1, 2) { rng.range(1, 8) } else { 0 };
        let w_next = rng.range(1, 8);
        let w_advance = rng.range(2, 14);
        let w_deliver = rng.range(1, 8);
        let w_range = if fault && rng.chance(2, 3) { rng.range(1, 6) } else { 0 };
        let w_far = if fault && rng.chance(1, 2) { rng.range(1, 5) } else { 0 };
        let w_spurious = if fault && rng.chance(1, 2) { rng.range(1, 4) } else { 0 };
        let w_evict = if fault && rng.chance(1, 3) { rng.range(1, 3) } else { 0 };
        let w_stall = if fault && rng.chance(1, 2) { rng.range(1, 4) } else { 0 };
        let weights = [
            w_advert, w_arrive, w_early, w_put, w_next, w_advance, w_deliver, w_range, w_far, w_spurious, w_evict, w_stall,
        ];
        let arrival_order = rng.below(3); // 0 fifo, 1 lifo, 2 random
        let bad_store = if fault { *rng.pick(&[0u64, 1, 3]) } else { 0 }; // of 10 arrivals
        let n_steps = match ctx.tier {
            Tier::Quick => rng.urange(5, 60),
            Tier::Thorough => rng.urange(5, 90),
        };
        let mut steps: Vec<Step> = Vec::with_capacity(n_steps + 8);
        // most runs start with a responsible range
        if rng.chance(3, 4) {
            steps.push(Step::SetRange { rank: rng.usize_below(n_keys), above: rng.chance(1, 2) });
        }
        let mut last_list: Vec<Option<Vec<KV>>> = vec![None; n_holders];
        let mut holdings = Holdings { ver: vec![Default::default(); n_holders], alt };
        let draw_sel = |rng: &mut Rng| match arrival_order {
            0 => 0u32,
            1 => u32::MAX,
            _ => rng.below(1 << 16) as u32,
        };
        let draw_advance = |rng: &mut Rng| -> u64 {
            if !fault {
                return rng.range(100, 6_000);
            }
            match rng.below(10) {
                0..=3 => rng.range(100, 6_000),
                4..=5 => rng.range(6_000, 19_000),
                6..=8 => rng.range(20_500, 60_000),
                _ => rng.range(860_000, 960_000),
            }
        };
        while steps.len() < n_steps {
            let s = match rng.weighted(&weights) {
                0 => {
                    let holder = rng.usize_below(n_holders);
                    let keys = if rng.below(10) < p_readvert && last_list[holder].is_some() {
                        // periodic replication: the same list again, sometimes with one more / one fewer key
                        let mut l = last_list[holder].clone().unwrap();
                        match rng.below(4) {
                            0 => {
                                let extra = vec![rng.usize_below(n_keys)];
                                l.extend(holdings.list(rng, holder, extra));
                            }
                            1 if l.len() > 1 => {
                                let i = rng.usize_below(l.len());
                                l.remove(i);
                            }
                            _ => {}
                        }
                        l
                    } else if rng.below(10) < p_single {
                        let ks = draw_keys(rng, n_keys, 1);
                        holdings.list(rng, holder, ks)
                    } else {
                        let len = if big_lists && rng.chance(1, 2) {
                            rng.urange(15, n_keys.clamp(16, 70))
                        } else {
                            rng.urange(2, 7)
                        };
                        let ks = draw_keys(rng, n_keys, len);
                        holdings.list(rng, holder, ks)
                    };
                    if keys.len() > 1 {
                        last_list[holder] = Some(keys.clone());
                    }
                    Step::Advert { holder, keys }
                }
                1 => Step::Arrive {
                    sel: draw_sel(rng),
                    outcome: if rng.below(10) < bad_store { rng.range(1, 3) as u8 } else { 0 },
                },
                2 => Step::Early { sel: draw_sel(rng) },
                3 => Step::Put { key: rng.usize_below(n_keys), ver: draw_ver(rng, alt) },
                4 => Step::Next,
                5 => Step::Advance { ms: draw_advance(rng) },
                6 => Step::Deliver { sel: if rng.chance(1, 2) { 0 } else { rng.below(1 << 16) as u32 } },
                7 => Step::SetRange { rank: rng.usize_below(n_keys), above: rng.chance(1, 2) },
                8 => Step::SetFarthest {
                    rank: if rng.chance(1, 8) { None } else { Some(rng.usize_below(n_keys)) },
                },
                9 => Step::SpuriousEarly { key: rng.usize_below(n_keys), ver: draw_ver(rng, alt) },
                10 => Step::Evict,
                _ => if rng.chance(2, 3) { Step::StallNode } else { Step::ResumeNode },
            };
            let created_inflight = matches!(s, Step::Advert { .. });
            steps.push(s);
            // faults land with bias right after an operation that created in-flight state
            if fault && created_inflight && rng.chance(1, 4) {
                steps.push(match rng.below(4) {
                    0 => Step::Advance { ms: rng.range(20_500, 45_000) },
                    1 => Step::SetRange { rank: rng.usize_below(n_keys), above: false },
                    2 => Step::SetFarthest { rank: Some(rng.usize_below(n_keys)) },
                    _ => Step::Arrive { sel: draw_sel(rng), outcome: rng.range(0, 3) as u8 },
                });
            }
        }
        let live_len = match rng.below(4) {
            0 => 1,
            1 => rng.urange(2, 6),
            _ => rng.urange(2, n_keys.min(40)),
        };
        let live_holder = rng.usize_below(n_holders);
        let responsive: Vec<usize> = (0..n_holders).filter(|h| !dead[*h]).collect();
        let live_keys = if rng.chance(1, 8) || responsive.is_empty() {
            vec![]
        } else {
            let h = responsive[live_holder % responsive.len()];
            let ks = draw_keys(rng, n_keys, live_len);
            holdings.list(rng, h, ks)
        };
        Plan {
            property: ctx.property.clone(),
            mode: ctx.mode.clone(),
            node_key,
            n_keys,
            n_holders,
            dead,
            chan_cap: rng.urange(1, 6),
            held,
            steps,
            live_holder,
            live_keys,
            glue: None,
        }
    }

    fn execute(plan: &Plan, entropy: u64) -> RunReport {
        if plan.glue.is_some() {
            return glue::execute(plan, entropy);
        }
        world::execute(plan, entropy)
    }

    fn shrink(plan: &Plan) -> Vec<Plan> {
        let mut out = vec![];
        if !plan.live_keys.is_empty() {
            let mut p = plan.clone();
            p.live_keys.clear();
            out.push(p);
        }
        for steps in simkit::shrink::remove_chunks(&plan.steps) {
            let mut p = plan.clone();
            p.steps = steps;
            out.push(p);
        }
        if !plan.held.is_empty() {
            for held in simkit::shrink::remove_chunks(&plan.held).into_iter().take(24) {
                let mut p = plan.clone();
                p.held = held;
                out.push(p);
            }
        }
        if plan.live_keys.len() > 1 {
            for lk in simkit::shrink::remove_chunks(&plan.live_keys).into_iter().take(24) {
                let mut p = plan.clone();
                p.live_keys = lk;
                out.push(p);
            }
        }
        for steps in simkit::shrink::simplify_each(&plan.steps, |s| match s {
            Step::Advert { holder, keys } if keys.len() > 1 => {
                let mut alts = vec![];
                for l in simkit::shrink::remove_chunks(keys).into_iter().take(12) {
                    if !l.is_empty() {
                        alts.push(Step::Advert { holder: *holder, keys: l });
                    }
                }
                alts
            }
            Step::Arrive { sel, outcome } if *sel != 0 || *outcome != 0 => {
                let mut alts = vec![];
                if *outcome != 0 {
                    alts.push(Step::Arrive { sel: *sel, outcome: 0 });
                }
                if *sel != 0 {
                    alts.push(Step::Arrive { sel: 0, outcome: *outcome });
                }
                alts
            }
            Step::Early { sel } if *sel != 0 => vec![Step::Early { sel: 0 }],
            Step::Deliver { sel } if *sel != 0 => vec![Step::Deliver { sel: 0 }],
            _ => vec![],
        }) {
            let mut p = plan.clone();
            p.steps = steps;
            out.push(p);
        }
        if plan.dead.iter().any(|d| *d) {
            let mut p = plan.clone();
            p.dead = vec![false; plan.n_holders];
            out.push(p);
        }
        if plan.chan_cap != 4 {
            let mut p = plan.clone();
            p.chan_cap = 4;
            out.push(p);
        }
        out
    }

    fn components() -> Vec<(&'static str, &'static str)> {
        vec![
            ("ReplicationFetcher (add_keys, notify_about_new_put, notify_fetch_early_completed, set_replication_distance_range, set_farthest_on_full, next_keys_to_fetch, timeout pruning, FailedToFetchHolders event task)", "real, through the guarded wrapper ant_networking::verif::VerifFetcher"),
            ("NetworkAddress / KBucket distance, convert_distance_to_u256", "real (the oracle recomputes distances independently)"),
            ("SwarmDriver glue around the fetcher (add_keys_to_replication_fetcher, PutLocalRecord, FetchCompleted handlers)", "mirrored: the simulator makes the same fetcher calls in the same order"),
            ("record store index (locally stored keys), store fullness / eviction", "stub: a map kept by the simulator"),
            ("holders, network fetches (GetReplicatedRecord), arrival order", "stub: the simulator decides which running fetch completes next, or never"),
            ("std::time::Instant deadlines", "real Instants, shifted by the guarded age(d) hook; simulated time is the sum of the shifts"),
            ("tokio task that sends FailedToFetchHolders", "real, parked at a gate until the simulator delivers it"),
        ]
    }
}

fn main() {
    simkit::check::main::<FetcherSim>();
}
