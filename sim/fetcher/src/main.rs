//! sim `fetcher` — skeleton, to be filled in (see /verif/DESIGN.md section 5).
fn main() {
    eprintln!("HARNESS-ERROR: sim fetcher not built yet");
    std::process::exit(2);
}
