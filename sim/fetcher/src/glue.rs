//! Mode `full_node_glue` of the `fetcher` sim: the clause "once the node is full nothing farther than its
//! farthest held record is fetched" against the REAL driver glue (SwarmDriver::handle_local_cmd PutLocalRecord,
//! the replicate-request handler, the real NodeRecordStore at a small capacity) instead of the mirrored glue
//! of the main mode. One run: fill a store to its capacity, let a close neighbour advertise a backlog of
//! records of which most are farther than everything held, deliver fetched records (refused with MaxRecords,
//! or accepted with eviction) in seeded order, and after every delivery look at what the fetcher schedules.

use crate::model::xor_distance;
use crate::Plan;
use ant_networking::verif::{self as hooks, LocalSwarmCmd};
use ant_networking::{NetworkBuilder, NetworkEvent};
use ant_protocol::storage::{try_serialize_record, RecordKind, RecordType};
use ant_protocol::NetworkAddress;
use libp2p::identity::Keypair;
use libp2p::kad::{Record, RecordKey};
use serde::{Deserialize, Serialize};
use sha2::{Digest, Sha256};
use simkit::rt::settle;
use simkit::RunReport;
use std::collections::BTreeSet;
use std::path::PathBuf;
use std::sync::atomic::{AtomicU64, Ordering};

const PROP: &str = "C08";
static RUN_COUNTER: AtomicU64 = AtomicU64::new(0);

#[derive(Serialize, Deserialize, Clone, Debug)]
pub struct Glue {
    pub capacity: usize,
    /// advertised records farther than every held record / closer than the farthest held record
    pub n_far: usize,
    pub n_near: usize,
    /// which running fetch delivers next (index into the in-flight list, modulo its length)
    pub arrivals: Vec<u32>,
    /// 0 = full-node clause; 1 = a periodic list consisting mostly of records the node already holds, plus
    /// `n_far` records outside and `n_near` records inside the responsible range, on a node that is not full
    #[serde(default)]
    pub variant: u8,
}

struct RunDir(PathBuf);
impl Drop for RunDir {
    fn drop(&mut self) {
        let _ = std::fs::remove_dir_all(&self.0);
    }
}

fn key_bytes(seed: u64, tag: &str, i: u64) -> Vec<u8> {
    let mut h = Sha256::new();
    h.update(b"antsim-glue");
    h.update(seed.to_le_bytes());
    h.update(tag.as_bytes());
    h.update(i.to_le_bytes());
    h.finalize().to_vec()
}

fn ed_key(seed: u64, i: u64) -> Keypair {
    let mut b = key_bytes(seed, "ed", i);
    Keypair::ed25519_from_bytes(&mut b[..32]).expect("ed25519 key")
}

fn record_for(key: &[u8]) -> Record {
    // PutLocalRecord is the post-validation entry: the store does not look at the content again
    let value = try_serialize_record(&key.to_vec(), RecordKind::Chunk).expect("serialize").to_vec();
    Record { key: RecordKey::new(&key), value, publisher: None, expires: None }
}

pub fn execute(plan: &Plan, entropy: u64) -> RunReport {
    let g = plan.glue.clone().expect("glue plan");
    let seed = plan.node_key;
    simkit::rt::block_on(entropy, async move {
        let mut rep = RunReport::default();
        let n = RUN_COUNTER.fetch_add(1, Ordering::SeqCst);
        let root = PathBuf::from(format!("/dev/shm/antsim/{}/fetcher-glue-{n}", std::process::id()));
        let _guard = RunDir(root.clone());
        if let Err(e) = std::fs::create_dir_all(&root) {
            rep.harness_error = Some(format!("mkdir {root:?}: {e}"));
            return rep;
        }
        hooks::gates_install();
        let kp = ed_key(seed, 0);
        let me = kp.public().to_peer_id().to_bytes();
        let built = NetworkBuilder::new(kp, true).verif_build_node(root.clone(), Some(if g.variant == 1 { 4096 } else { g.capacity }), None);
        let (_network, mut events, mut driver) = match built {
            Ok(x) => x,
            Err(e) => {
                rep.harness_error = Some(format!("verif_build_node: {e}"));
                return rep;
            }
        };
        rep.log(format!("fetcher glue sim: capacity={} far={} near={}", g.capacity, g.n_far, g.n_near));

        // everything local runs to completion, FIFO
        macro_rules! quiesce {
            () => {{
                for _ in 0..100_000 {
                    settle().await;
                    let mut progressed = false;
                    while let Some(cmd) = driver.verif_try_recv_local_cmd() {
                        let _ = driver.verif_handle_local_cmd(cmd);
                        progressed = true;
                    }
                    while driver.verif_try_recv_network_cmd().is_some() {
                        progressed = true;
                    }
                    if let Some(gate) = hooks::gates_pending().first() {
                        hooks::gate_open(gate.id);
                        progressed = true;
                    }
                    if !progressed {
                        break;
                    }
                }
            }};
        }

        if g.variant == 2 {
            // ---- mutable records updated in place; the version held must never be fetched again -----------------------
            // `capacity` mutable records (register / transaction kind alternately), each put in 1..3 successive
            // versions through the real PutLocalRecord handler (write, acknowledgement, index update all real);
            // then a close neighbour advertises, per record, the version held (must schedule nothing), and for
            // `n_far` records a version nobody holds here (should be tracked).
            let n = g.capacity.max(1);
            let mutable_value = |i: usize, version: u32| -> Vec<u8> {
                let kind = if i % 2 == 0 { RecordKind::Register } else { RecordKind::Transaction };
                try_serialize_record(&(key_bytes(seed, "mut", i as u64), version), kind).expect("serialize").to_vec()
            };
            let keys: Vec<Vec<u8>> = (0..n).map(|i| key_bytes(seed, "mutkey", i as u64)).collect();
            let mut version_held: Vec<u32> = vec![0; n];
            for i in 0..n {
                let versions = 1 + g.arrivals[i % g.arrivals.len()] % 3;
                for v in 1..=versions {
                    let rec = Record { key: RecordKey::new(&keys[i]), value: mutable_value(i, v), publisher: None, expires: None };
                    let _ = driver.verif_handle_local_cmd(LocalSwarmCmd::PutLocalRecord { record: rec });
                    // the second half of the records: all versions are issued back to back, acknowledged afterwards
                    if i < n / 2 || v == versions {
                        quiesce!();
                    }
                    version_held[i] = v;
                }
                if versions > 1 {
                    rep.probe("mutable_record_updated_in_place");
                }
            }
            quiesce!();
            while events.try_recv().is_ok() {}
            let holder = ed_key(seed, 1).public().to_peer_id();
            let addr = format!("/ip4/10.0.0.9/udp/9000/quic-v1/p2p/{holder}").parse().expect("multiaddr");
            if !driver.verif_add_peer(holder, addr) {
                rep.harness_error = Some("holder not accepted by the routing table".into());
                return rep;
            }
            let hash_of = |value: &[u8]| xor_name::XorName::from_content(value);
            let new_for: Vec<usize> = (0..g.n_far.min(n)).map(|j| (g.arrivals[(j + 3) % g.arrivals.len()] as usize) % n).collect();
            // list shapes: one periodic list with every record, then single-record lists (fresh-record notifications)
            let mut lists: Vec<Vec<(usize, u32)>> = vec![(0..n).map(|i| (i, if new_for.contains(&i) { version_held[i] + 7 } else { version_held[i] })).collect()];
            for k in 0..g.n_near.min(n) {
                let i = (g.arrivals[(k + 5) % g.arrivals.len()] as usize) % n;
                lists.push(vec![(i, version_held[i])]);
            }
            for (li, list) in lists.iter().enumerate() {
                let adv: Vec<(NetworkAddress, RecordType)> = list
                    .iter()
                    .map(|(i, v)| (NetworkAddress::from_record_key(&RecordKey::new(&keys[*i])), RecordType::NonChunk(hash_of(&mutable_value(*i, *v)))))
                    .collect();
                rep.ops += 1;
                rep.log(format!("list #{li}: {} mutable records advertised, {} of them in a version not held", adv.len(), list.iter().filter(|(i, v)| *v != version_held[*i]).count()));
                driver.verif_handle_replicate_request(NetworkAddress::from_peer(holder), adv);
                quiesce!();
                let mut scheduled: Vec<Vec<u8>> = vec![];
                while let Ok(ev) = events.try_recv() {
                    if let NetworkEvent::KeysToFetchForReplication(ks) = ev {
                        scheduled.extend(ks.into_iter().map(|(_, k)| k.to_vec()));
                    }
                }
                let tracked: Vec<(Vec<u8>, RecordType)> = driver.verif_fetcher_in_flight().into_iter().chain(driver.verif_fetcher_queued()).map(|(k, t, _)| (k.to_vec(), t)).collect();
                for (i, v) in list {
                    let held_version = *v == version_held[*i];
                    let ty = RecordType::NonChunk(hash_of(&mutable_value(*i, *v)));
                    let is_tracked = tracked.iter().any(|(k, t)| *k == keys[*i] && *t == ty);
                    if held_version && (is_tracked || (list.len() == 1 && scheduled.contains(&keys[*i]))) {
                        rep.violate(
                            PROP,
                            "held.fetch_scheduled_for_held_record",
                            &[("glue", "real_driver".into()), ("shape", "mutable_record_updated_in_place".into())],
                            format!("the node holds record {} in version {} (written in place over {} earlier version(s), acknowledged) and still schedules a fetch of exactly that version when a neighbour advertises it", hex::encode(&keys[*i][..3]), v, v - 1),
                        );
                        hooks::gates_uninstall();
                        return rep;
                    }
                    if !held_version {
                        if is_tracked {
                            rep.probe("unheld_version_of_held_record_tracked");
                        } else {
                            // no range is set, the list is far shorter than the parallel-fetch limit, the holder is a
                            // close peer: an advertised version the node does not hold is at least queued
                            rep.violate(
                                PROP,
                                "liveness.unheld_version_of_held_record_not_tracked",
                                &[("glue", "real_driver".into())],
                                format!("a close neighbour advertises version {} of record {} (the node holds version {}): the fetcher neither queues nor fetches it", v, hex::encode(&keys[*i][..3]), version_held[*i]),
                            );
                            hooks::gates_uninstall();
                            return rep;
                        }
                    }
                }
                rep.probe("held_versions_advertised_nothing_fetched");
                rep.steps += 1;
            }
            rep.state.write_u64(n as u64);
            hooks::gates_uninstall();
            return rep;
        }

        if g.variant == 1 {
            // ---- periodic list of mostly held records, through the real replicate-request handler -------------------
            let held_n = g.capacity; // the store itself keeps its default capacity's worth of room: build with a big one
            let mut pool: Vec<(crate::model::D256, Vec<u8>)> = (0..(held_n as u64 + 12) * 2)
                .map(|i| {
                    let k = key_bytes(seed, "key", i);
                    (xor_distance(&me, &k), k)
                })
                .collect();
            pool.sort();
            // the nearer part is held (except a few gaps = in-range records not held), the farthest few are not held
            let n_out = g.n_far.max(1);
            let n_in = g.n_near;
            let cut = pool.len() - n_out - 4;
            let outside: Vec<Vec<u8>> = pool[pool.len() - n_out..].iter().map(|e| e.1.clone()).collect();
            let mut held: Vec<Vec<u8>> = vec![];
            let mut inside: Vec<Vec<u8>> = vec![];
            for (i, e) in pool[..cut].iter().enumerate() {
                if inside.len() < n_in && i % 5 == 2 {
                    inside.push(e.1.clone());
                } else if held.len() < held_n {
                    held.push(e.1.clone());
                }
            }
            // only records nearer than the farthest held one are "inside"
            let far_held = held.iter().map(|k| xor_distance(&me, k)).max().expect("held");
            inside.retain(|k| xor_distance(&me, k) < far_held);
            for k in &held {
                let _ = driver.verif_handle_local_cmd(LocalSwarmCmd::PutLocalRecord { record: record_for(k) });
                quiesce!();
            }
            // responsible range: the distance of the farthest HELD record (every "outside" record is at least four
            // pool entries farther, every "inside" record nearer: no boundary case)
            let range = held.iter().map(|k| xor_distance(&me, k)).max().expect("held");
            let range_bytes: [u8; 32] = range;
            driver.verif_set_responsible_range(ant_evm::U256::from_be_bytes(range_bytes));
            while events.try_recv().is_ok() {}
            let holder = ed_key(seed, 1).public().to_peer_id();
            let addr = format!("/ip4/10.0.0.9/udp/9000/quic-v1/p2p/{holder}").parse().expect("multiaddr");
            if !driver.verif_add_peer(holder, addr) {
                rep.harness_error = Some("holder not accepted by the routing table".into());
                return rep;
            }
            // lists: all held + exactly one record not held (the shape that a pre-filter turns into a "single key"),
            // then all held + every record not held
            let mut lists: Vec<Vec<Vec<u8>>> = vec![];
            let pick_out = outside[g.arrivals[0] as usize % outside.len()].clone();
            let mut l1 = held.clone();
            l1.insert(g.arrivals[1] as usize % (held.len() + 1), pick_out);
            lists.push(l1);
            let mut l2 = held.clone();
            l2.extend(outside.iter().cloned());
            l2.extend(inside.iter().cloned());
            lists.push(l2);
            for (li, list) in lists.iter().enumerate() {
                let keys: Vec<(NetworkAddress, RecordType)> =
                    list.iter().map(|k| (NetworkAddress::from_record_key(&RecordKey::new(k)), RecordType::Chunk)).collect();
                rep.ops += 1;
                rep.log(format!("periodic list #{li}: {} records, {} of them held, range = distance of the farthest held record", keys.len(), held.len()));
                driver.verif_handle_replicate_request(NetworkAddress::from_peer(holder), keys);
                quiesce!();
                let mut scheduled: Vec<Vec<u8>> = vec![];
                while let Ok(ev) = events.try_recv() {
                    if let NetworkEvent::KeysToFetchForReplication(keys) = ev {
                        scheduled.extend(keys.into_iter().map(|(_, k)| k.to_vec()));
                    }
                }
                let tracked: Vec<Vec<u8>> = driver
                    .verif_fetcher_in_flight()
                    .into_iter()
                    .chain(driver.verif_fetcher_queued())
                    .map(|(k, _, _)| k.to_vec())
                    .chain(scheduled.iter().cloned())
                    .collect();
                if let Some(bad) = tracked.iter().find(|k| xor_distance(&me, k) > range) {
                    rep.violate(
                        PROP,
                        "range.out_of_range_key_admitted",
                        &[("glue", "real_driver".into()), ("shape", "multi_record_list_of_mostly_held_records".into())],
                        format!("a multi-record advertisement ({} records, all but {} held) made the node track/fetch {} which lies outside its responsible range", list.len(), list.len() - held.len(), hex::encode(&bad[..3])),
                    );
                    break;
                }
                if let Some(bad) = tracked.iter().find(|k| held.contains(k)) {
                    rep.violate(
                        PROP,
                        "held.fetch_scheduled_for_held_record",
                        &[("glue", "real_driver".into())],
                        format!("the node tracks/fetches {} which it holds in the advertised version", hex::encode(&bad[..3])),
                    );
                    break;
                }
                if li == 1 {
                    let missing = inside.iter().filter(|k| !tracked.contains(k)).count();
                    if missing > 0 {
                        rep.probe("in_range_record_of_periodic_list_not_tracked_yet");
                    } else if !inside.is_empty() {
                        rep.probe("in_range_records_of_periodic_list_tracked");
                    }
                }
                rep.probe("periodic_list_of_mostly_held_records_handled");
                rep.steps += 1;
            }
            rep.state.write_u64(held.len() as u64);
            hooks::gates_uninstall();
            return rep;
        }

        // candidate keys ordered by the harness's own distance
        let mut pool: Vec<(crate::model::D256, Vec<u8>)> = (0..(g.capacity + g.n_far + g.n_near + 8) as u64 * 3)
            .map(|i| {
                let k = key_bytes(seed, "key", i);
                (xor_distance(&me, &k), k)
            })
            .collect();
        pool.sort();
        // held: `capacity` keys out of the nearer half, leaving gaps for the "near" adverts
        let mut held: Vec<(crate::model::D256, Vec<u8>)> = vec![];
        let mut near: Vec<(crate::model::D256, Vec<u8>)> = vec![];
        let mut far: Vec<(crate::model::D256, Vec<u8>)> = vec![];
        for (i, e) in pool.iter().enumerate() {
            if held.len() < g.capacity && (i % 2 == 0 || near.len() >= g.n_near) {
                held.push(e.clone());
            } else if held.len() < g.capacity {
                near.push(e.clone());
            } else if far.len() < g.n_far {
                far.push(e.clone());
            }
        }
        near.retain(|e| held.last().map(|h| e.0 < h.0).unwrap_or(false));
        for (_, k) in &held {
            let _ = driver.verif_handle_local_cmd(LocalSwarmCmd::PutLocalRecord { record: record_for(k) });
            quiesce!();
        }
        let index: BTreeSet<Vec<u8>> = driver
            .verif_store_mut()
            .verif_node_store()
            .map(|s| s.verif_index().into_iter().map(|(k, _, _)| k.to_vec()).collect())
            .unwrap_or_default();
        if index.len() != g.capacity {
            rep.harness_error = Some(format!("store holds {} records after filling to capacity {}", index.len(), g.capacity));
            return rep;
        }
        while events.try_recv().is_ok() {}

        // a close neighbour advertises the backlog
        let holder = ed_key(seed, 1).public().to_peer_id();
        let addr = format!("/ip4/10.0.0.9/udp/9000/quic-v1/p2p/{holder}").parse().expect("multiaddr");
        if !driver.verif_add_peer(holder, addr) {
            rep.harness_error = Some("holder not accepted by the routing table".into());
            return rep;
        }
        let mut advert: Vec<Vec<u8>> = far.iter().map(|e| e.1.clone()).collect();
        advert.extend(near.iter().map(|e| e.1.clone()));
        // interleave deterministically
        advert.sort_by_key(|k| key_bytes(seed, "order", k[0] as u64 * 256 + k[1] as u64));
        let keys: Vec<(NetworkAddress, RecordType)> = advert.iter().map(|k| (NetworkAddress::from_record_key(&RecordKey::new(k)), RecordType::Chunk)).collect();
        rep.ops += 1;
        rep.log(format!("neighbour advertises {} records ({} farther than everything held, {} nearer than the farthest held)", keys.len(), far.len(), near.len()));
        driver.verif_handle_replicate_request(NetworkAddress::from_peer(holder), keys);
        quiesce!();
        while events.try_recv().is_ok() {}

        let mut held_now: BTreeSet<Vec<u8>> = index;
        let dist = |k: &[u8]| xor_distance(&me, k);
        for (step, sel) in g.arrivals.iter().enumerate() {
            let in_flight: Vec<Vec<u8>> = driver.verif_fetcher_in_flight().into_iter().map(|(k, _, _)| k.to_vec()).collect();
            if in_flight.is_empty() {
                rep.log("no fetch in flight");
                break;
            }
            let mut sorted = in_flight.clone();
            sorted.sort();
            let k = sorted[*sel as usize % sorted.len()].clone();
            if *sel as usize % sorted.len() != 0 {
                rep.nonfifo += 1;
            }
            rep.sched.write_u64(*sel as u64 % sorted.len() as u64);
            let farthest_before = held_now.iter().map(|h| dist(h)).max().expect("held");
            let res = driver.verif_handle_local_cmd(LocalSwarmCmd::PutLocalRecord { record: record_for(&k) });
            rep.ops += 1;
            let refused = res.is_err();
            rep.log(format!("arrival #{step}: fetched record {} ({}) -> {}", hex::encode(&k[..3]), if dist(&k) > farthest_before { "farther than all held" } else { "nearer than the farthest held" }, if refused { "refused (store full)" } else { "accepted" }));
            if refused {
                rep.fault("fetched_record_refused_store_full");
            }
            quiesce!();
            held_now = driver
                .verif_store_mut()
                .verif_node_store()
                .map(|s| s.verif_index().into_iter().map(|(k, _, _)| k.to_vec()).collect())
                .unwrap_or_default();
            let farthest_now = held_now.iter().map(|h| dist(h)).max().expect("held");
            // what the fetcher scheduled because of this arrival
            let mut scheduled: Vec<Vec<u8>> = vec![];
            while let Ok(ev) = events.try_recv() {
                if let NetworkEvent::KeysToFetchForReplication(keys) = ev {
                    scheduled.extend(keys.into_iter().map(|(_, k)| k.to_vec()));
                }
            }
            // the limit is (re)set when the store reports full: checked right after a refused arrival, against the
            // farthest record held at that moment (the main mode of this sim reads the clause the same way)
            if refused {
                if let Some(bad) = scheduled.iter().find(|s| dist(s) > farthest_now) {
                    rep.violate(
                        PROP,
                        "farthest.fetch_scheduled_beyond_farthest_on_full_node",
                        &[("glue", "real_driver".into())],
                        format!("after the store refused a record as full, the driver scheduled a fetch of {} which is farther than the farthest held record", hex::encode(&bad[..3])),
                    );
                    break;
                }
                let lingering: Vec<Vec<u8>> = driver
                    .verif_fetcher_in_flight()
                    .into_iter()
                    .chain(driver.verif_fetcher_queued())
                    .map(|(k, _, _)| k.to_vec())
                    .filter(|s| dist(s) > farthest_now)
                    .collect();
                if let Some(bad) = lingering.first() {
                    rep.violate(
                        PROP,
                        "farthest.farther_entry_kept",
                        &[("glue", "real_driver".into())],
                        format!("after the store refused a record as full, the fetcher still tracks {} ({} entries) farther than the farthest held record", hex::encode(&bad[..3]), lingering.len()),
                    );
                    break;
                }
                rep.probe("full_node_schedules_nothing_farther");
            }
            rep.steps += 1;
        }
        rep.state.write_u64(held_now.len() as u64);
        hooks::gates_uninstall();
        rep
    })
}
