//! sim `bootcache`: 1..4 "processes", each a real `ant_bootstrap::BootstrapCacheStore`, all flushing to one
//! cache file. Every flush runs on its own OS thread and parks at the guarded gates between its steps
//! (loaded / merged / temp file opened / bytes written / commit); the simulator releases exactly one
//! parked writer at a time, injects corrupt / foreign files, crashes writers at gates, and loads the
//! shared file with the real `load_cache_data` after every step. Serves C18.

mod model;
mod world;

use serde::{Deserialize, Serialize};
use simkit::{GenCtx, PropertySpec, Rng, RunReport, Sim, Tier};

#[derive(Serialize, Deserialize, Clone, Debug, PartialEq)]
pub struct CraftEnt {
    pub peer: usize,
    pub var: usize,
    pub succ: u32,
    pub fail: u32,
    /// age class, see model::crafted_age
    pub age: u8,
}

#[derive(Serialize, Deserialize, Clone, Debug, PartialEq)]
#[serde(tag = "t")]
pub enum Step {
    /// `add_addr` on process `proc` (modulo the number of processes) of the address (peer, var) in `shape`.
    Add { proc: usize, peer: usize, var: usize, shape: u8, relay: usize },
    /// `update_addr_status(addr, success)` repeated `times` times.
    Status { proc: usize, peer: usize, var: usize, success: bool, times: u8 },
    Remove { proc: usize, peer: usize, var: usize },
    Cleanup { proc: usize },
    /// Start `sync_and_flush_to_disk(cleanup)` on a writer thread; it runs until its first gate.
    /// detach = as the node does it (flush a clone, continue with a fresh empty store);
    /// otherwise the process is busy until the flush ends (as antnode's start-up flush).
    Flush { proc: usize, cleanup: bool, detach: bool },
    /// Start a plain `write()` (no sync) on a writer thread.
    Write { proc: usize },
    /// Release the `sel`-th parked writer (modulo how many are parked; u32::MAX = the last) for one step.
    Run { sel: u32 },
    /// Release parked writers in FIFO order until none is left.
    Settle,
    /// A well-behaved other program replaces the cache file (temp file + rename) with this valid content.
    Craft { entries: Vec<CraftEnt> },
    /// The process exits without flushing and starts again (memory lost). Skipped while it has a flush in flight.
    Restart { proc: usize },
    /// FAULT: overwrite the cache file: 0 truncated, 1 bit flipped, 2 empty, 3 wrong schema.
    Corrupt { how: u8, arg: u32 },
    /// FAULT: the cache file is replaced by a well-formed file of another network.
    Foreign { entries: Vec<CraftEnt> },
    /// FAULT: the process owning the `sel`-th parked writer is killed: all its parked writers are abandoned.
    Crash { sel: u32 },
}

#[derive(Serialize, Deserialize, Clone, Debug)]
pub struct Plan {
    pub property: String,
    pub mode: String,
    /// seed of the address universe (peer ids)
    pub ukey: u64,
    pub n_procs: usize,
    pub n_peers: usize,
    pub n_vars: usize,
    pub max_peers: usize,
    pub max_addrs: usize,
    pub expiry_s: u64,
    /// the stores are built the way antnode builds them: BootstrapCacheStore::new_from_peers_args with a
    /// --bootstrap-cache-dir (the cache file then lives in that directory, not at the config's own path)
    #[serde(default)]
    pub via_peers_args: bool,
    pub steps: Vec<Step>,
}

pub struct BootcacheSim;

fn gen_entries(rng: &mut Rng, n_peers: usize, n_vars: usize, fault: bool, max: usize) -> Vec<CraftEnt> {
    let n = rng.urange(0, max);
    let huge = rng.chance(1, 8);
    let mut seen = std::collections::BTreeSet::new();
    let mut out = vec![];
    for _ in 0..n {
        let peer = rng.usize_below(n_peers);
        let var = rng.usize_below(n_vars);
        if !seen.insert((peer, var)) {
            continue;
        }
        let (succ, fail) = if huge && rng.chance(1, 2) {
            let big = [u32::MAX, u32::MAX - 1, 1 << 31, (1 << 31) + 7, u32::MAX - 3];
            (*rng.pick(&big), if rng.chance(1, 2) { *rng.pick(&big) } else { rng.below(4) as u32 })
        } else {
            match rng.below(6) {
                0 => (0, 0),
                1 => (rng.range(1, 5) as u32, rng.range(1, 5) as u32),
                2 => (rng.range(0, 2) as u32, rng.range(2, 6) as u32), // failing
                _ => (rng.range(1, 9) as u32, rng.range(0, 1) as u32),
            }
        };
        // ages: mostly fresh, some expired, future stamps (clock skew) only in fault mode
        let age = match rng.below(10) {
            0..=5 => rng.below(5) as u8,
            6..=8 => 5 + rng.below(4) as u8,
            _ => {
                if fault {
                    // 9 / 19 / 29: an hour or a few in the future; 99: half an hour before the end of time
                    if rng.chance(1, 4) { 99 } else { 9 + 10 * rng.below(3) as u8 }
                } else {
                    rng.below(9) as u8
                }
            }
        };
        out.push(CraftEnt { peer, var, succ, fail, age });
    }
    out
}

impl Sim for BootcacheSim {
    type Plan = Plan;
    const NAME: &'static str = "bootcache";

    fn properties() -> Vec<PropertySpec> {
        vec![PropertySpec {
            id: "C18",
            level: "exploration",
            modes: vec!["nofault", "fault"],
            quick_runs: 12_000,
            thorough_runs: 600_000,
            rule: "One run = one seeded plan over 1..4 processes (real BootstrapCacheStore each) sharing one cache file in a private tmpfs directory: add_addr in six multiaddress shapes, update_addr_status, remove_addr, perform_cleanup, sync_and_flush_to_disk(true|false) and write() executed on writer threads that park at the guarded gates between load / merge+cleanup / open / write / commit, the simulator releasing one parked writer at a time; crafted valid files with last_seen >= 61 s either side of the expiry boundary; limits 1..5 peers, 1..3 addresses per peer, expiry 10 min / 1 h / 24 h. Mode fault adds corrupt files (truncated, bit flip, empty, wrong schema), files of another network, future-dated stamps and processes killed at a gate (their temp files are left behind as after a kill). After every step the real load_cache_data reads the shared file and is compared with an own reader of the file format; if a flush leaves the inode unchanged every byte prefix of the new content is loaded as a crash state. Non-trivial = >=3 operations and (>=1 non-FIFO release or >=1 fired fault); distinct = distinct fingerprint of the executed release decisions and faults.",
            assumptions: vec![
                "writer steps between two gates are atomic with respect to other writers (one thread runs at a time); overlap inside a single write(2) of an in-place replacement is covered by the prefix enumeration",
                "crash = the process is killed, the OS survives: a renamed file is durable, an uncommitted temp file stays in the directory (atomic-write-file 0.2.2 without the unnamed-tmpfile feature uses a named temp file; the sim re-creates it after unwinding the writer thread)",
                "timestamps are placed >= 61 s from every boundary and a run lasts milliseconds, so the wall clock never decides a comparison (a run longer than 20 s is a harness error)",
                "getrandom is the only entropy source (HashMap order, temp file names); writer threads reseed the shim with a seed derived from the run's entropy",
                "all processes of one run use the same limits and expiry",
                "try_remove_oldest_peers ranks peers by last_seen.elapsed() evaluated one address after the other, so a preemption inside that loop can invert the order of two stamps taken microseconds apart; the sim keeps stamps >= 100 us apart, reads a guarded timer around the ranking, and re-executes the plan on a fresh thread when the ranking lasted long enough to matter (probe reexecuted_after_preemption_in_clock_sensitive_call)",
            ],
        }]
    }

    fn generate(rng: &mut Rng, ctx: &GenCtx) -> Plan {
        let fault = ctx.mode == "fault";
        let n_procs = rng.urange(1, 4);
        let max_peers = rng.urange(1, 5);
        let max_addrs = rng.urange(1, 3);
        // half of the runs keep the universe inside the limits, so merge results are exactly determined
        let n_peers = if rng.chance(1, 2) { rng.urange(1, max_peers) } else { rng.urange(1, 7) };
        let n_vars = if rng.chance(1, 2) { rng.urange(1, max_addrs) } else { rng.urange(1, 4) };
        let expiry_s = *rng.pick(&[600u64, 3600, 86400]);
        let n_steps = match ctx.tier {
            Tier::Quick => rng.urange(5, 50),
            Tier::Thorough => rng.urange(5, 90),
        };
        // one run in 150: a cache as big as the shipped limits allow (1500 peers x 6 addresses): a well-formed file of
        // well over 1 MiB written by another process, then a few operations on it
        let big = rng.chance(1, 150);
        let (max_peers, max_addrs, n_peers, n_vars, n_steps) = if big { (1500, 6, rng.urange(1250, 1400), 4, rng.urange(2, 6)) } else { (max_peers, max_addrs, n_peers, n_vars, n_steps) };
        // swarm style: weights of this run
        let w_add = rng.range(15, 40);
        let w_status = rng.range(3, 20);
        let w_remove = if rng.chance(1, 2) { rng.range(1, 8) } else { 0 };
        let w_cleanup = rng.range(0, 6);
        let w_flush = rng.range(6, 20);
        let w_write = if rng.chance(1, 3) { rng.range(1, 3) } else { 0 };
        let w_run = rng.range(10, 45);
        let w_settle = rng.range(1, 5);
        let w_craft = rng.range(0, 4);
        let w_restart = rng.range(0, 2);
        let w_corrupt = if fault { rng.range(1, 5) } else { 0 };
        let w_foreign = if fault && rng.chance(1, 2) { rng.range(1, 2) } else { 0 };
        let w_crash = if fault { rng.range(0, 4) } else { 0 };
        let weights = [
            w_add, w_status, w_remove, w_cleanup, w_flush, w_write, w_run, w_settle, w_craft, w_restart,
            w_corrupt, w_foreign, w_crash,
        ];
        let sched = rng.below(4); // 0 fifo, 1/3 random, 2 newest first
        let p_cleanup = rng.range(1, 9); // of 10: share of flushes with clean-up
        let p_detach = rng.range(0, 10);
        let p_bad_shape = rng.range(0, 4); // of 10
        let mut steps = Vec::with_capacity(n_steps + 4);
        if big {
            let mut entries = vec![];
            for peer in 0..n_peers {
                for var in 0..n_vars {
                    entries.push(CraftEnt { peer, var, succ: rng.range(1, 9) as u32, fail: rng.range(0, 1) as u32, age: rng.below(5) as u8 });
                }
            }
            steps.push(Step::Craft { entries });
        } else if rng.chance(1, 2) {
            steps.push(Step::Craft {
                entries: gen_entries(rng, n_peers, n_vars, fault, 10),
            });
        }
        let mut recent: Vec<(usize, usize)> = vec![];
        let mut after_corrupt = false;
        for _ in 0..n_steps {
            let proc = rng.usize_below(n_procs);
            // bias: after a corruption a flush often follows, after a flush start a release often follows
            let kind = if after_corrupt && rng.chance(1, 2) { 4 } else { rng.weighted(&weights) };
            after_corrupt = false;
            let pick_known = |rng: &mut Rng, recent: &Vec<(usize, usize)>| {
                if !recent.is_empty() && rng.chance(3, 4) {
                    *rng.pick(recent)
                } else {
                    (rng.usize_below(n_peers), rng.usize_below(n_vars))
                }
            };
            let s = match kind {
                0 => {
                    let dup = !recent.is_empty() && rng.chance(1, 6);
                    let (peer, var) = if dup {
                        *rng.pick(&recent)
                    } else {
                        (rng.usize_below(n_peers), rng.usize_below(n_vars))
                    };
                    let shape = if rng.below(10) < p_bad_shape { rng.range(1, model::N_SHAPES as u64 - 1) as u8 } else { 0 };
                    if shape == 0 {
                        recent.push((peer, var));
                    }
                    Step::Add { proc, peer, var, shape, relay: rng.usize_below(n_peers) }
                }
                1 => {
                    let (peer, var) = pick_known(rng, &recent);
                    Step::Status { proc, peer, var, success: rng.chance(2, 5), times: rng.range(1, 3) as u8 }
                }
                2 => {
                    let (peer, var) = pick_known(rng, &recent);
                    Step::Remove { proc, peer, var }
                }
                3 => Step::Cleanup { proc },
                4 => Step::Flush {
                    proc,
                    cleanup: rng.below(10) < p_cleanup,
                    detach: rng.below(10) < p_detach,
                },
                5 => Step::Write { proc },
                6 => Step::Run {
                    sel: match sched {
                        0 => 0,
                        2 => u32::MAX,
                        _ => rng.below(1 << 16) as u32,
                    },
                },
                7 => Step::Settle,
                8 => Step::Craft { entries: gen_entries(rng, n_peers, n_vars, fault, 10) },
                9 => Step::Restart { proc },
                10 => {
                    after_corrupt = true;
                    Step::Corrupt { how: rng.below(4) as u8, arg: rng.next_u64() as u32 }
                }
                11 => {
                    after_corrupt = true;
                    Step::Foreign { entries: gen_entries(rng, n_peers, n_vars, false, 6) }
                }
                _ => Step::Crash { sel: rng.below(1 << 16) as u32 },
            };
            let started = matches!(s, Step::Flush { .. } | Step::Write { .. });
            steps.push(s);
            if started && rng.chance(1, 3) {
                for _ in 0..rng.urange(1, 3) {
                    steps.push(Step::Run { sel: if sched == 0 { 0 } else { rng.below(1 << 16) as u32 } });
                }
            }
        }
        steps.push(Step::Settle);
        Plan {
            property: ctx.property.clone(),
            mode: ctx.mode.clone(),
            ukey: rng.next_u64(),
            n_procs,
            n_peers,
            n_vars,
            max_peers,
            max_addrs,
            expiry_s,
            via_peers_args: rng.chance(1, 3),
            steps,
        }
    }

    fn execute(plan: &Plan, entropy: u64) -> RunReport {
        world::execute(plan, entropy)
    }

    fn shrink(plan: &Plan) -> Vec<Plan> {
        let mut out = vec![];
        for steps in simkit::shrink::remove_chunks(&plan.steps) {
            let mut p = plan.clone();
            p.steps = steps;
            out.push(p);
        }
        for steps in simkit::shrink::simplify_each(&plan.steps, |s| match s {
            Step::Run { sel } if *sel != 0 => vec![Step::Run { sel: 0 }],
            Step::Crash { sel } if *sel != 0 => vec![Step::Crash { sel: 0 }],
            Step::Craft { entries } if !entries.is_empty() => {
                let mut alts = vec![];
                for i in 0..entries.len() {
                    let mut e = entries.clone();
                    e.remove(i);
                    alts.push(Step::Craft { entries: e });
                }
                alts
            }
            Step::Foreign { entries } if entries.len() > 1 => {
                vec![Step::Foreign { entries: entries[..1].to_vec() }]
            }
            Step::Status { proc, peer, var, success, times } if *times > 1 => vec![Step::Status {
                proc: *proc,
                peer: *peer,
                var: *var,
                success: *success,
                times: times - 1,
            }],
            Step::Flush { proc, cleanup, detach: true } => vec![Step::Flush { proc: *proc, cleanup: *cleanup, detach: false }],
            Step::Add { proc, peer, var, shape, relay } if *proc != 0 => {
                vec![Step::Add { proc: 0, peer: *peer, var: *var, shape: *shape, relay: *relay }]
            }
            _ => vec![],
        }) {
            let mut p = plan.clone();
            p.steps = steps;
            out.push(p);
        }
        if plan.n_procs > 1 {
            let mut p = plan.clone();
            p.n_procs -= 1;
            out.push(p);
        }
        out
    }

    fn components() -> Vec<(&'static str, &'static str)> {
        vec![
            ("BootstrapCacheStore (add_addr, update_addr_status, remove_addr, perform_cleanup, sync_and_flush_to_disk, write, load_cache_data), CacheData / BootstrapAddresses / BootstrapAddr sync, craft_valid_multiaddr", "real"),
            ("atomic-write-file 0.2.2 (named temp file + rename) on a per-run tmpfs directory", "real"),
            ("the node's periodic flush (driver.rs: clone the store, continue with a fresh empty one, flush the clone in a spawned task)", "mirrored: Flush{detach:true} does the same three statements, the spawned task is a writer thread"),
            ("several node/client processes sharing the cache file", "stub: one OS thread per flush inside one process, parked at guarded gates and released one at a time by the simulator"),
            ("process kill", "stub: the parked writer thread unwinds out of the code under test; the temp files its destructors removed are re-created byte for byte"),
            ("wall clock", "real, never decisive: stamps are >= 61 s from every boundary"),
        ]
    }
}

fn main() {
    simkit::check::main::<BootcacheSim>();
}
