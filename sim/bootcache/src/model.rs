//! Independent reference pieces of the `bootcache` sim: the address universe, an own reader of the cache
//! file format (serde_json::Value based, never through the crate's `CacheData` deserialiser), own
//! well-formedness / eligibility predicates, and the snapshot type the oracles compare.

use libp2p::multiaddr::Protocol;
use libp2p::{Multiaddr, PeerId};
use serde_json::{json, Value};
use std::collections::{BTreeMap, BTreeSet};
use std::str::FromStr;
use std::time::{Duration, SystemTime, UNIX_EPOCH};

/// Deterministic peer id number `idx` of the universe `ukey`: an identity multihash around a
/// protobuf-encoded ed25519 public key (the usual `12D3KooW…` form); the 32 key bytes are arbitrary.
pub fn peer_id(ukey: u64, idx: usize) -> PeerId {
    let mut bytes = vec![0x00u8, 0x24, 0x08, 0x01, 0x12, 0x20];
    let mut x = simkit::mix(ukey, 0xb007_0000 + idx as u64);
    for i in 0..32 {
        if i % 8 == 0 {
            x = simkit::mix(x, i as u64 + 1);
        }
        bytes.push((x >> (8 * (i % 8))) as u8);
    }
    PeerId::from_bytes(&bytes).expect("identity peer id")
}

/// The canonical storable address `var` of peer `peer`: var%3 = 0 udp/quic-v1, 1 tcp, 2 tcp/ws.
pub fn good_addr(ukey: u64, peer: usize, var: usize) -> String {
    let id = peer_id(ukey, peer);
    let ip = format!("10.{}.{}.{}", (peer + 1) % 250, (peer + 1) / 250, var + 1);
    match var % 3 {
        0 => format!("/ip4/{ip}/udp/{}/quic-v1/p2p/{id}", 4000 + var),
        1 => format!("/ip4/{ip}/tcp/{}/p2p/{id}", 5000 + var),
        _ => format!("/ip4/{ip}/tcp/{}/ws/p2p/{id}", 6000 + var),
    }
}

pub const SHAPE_GOOD: u8 = 0;
pub const SHAPE_NO_IP_IP6: u8 = 1;
pub const SHAPE_NO_IP_DNS: u8 = 2;
pub const SHAPE_NO_TRANSPORT: u8 = 3;
pub const SHAPE_NO_PEER: u8 = 4;
pub const SHAPE_RELAYED: u8 = 5;
pub const N_SHAPES: u8 = 6;

pub fn shape_name(shape: u8) -> &'static str {
    match shape {
        SHAPE_GOOD => "good",
        SHAPE_NO_IP_IP6 => "no_ip4(ip6)",
        SHAPE_NO_IP_DNS => "no_ip4(dns)",
        SHAPE_NO_TRANSPORT => "no_transport",
        SHAPE_NO_PEER => "no_peer_id",
        _ => "relayed",
    }
}

/// The multiaddress handed to `add_addr` for (peer, var, shape). For the relayed shape the address is
/// `<good_addr(relay, var)>/p2p-circuit/p2p/<peer>`.
pub fn input_addr(ukey: u64, peer: usize, var: usize, shape: u8, relay: usize) -> String {
    let id = peer_id(ukey, peer);
    let good = good_addr(ukey, peer, var);
    let tail = good
        .split_once("/ip4/")
        .and_then(|(_, r)| r.split_once('/'))
        .map(|(_, r)| r.to_string())
        .unwrap_or_default(); // "udp/4000/quic-v1/p2p/<id>"
    match shape {
        SHAPE_GOOD => good,
        SHAPE_NO_IP_IP6 => format!("/ip6/::1/{tail}"),
        SHAPE_NO_IP_DNS => format!("/dns4/boot{peer}.example.org/{tail}"),
        SHAPE_NO_TRANSPORT => format!("/ip4/10.{}.{}.{}/p2p/{id}", (peer + 1) % 250, (peer + 1) / 250, var + 1),
        SHAPE_NO_PEER => good
            .rsplit_once("/p2p/")
            .map(|(l, _)| l.to_string())
            .unwrap_or(good),
        _ => format!("{}/p2p-circuit/p2p/{id}", good_addr(ukey, relay, var)),
    }
}

/// Own classification of a multiaddress: (has ip4, has udp or tcp, has a peer id).
pub fn shape_of(addr: &str) -> Option<(bool, bool, bool)> {
    let m = Multiaddr::from_str(addr).ok()?;
    let (mut ip4, mut tr, mut p2p) = (false, false, false);
    for p in m.iter() {
        match p {
            Protocol::Ip4(_) => ip4 = true,
            Protocol::Udp(_) | Protocol::Tcp(_) => tr = true,
            Protocol::P2p(_) => p2p = true,
            _ => {}
        }
    }
    Some((ip4, tr, p2p))
}

/// What the statement calls a dialable address carrying a peer id.
pub fn well_formed(addr: &str) -> bool {
    matches!(shape_of(addr), Some((true, true, true)))
}

#[derive(Clone, Debug, PartialEq, Eq)]
pub struct Ent {
    pub succ: u32,
    pub fail: u32,
    pub ls: SystemTime,
}

impl Ent {
    pub fn reliable(&self) -> bool {
        self.succ >= self.fail
    }
    pub fn fresh(&self, now: SystemTime, expiry: Duration) -> bool {
        match now.duration_since(self.ls) {
            Ok(d) => d < expiry,
            Err(_) => false, // a stamp in the future is treated like an expired one
        }
    }
    pub fn eligible(&self, now: SystemTime, expiry: Duration) -> bool {
        self.reliable() && self.fresh(now, expiry)
    }
}

/// Peer key (text form) -> addresses in stored order.
#[derive(Clone, Debug, Default, PartialEq, Eq)]
pub struct Snap {
    pub peers: BTreeMap<String, Vec<(String, Ent)>>,
    pub network_version: Option<String>,
}

impl Snap {
    pub fn get(&self, key: &str, addr: &str) -> Option<&Ent> {
        self.peers
            .get(key)
            .and_then(|v| v.iter().find(|(a, _)| a == addr))
            .map(|(_, e)| e)
    }
    pub fn keys(&self) -> BTreeSet<(String, String)> {
        let mut s = BTreeSet::new();
        for (k, v) in &self.peers {
            for (a, _) in v {
                s.insert((k.clone(), a.clone()));
            }
        }
        s
    }
    pub fn n_addrs(&self) -> usize {
        self.peers.values().map(|v| v.len()).sum()
    }
    pub fn n_nonempty_peers(&self) -> usize {
        self.peers.values().filter(|v| !v.is_empty()).count()
    }
    /// Entries that are reliable and not expired, empty peers dropped.
    pub fn eligible(&self, now: SystemTime, expiry: Duration) -> Snap {
        let mut out = Snap {
            peers: BTreeMap::new(),
            network_version: self.network_version.clone(),
        };
        for (k, v) in &self.peers {
            let keep: Vec<(String, Ent)> = v
                .iter()
                .filter(|(_, e)| e.eligible(now, expiry))
                .cloned()
                .collect();
            if !keep.is_empty() {
                out.peers.insert(k.clone(), keep);
            }
        }
        out
    }
    pub fn within_bounds(&self, max_peers: usize, max_addrs: usize) -> bool {
        self.n_nonempty_peers() <= max_peers && self.peers.values().all(|v| v.len() <= max_addrs)
    }
    /// A compact, clock-free rendering for the event log.
    pub fn render(&self, base: SystemTime, short: &BTreeMap<String, String>) -> String {
        let mut parts = vec![];
        for (k, v) in &self.peers {
            let kk = short.get(k).cloned().unwrap_or_else(|| "?".into());
            let addrs: Vec<String> = v
                .iter()
                .map(|(a, e)| {
                    format!(
                        "{}:{}/{}@{}",
                        short.get(a).cloned().unwrap_or_else(|| "?".into()),
                        e.succ,
                        e.fail,
                        fmt_ls(e.ls, base)
                    )
                })
                .collect();
            parts.push(format!("{kk}[{}]", addrs.join(",")));
        }
        parts.join(" ")
    }
}

/// Render a timestamp relative to the run's base instant: "now" for stamps taken during the run,
/// otherwise the crafted age in whole seconds (positive = in the past).
/// The far-future stamp of crafted age class 99: half an hour before the largest SystemTime.
pub fn far_future() -> SystemTime {
    UNIX_EPOCH + Duration::from_secs(i64::MAX as u64 - 1800)
}

pub fn fmt_ls(ls: SystemTime, base: SystemTime) -> String {
    if ls == far_future() {
        return "far_future".into();
    }
    let age: f64 = match base.duration_since(ls) {
        Ok(d) => d.as_secs_f64(),
        Err(e) => -e.duration().as_secs_f64(),
    };
    if age.abs() < 30.0 {
        "now".into()
    } else {
        format!("{:+}s", age.round() as i64)
    }
}

fn parse_time(v: &Value) -> Option<SystemTime> {
    let o = v.as_object()?;
    let secs = o.get("secs_since_epoch")?.as_u64()?;
    let nanos = o.get("nanos_since_epoch")?.as_u64()?;
    if nanos > u32::MAX as u64 {
        return None;
    }
    let d = Duration::from_secs(secs).checked_add(Duration::from_nanos(nanos))?;
    UNIX_EPOCH.checked_add(d)
}

fn time_json(t: SystemTime) -> Value {
    let d = t.duration_since(UNIX_EPOCH).unwrap_or_default();
    json!({"secs_since_epoch": d.as_secs(), "nanos_since_epoch": d.subsec_nanos()})
}

/// Own reader of the cache file: `None` when the bytes are not a well-formed cache file.
pub fn parse_file(bytes: &[u8]) -> Option<Snap> {
    let v: Value = serde_json::from_slice(bytes).ok()?;
    let top = v.as_object()?;
    parse_time(top.get("last_updated")?)?;
    let network_version = top.get("network_version")?.as_str()?.to_string();
    let peers_v = top.get("peers")?.as_object()?;
    let mut peers = BTreeMap::new();
    for (k, list) in peers_v {
        let id = PeerId::from_str(k).ok()?;
        let mut out = vec![];
        for item in list.as_array()? {
            let o = item.as_object()?;
            let addr = Multiaddr::from_str(o.get("addr")?.as_str()?).ok()?;
            let succ = u32::try_from(o.get("success_count")?.as_u64()?).ok()?;
            let fail = u32::try_from(o.get("failure_count")?.as_u64()?).ok()?;
            let ls = parse_time(o.get("last_seen")?)?;
            out.push((addr.to_string(), Ent { succ, fail, ls }));
        }
        peers.insert(id.to_string(), out);
    }
    Some(Snap {
        peers,
        network_version: Some(network_version),
    })
}

/// Serialise a snapshot in the cache file format (used for crafted files only).
pub fn render_file(snap: &Snap, network_version: &str, now: SystemTime) -> Vec<u8> {
    let mut peers = serde_json::Map::new();
    for (k, v) in &snap.peers {
        let list: Vec<Value> = v
            .iter()
            .map(|(a, e)| {
                json!({
                    "addr": a,
                    "success_count": e.succ,
                    "failure_count": e.fail,
                    "last_seen": time_json(e.ls),
                })
            })
            .collect();
        peers.insert(k.clone(), Value::Array(list));
    }
    let top = json!({
        "peers": Value::Object(peers),
        "last_updated": time_json(now),
        "network_version": network_version,
    });
    let mut s = serde_json::to_string_pretty(&top).expect("json");
    s.push('\n');
    s.into_bytes()
}

/// Crafted age (seconds before the run's base instant; negative = in the future) for a class:
/// every value is at least 61 s away from the expiry boundary and from "now".
pub fn crafted_age(class: u8, expiry_s: u64) -> i64 {
    let e = expiry_s as i64;
    match class % 10 {
        0 => 61,
        1 => 120,
        2 => e / 2,
        3 => e - 90,
        4 => e - 61,
        5 => e + 61,
        6 => e + 90,
        7 => 2 * e,
        8 => 10 * e,
        _ => -61 - (class as i64 / 10) * 3600, // clock skew: stamped in the future
    }
}

pub fn age_is_future(class: u8) -> bool {
    class % 10 == 9
}
