//! Executor and oracles of the `bootcache` sim.

use crate::model::*;
use crate::{CraftEnt, Plan, Step};
use ant_bootstrap::verif::{self as hooks, CacheData, Controller, WriterEnd};
use ant_bootstrap::{BootstrapCacheConfig, BootstrapCacheStore};
use libp2p::Multiaddr;
use simkit::RunReport;
use std::collections::{BTreeMap, BTreeSet};
use std::os::unix::fs::MetadataExt;
use std::future::Future;
use std::panic::{catch_unwind, resume_unwind, AssertUnwindSafe};
use std::path::PathBuf;
use std::str::FromStr;
use std::sync::atomic::{AtomicU64, Ordering};
use std::sync::Arc;
use std::thread::JoinHandle;
use std::time::{Duration, Instant, SystemTime};

static RUN_COUNTER: AtomicU64 = AtomicU64::new(0);
const P: &str = "C18";
const ALIEN_NETWORK: &str = "alien-net_9.9";
/// The statement says a foreign file is ignored; a well-formed cache file of another network is
/// treated as such a file (rule foreign.other_network_file_used).
const CLAIM_OTHER_NETWORK_FILE_IGNORED: bool = true;

struct RunDir(PathBuf);
impl Drop for RunDir {
    fn drop(&mut self) {
        let _ = std::fs::remove_dir_all(&self.0);
    }
}

#[derive(Clone, Copy, Debug, PartialEq, Eq)]
enum FileState {
    Absent,
    /// last written by a flush, a write or a well-behaved other program
    Clean,
    /// last written by an injected corruption
    Corrupt,
}

#[derive(Clone, Copy, Debug, PartialEq, Eq)]
enum Kind {
    Flush { cleanup: bool },
    Write,
}

type WriterOut = (BootstrapCacheStore, WriterEnd<Result<(), String>>);

struct Flight {
    label: u64,
    proc: usize,
    kind: Kind,
    detach: bool,
    handle: Option<JoinHandle<WriterOut>>,
    /// memory of the flushed store before the flush
    mem: Snap,
    /// the file as the own reader saw it when the writer loaded it
    f0: Option<Snap>,
    f0_state: FileState,
    loaded: Option<bool>,
    version_at_load: u64,
    site: &'static str,
}

struct World<'a> {
    plan: &'a Plan,
    rep: RunReport,
    dir: PathBuf,
    path: PathBuf,
    cfg: BootstrapCacheConfig,
    expiry: Duration,
    ctrl: Arc<Controller>,
    procs: Vec<Option<BootstrapCacheStore>>,
    flights: Vec<Flight>,
    next_label: u64,
    entropy: u64,
    base: SystemTime,
    file_state: FileState,
    /// a bit flip may have altered addresses / counters inside a still loadable file
    tainted: bool,
    last_bytes: Option<Vec<u8>>,
    file_version: u64,
    short: BTreeMap<String, String>,
    universe: BTreeSet<String>,
    net_version: String,
    stop: bool,
    foreign_reported: bool,
    corrupt_pending_flush: bool,
    /// a call that can trim peers among stamps of this run took longer than STAMP_GAP
    race_suspect: bool,
    last_stamp: Instant,
}

fn snap_of(data: &CacheData) -> Snap {
    let mut peers = BTreeMap::new();
    for (k, v) in data.peers.iter() {
        let list: Vec<(String, Ent)> = v
            .0
            .iter()
            .map(|a| {
                (
                    a.addr.to_string(),
                    Ent {
                        succ: a.success_count,
                        fail: a.failure_count,
                        ls: a.last_seen,
                    },
                )
            })
            .collect();
        peers.insert(k.to_string(), list);
    }
    Snap {
        peers,
        network_version: Some(data.network_version.clone()),
    }
}

/// A byte position chosen by line and column, the column never inside the digits of a wall-clock
/// stamp: file lengths depend on those digits, so damage must not be addressed by byte offset.
fn structural_position(b: &[u8], arg: u32) -> (usize, String) {
    let mut starts = vec![0usize];
    for (i, c) in b.iter().enumerate() {
        if *c == b'\n' && i + 1 < b.len() {
            starts.push(i + 1);
        }
    }
    let line = (arg as usize) % starts.len();
    let from = starts[line];
    let to = starts.get(line + 1).map(|x| x - 1).unwrap_or(b.len());
    let mut len = to.saturating_sub(from).max(1);
    // "key": <number> lines other than the two counters carry wall-clock digits: stay left of the value
    let raw = &b[from..to.max(from)];
    if let Some(k) = raw.windows(2).position(|w| w == b": ") {
        let numeric = raw.get(k + 2).map(|c| c.is_ascii_digit()).unwrap_or(false);
        let counter = raw.windows(6).any(|w| w == b"_count");
        if numeric && !counter {
            len = (k + 2).min(len).max(1);
        }
    }
    let col = ((arg >> 10) as usize) % len;
    ((from + col).min(b.len() - 1), format!("line {line} col {col}"))
}

fn panic_text(p: Box<dyn std::any::Any + Send>) -> String {
    p.downcast_ref::<String>()
        .cloned()
        .or_else(|| p.downcast_ref::<&str>().map(|s| s.to_string()))
        .unwrap_or_else(|| "panic".into())
}

/// Two stamps taken by the code under test during a run are at least this far apart in real time.
const STAMP_GAP: Duration = Duration::from_micros(100);

pub fn execute(plan: &Plan, entropy: u64) -> RunReport {
    // `try_remove_oldest_peers` ranks peers by `last_seen.elapsed()` evaluated one after the other, so a
    // thread preempted between two evaluations for longer than the distance of two stamps evicts the
    // wrong peer. The sim keeps stamps STAMP_GAP apart, reads the guarded timer around that ranking for
    // every call that can trim peers stamped during the run, and re-executes the whole plan on a fresh
    // thread when a ranking took long enough for the wall clock to have decided.
    let mut reruns = 0;
    loop {
        // a re-execution needs a fresh OS thread like the first one (std caches the HashMap keys per thread)
        let (mut rep, suspect) = if reruns == 0 {
            execute_once(plan, entropy)
        } else {
            let p = plan.clone();
            match simkit::rt::on_fresh_thread(entropy, move || execute_once(&p, entropy)) {
                simkit::rt::ThreadOutcome::Done(x) => x,
                simkit::rt::ThreadOutcome::Panicked(msg) => resume_unwind(Box::new(msg)),
            }
        };
        if suspect && reruns < 6 && rep.harness_error.is_none() {
            reruns += 1;
            continue;
        }
        if suspect && rep.harness_error.is_none() && rep.violations.is_empty() {
            rep.harness_error = Some("every execution of this plan was preempted inside a clock-sensitive call".into());
        }
        if reruns > 0 {
            rep.probe_n("reexecuted_after_preemption_in_clock_sensitive_call", reruns);
        }
        return rep;
    }
}

fn execute_once(plan: &Plan, entropy: u64) -> (RunReport, bool) {
    let n = RUN_COUNTER.fetch_add(1, Ordering::SeqCst);
    let dir = PathBuf::from(format!("/dev/shm/antsim/{}/bootcache-{n}", std::process::id()));
    let _ = std::fs::remove_dir_all(&dir);
    if let Err(e) = std::fs::create_dir_all(&dir) {
        let mut r = RunReport::default();
        r.harness_error = Some(format!("cannot create run directory: {e}"));
        return (r, false);
    }
    let _guard = RunDir(dir.clone());
    hooks::measure_trim_windows(true);
    let started = Instant::now();
    let mut w = World::new(plan, entropy, dir);
    let r = catch_unwind(AssertUnwindSafe(|| w.run()));
    // never leave writer threads parked
    w.abort_all_writers();
    if let Err(p) = r {
        resume_unwind(p);
    }
    if started.elapsed() > Duration::from_secs(20) && w.rep.harness_error.is_none() {
        w.rep.harness_error = Some("run took more than 20 s of real time: the wall clock could have decided a comparison".into());
    }
    (w.rep, w.race_suspect)
}

impl<'a> World<'a> {
    fn new(plan: &'a Plan, entropy: u64, dir: PathBuf) -> Self {
        // via_peers_args: the file lives in a --bootstrap-cache-dir, under the name the crate derives
        let path = if plan.via_peers_args {
            dir.join("custom").join(ant_bootstrap::config::cache_file_name())
        } else {
            dir.join("bootstrap_cache.json")
        };
        let expiry = Duration::from_secs(plan.expiry_s);
        let cfg = BootstrapCacheConfig::empty()
            .with_cache_path(&path)
            .with_max_peers(plan.max_peers)
            .with_addrs_per_peer(plan.max_addrs)
            .with_addr_expiry_duration(expiry);
        let mut short = BTreeMap::new();
        let mut universe = BTreeSet::new();
        for p in 0..plan.n_peers.max(1) {
            short.insert(peer_id(plan.ukey, p).to_string(), format!("P{p}"));
            for v in 0..plan.n_vars.max(1) {
                let a = good_addr(plan.ukey, p, v);
                short.insert(a.clone(), format!("P{p}a{v}"));
                universe.insert(a);
            }
        }
        World {
            plan,
            rep: RunReport::default(),
            dir,
            path,
            cfg,
            expiry,
            ctrl: Controller::new(),
            procs: vec![],
            flights: vec![],
            next_label: 1,
            entropy,
            base: SystemTime::now(),
            file_state: FileState::Absent,
            tainted: false,
            last_bytes: None,
            file_version: 0,
            short,
            universe,
            net_version: ant_bootstrap::get_network_version(),
            stop: false,
            foreign_reported: false,
            corrupt_pending_flush: false,
            race_suspect: false,
            last_stamp: Instant::now(),
        }
    }

    fn n_procs(&self) -> usize {
        self.plan.n_procs.max(1)
    }

    /// The process an operation addresses: `proc` modulo the number of processes, or the next one
    /// that is not blocked inside a flush.
    fn pick_proc(&self, proc: usize) -> usize {
        let n = self.n_procs();
        (0..n).map(|k| (proc + k) % n).find(|p| self.procs[*p].is_some()).unwrap_or(proc % n)
    }

    fn viol(&mut self, rule: &str, sig: &[(&str, String)], detail: String) {
        self.rep.violate(P, rule, sig, detail);
        self.stop = true;
    }

    fn new_store(&mut self) -> Option<BootstrapCacheStore> {
        let built = if self.plan.via_peers_args {
            // as antnode does: the config carries another (default) path, the peers arguments name the directory
            let dir = self.path.parent().expect("custom dir").to_path_buf();
            let decoy = dir.parent().expect("run dir").join("default-location").join("decoy_cache.json");
            let args = ant_bootstrap::PeersArgs { bootstrap_cache_dir: Some(dir), ..Default::default() };
            BootstrapCacheStore::new_from_peers_args(&args, Some(self.cfg.clone().with_cache_path(&decoy)))
        } else {
            BootstrapCacheStore::new(self.cfg.clone())
        };
        match built {
            Ok(s) => Some(s),
            Err(e) => {
                self.rep.harness_error = Some(format!("BootstrapCacheStore::new failed: {e}"));
                self.stop = true;
                None
            }
        }
    }

    /// Keep two stamps of the code under test at least STAMP_GAP apart.
    fn before_stamping_op(&self) {
        while self.last_stamp.elapsed() < STAMP_GAP {
            std::hint::spin_loop();
        }
    }

    /// `input` went through a call whose ranking of peers by `elapsed()` took `took` (plus
    /// `extra_now_peers` peers stamped inside the call): could the call have trimmed peers whose stamps
    /// were taken during this run, and did the ranking last long enough for two `elapsed()` evaluations
    /// to be further apart than two of those stamps?
    fn clock_decided(&self, input: &Snap, extra_now_peers: usize, took: Duration) -> bool {
        let now = SystemTime::now();
        let elig = input.eligible(now, self.expiry);
        if elig.n_nonempty_peers() + extra_now_peers <= self.plan.max_peers {
            return false;
        }
        let mut recent: Vec<SystemTime> = elig
            .peers
            .values()
            .filter_map(|v| v.iter().map(|(_, e)| e.ls).filter(|ls| fmt_ls(*ls, self.base) == "now").max())
            .collect();
        if extra_now_peers > 0 {
            recent.push(now);
        }
        if recent.len() < 2 {
            return false;
        }
        recent.sort();
        let gap = recent
            .windows(2)
            .map(|w| w[1].duration_since(w[0]).unwrap_or_default())
            .min()
            .unwrap_or_default();
        took >= gap.mul_f32(0.75)
    }

    fn render(&self, s: &Snap) -> String {
        s.render(self.base, &self.short)
    }

    // ------------------------------------------------------------------------------------------
    // invariants of one cache snapshot

    /// `after_cleanup`: the snapshot is the result of an operation that includes clean-up.
    /// `map_len`: number of peers counted against the limit.
    fn inv(&mut self, s: &Snap, after_cleanup: bool, bounded: bool, place: &str) {
        let now = SystemTime::now();
        for (k, list) in &s.peers {
            for (a, e) in list {
                if !well_formed(a) {
                    if self.tainted && !self.universe.contains(a) {
                        self.rep.probe("unknown_addr_after_bit_flip");
                        continue;
                    }
                    let sh = shape_of(a);
                    return self.viol(
                        "wellformed.ill_formed_addr",
                        &[("place", place.into()), ("shape", format!("{sh:?}"))],
                        format!("address {a} in the cache lacks ip4 / udp|tcp / peer id"),
                    );
                }
                if !self.universe.contains(a) {
                    if self.tainted {
                        self.rep.probe("unknown_addr_after_bit_flip");
                        continue;
                    }
                    return self.viol(
                        "wellformed.unknown_addr",
                        &[("place", place.into())],
                        format!("address {a} was never a storable form of any input"),
                    );
                }
                if !a.ends_with(&format!("/p2p/{k}")) && !self.tainted {
                    return self.viol(
                        "wellformed.key_mismatch",
                        &[("place", place.into())],
                        format!("address {a} stored under peer {k}"),
                    );
                }
                if after_cleanup {
                    if !e.fresh(now, self.expiry) {
                        let stamp = if e.ls > now { "future" } else { "past" };
                        return self.viol(
                            "cleanup.expired_kept",
                            &[("place", place.into()), ("stamp", stamp.into())],
                            format!("{} last seen {} survived clean-up (expiry {} s)", self.short_of(a), fmt_ls(e.ls, self.base), self.plan.expiry_s),
                        );
                    }
                    if !e.reliable() {
                        return self.viol(
                            "cleanup.unreliable_kept",
                            &[("place", place.into())],
                            format!("{} with {} successes / {} failures survived clean-up", self.short_of(a), e.succ, e.fail),
                        );
                    }
                }
            }
        }
        if bounded {
            let n = if after_cleanup { s.n_nonempty_peers() } else { s.peers.len() };
            if n > self.plan.max_peers {
                return self.viol(
                    "bound.peers",
                    &[("place", place.into())],
                    format!("{n} peers > max_peers {}", self.plan.max_peers),
                );
            }
            for (k, list) in &s.peers {
                if list.len() > self.plan.max_addrs {
                    return self.viol(
                        "bound.addrs_per_peer",
                        &[("place", place.into())],
                        format!("{} has {} addresses > max {}", self.short_of(k), list.len(), self.plan.max_addrs),
                    );
                }
            }
        }
    }

    fn short_of(&self, s: &str) -> String {
        self.short.get(s).cloned().unwrap_or_else(|| s.to_string())
    }

    /// `output` must be `input` after clean-up: nothing invented or altered, nothing eligible lost
    /// unless a limit forces it, and then exactly down to the limit.
    fn check_cleanup_result(&mut self, input: &Snap, output: &Snap, prefix: &str, place: &str) {
        let now = SystemTime::now();
        for (k, list) in &output.peers {
            for (a, e) in list {
                if input.get(k, a) != Some(e) {
                    return self.viol(
                        &format!("{prefix}.altered_or_invented"),
                        &[("place", place.into())],
                        format!("{} is {:?} in the output but {:?} in the input", self.short_of(a), (e.succ, e.fail, fmt_ls(e.ls, self.base)), input.get(k, a).map(|e| (e.succ, e.fail, fmt_ls(e.ls, self.base)))),
                    );
                }
            }
        }
        let elig = input.eligible(now, self.expiry);
        if elig.n_addrs() < input.n_addrs() {
            self.rep.probe("cleanup_removed_expired_or_unreliable");
        }
        let (mp, ma) = (self.plan.max_peers, self.plan.max_addrs);
        if elig.within_bounds(mp, ma) {
            for (k, a) in elig.keys() {
                if output.get(&k, &a).is_none() {
                    return self.viol(
                        &format!("{prefix}.lost_eligible"),
                        &[("place", place.into()), ("limits", "not_reached".into())],
                        format!("{} is reliable, not expired and inside the limits but is missing after clean-up", self.short_of(&a)),
                    );
                }
            }
        } else {
            self.rep.probe("cleanup_trimmed_to_limits");
            for (k, list) in &output.peers {
                let want = elig.peers.get(k).map(|v| v.len()).unwrap_or(0).min(ma);
                if list.len() != want && !list.is_empty() {
                    return self.viol(
                        &format!("{prefix}.trim_count"),
                        &[("place", place.into()), ("what", "addrs".into())],
                        format!("{} keeps {} addresses, expected {want}", self.short_of(k), list.len()),
                    );
                }
            }
            let want = elig.n_nonempty_peers().min(mp);
            if output.n_nonempty_peers() != want {
                return self.viol(
                    &format!("{prefix}.trim_count"),
                    &[("place", place.into()), ("what", "peers".into())],
                    format!("{} peers kept, expected {want}", output.n_nonempty_peers()),
                );
            }
        }
    }

    // ------------------------------------------------------------------------------------------
    // the shared file: change tracking and the reader probe

    fn read_file(&self) -> Option<Vec<u8>> {
        std::fs::read(&self.path).ok()
    }

    /// Called after every atomic action. `may_change`: the action was a commit or the simulator's own write.
    fn post(&mut self, may_change: bool, what: &str) {
        if self.stop {
            return;
        }
        let bytes = self.read_file();
        if bytes != self.last_bytes {
            self.file_version += 1;
            if !may_change {
                let was = if self.last_bytes.is_some() { "present" } else { "absent" };
                let is = match &bytes {
                    None => "absent",
                    Some(b) if b.is_empty() => "empty",
                    Some(_) => "different content",
                };
                self.last_bytes = bytes;
                return self.viol(
                    "atomic.target_modified_outside_commit",
                    &[("during", what.into())],
                    format!("the cache file changed ({was} -> {is}) during '{what}', which is not a commit"),
                );
            }
            self.last_bytes = bytes;
        }
        self.probe_load();
    }

    /// What a starting node / client does with the cache: `PeersArgs::get_bootstrap_addr` with one `--peer` address
    /// given (no network contacts, so nothing is fetched). Whatever state the cache file is in - absent, well-formed,
    /// corrupt, of another network - the lookup succeeds and returns the given address: "a corrupt or foreign file is
    /// ignored without crashing".
    fn probe_lookup(&mut self) {
        let given: libp2p::Multiaddr = good_addr(self.plan.ukey, self.plan.n_peers + 7, 0).parse().expect("multiaddr");
        let (args, cfg) = if self.plan.via_peers_args {
            let dir = self.path.parent().expect("custom dir").to_path_buf();
            let decoy = dir.parent().expect("run dir").join("default-location").join("decoy_cache.json");
            (
                ant_bootstrap::PeersArgs { addrs: vec![given.clone()], disable_mainnet_contacts: true, bootstrap_cache_dir: Some(dir), ..Default::default() },
                self.cfg.clone().with_cache_path(&decoy),
            )
        } else {
            (ant_bootstrap::PeersArgs { addrs: vec![given.clone()], disable_mainnet_contacts: true, ..Default::default() }, self.cfg.clone())
        };
        let res = catch_unwind(AssertUnwindSafe(|| {
            let mut fut = Box::pin(args.get_bootstrap_addr(Some(cfg), None));
            let mut cx = std::task::Context::from_waker(std::task::Waker::noop());
            match fut.as_mut().poll(&mut cx) {
                std::task::Poll::Ready(r) => Some(r),
                std::task::Poll::Pending => None,
            }
        }));
        let state = format!("{:?}", self.file_state);
        match res {
            Err(p) => {
                let msg = panic_text(p);
                self.viol("lookup.panic", &[("file", state)], format!("PeersArgs::get_bootstrap_addr panicked: {msg}"))
            }
            Ok(None) => {
                self.rep.harness_error = Some("get_bootstrap_addr went to the network although no contacts are configured".into());
                self.stop = true;
            }
            Ok(Some(Err(e))) => self.viol(
                "lookup.failed_because_of_the_cache_file",
                &[("file", state)],
                format!("with a --peer address given, PeersArgs::get_bootstrap_addr failed: {e} (the cache file is only an optional source)"),
            ),
            Ok(Some(Ok(list))) => {
                if !list.iter().any(|a| a.addr == given) {
                    self.viol("lookup.given_peer_missing", &[("file", state)], "the address given with --peer is not among the bootstrap addresses returned".into());
                } else {
                    self.rep.probe(match self.file_state {
                        FileState::Corrupt => "lookup_ok_over_corrupt_or_foreign_file",
                        FileState::Absent => "lookup_ok_without_file",
                        FileState::Clean => "lookup_ok",
                    });
                }
            }
        }
    }

    fn probe_load(&mut self) {
        if !self.stop {
            self.probe_lookup();
            if self.stop {
                return;
            }
        }
        let own = self.last_bytes.as_ref().and_then(|b| parse_file(b));
        let cfg = self.cfg.clone();
        let _ = hooks::take_trim_window();
        let res = catch_unwind(AssertUnwindSafe(|| BootstrapCacheStore::load_cache_data(&cfg)));
        let took = hooks::take_trim_window();
        if own.as_ref().map(|o| self.clock_decided(o, 0, took)).unwrap_or(false) {
            self.race_suspect = true;
        }
        let writers = if self.flights.is_empty() { "none_in_flight" } else { "writers_in_flight" };
        match res {
            Err(p) => {
                let msg = panic_text(p);
                self.viol(
                    "load.panic",
                    &[("file", format!("{:?}", self.file_state))],
                    format!("load_cache_data panicked: {msg}"),
                )
            }
            Ok(Err(e)) => {
                let kind = match &e {
                    ant_bootstrap::Error::FailedToParseCacheData => "parse",
                    ant_bootstrap::Error::Io(_) => "io",
                    _ => "other",
                };
                self.rep.log(format!("  probe: load -> Err({kind})"));
                match self.file_state {
                    FileState::Absent => {}
                    FileState::Corrupt => self.rep.probe("load_err_on_corrupt_file"),
                    FileState::Clean => {
                        if own.is_none() {
                            return self.viol(
                                "persist.unreadable_by_reference_reader",
                                &[("writers", writers.into())],
                                "the file left by a writer is not a well-formed cache file".into(),
                            );
                        }
                        self.viol(
                            "load.failed_without_corruption",
                            &[("writers", writers.into())],
                            format!("load_cache_data returned {e} on a file nobody corrupted"),
                        )
                    }
                }
            }
            Ok(Ok(data)) => {
                let l = snap_of(&data);
                self.rep.log(format!("  probe: load -> Ok {}", self.render(&l)));
                if self.file_state == FileState::Corrupt {
                    self.rep.probe("load_ok_on_corrupted_file");
                }
                let Some(own) = own else {
                    if self.file_state == FileState::Corrupt {
                        self.rep.probe("loader_accepts_what_reference_reader_rejects");
                        self.inv(&l, true, true, "load");
                        return;
                    }
                    return self.viol(
                        "persist.unreadable_by_reference_reader",
                        &[("writers", writers.into())],
                        "load_cache_data accepted a file the reference reader rejects".into(),
                    );
                };
                self.check_foreign(&own, &l, "load_cache_data");
                self.inv(&l, true, true, "load");
                if self.stop {
                    return;
                }
                self.check_cleanup_result(&own, &l, "load", "load_cache_data");
            }
        }
    }

    fn check_foreign(&mut self, file: &Snap, used: &Snap, via: &str) {
        if file.network_version.as_deref() == Some(self.net_version.as_str()) || used.n_addrs() == 0 {
            return;
        }
        self.rep.probe("other_network_file_used");
        if CLAIM_OTHER_NETWORK_FILE_IGNORED && !self.foreign_reported {
            self.foreign_reported = true;
            // recorded once per run; the model follows the code, so the run continues
            self.rep.violate(
                P,
                "foreign.other_network_file_used",
                &[("via", via.into()), ("shape", "well_formed_file_of_another_network".into())],
                format!(
                    "the file carries network_version {:?} (ours is {:?}) and its {} addresses were returned as bootstrap peers",
                    file.network_version.clone().unwrap_or_default(),
                    self.net_version,
                    used.n_addrs()
                ),
            );
        }
    }

    // ------------------------------------------------------------------------------------------
    // in-memory operations (executed on the simulator thread; they contain no gate)

    /// Epilogue (every run that ends with a well-formed file): another process replaces the cache file atomically
    /// (temp file + rename, content of another length) BETWEEN two file system calls of one `load_cache_data`; every
    /// gap is tried. Both files are valid, so the load must succeed whichever of them it meets - "concurrent writers
    /// never leave a file that fails to load" holds for a reader that is in the middle of loading too. The gaps are
    /// reached through the file-system call points of the preload shim (open / stat family by path).
    fn epilogue_load_during_replacement(&mut self) {
        thread_local! {
            static SWAP: std::cell::RefCell<Option<(PathBuf, PathBuf)>> = const { std::cell::RefCell::new(None) };
        }
        extern "C" fn swap_now() {
            SWAP.with(|s| {
                if let Some((from, to)) = s.borrow_mut().take() {
                    let _ = std::fs::rename(from, to);
                }
            });
        }
        let Some(orig) = self.read_file() else { return };
        let Some(snap) = parse_file(&orig) else { return };
        if self.file_state != FileState::Clean {
            return;
        }
        let needle = match self.path.file_name().and_then(|n| n.to_str()) {
            Some(n) => n.to_string(),
            None => return,
        };
        // the other process's file: the same peers plus one (longer), or nothing at all (shorter)
        let mut bigger = snap.clone();
        let extra_key = peer_id(self.plan.ukey, self.plan.n_peers + 7).to_string();
        let extra_addr = good_addr(self.plan.ukey, self.plan.n_peers + 7, 0);
        bigger.peers.entry(extra_key).or_default().push((extra_addr, Ent { succ: 1, fail: 0, ls: self.base - Duration::from_secs(61) }));
        let variants: Vec<Vec<u8>> = vec![
            render_file(&bigger, &self.net_version.clone(), self.base),
            render_file(&Snap::default(), &self.net_version.clone(), self.base),
        ];
        let cfg = self.cfg.clone().with_cache_path(&self.path);
        // how many calls by path does one load make?
        if !simkit::shim::fs_arm(&needle, -1, None) {
            return;
        }
        let _ = catch_unwind(AssertUnwindSafe(|| BootstrapCacheStore::load_cache_data(&cfg)));
        let n_calls = simkit::shim::fs_disarm();
        self.rep.probe_n("load_fs_calls_by_path", n_calls.max(0) as u64);
        for (vi, other) in variants.iter().enumerate() {
            if other.len() == orig.len() {
                continue;
            }
            for k in 0..n_calls {
                // the file as it was, the other program's file ready next to it
                let tmp = self.dir.join(".other-program.tmp");
                if std::fs::write(&tmp, &orig).and_then(|_| std::fs::rename(&tmp, &self.path)).is_err() || std::fs::write(&tmp, other).is_err() {
                    self.rep.harness_error = Some("cannot prepare the replacement file".into());
                    self.stop = true;
                    return;
                }
                SWAP.with(|s| *s.borrow_mut() = Some((tmp.clone(), self.path.clone())));
                simkit::shim::fs_arm(&needle, k, Some(swap_now));
                let r = catch_unwind(AssertUnwindSafe(|| BootstrapCacheStore::load_cache_data(&cfg)));
                simkit::shim::fs_disarm();
                let fired = SWAP.with(|s| s.borrow_mut().take().is_none());
                let _ = std::fs::remove_file(&tmp);
                self.rep.inner_evaluations += 1;
                if fired {
                    self.rep.fault("file_replaced_between_two_fs_calls_of_a_load");
                }
                match r {
                    Err(p) => {
                        let msg = panic_text(p);
                        return self.viol("load.panic", &[("file", "replaced_during_load".into())], format!("load_cache_data panicked when the file was replaced before its file system call #{k}: {msg}"));
                    }
                    Ok(Err(e)) => {
                        return self.viol(
                            "load.failed_during_atomic_replacement",
                            &[("gap", format!("before_fs_call_{k}_of_{n_calls}")), ("other_file", if vi == 0 { "longer" } else { "shorter" }.into())],
                            format!("a well-formed cache file was atomically replaced by another well-formed one before file system call #{k} of a load, and the load failed: {e}"),
                        );
                    }
                    Ok(Ok(_)) => {}
                }
            }
        }
        // leave the file as the run left it
        let tmp = self.dir.join(".other-program.tmp");
        let _ = std::fs::write(&tmp, &orig).and_then(|_| std::fs::rename(&tmp, &self.path));
        self.rep.probe("loads_survived_replacement_in_every_gap");
    }

    /// FAULT epilogue (a third of the fault runs): the cache path cannot be replaced (a directory sits there, so the
    /// commit's rename fails) while process 0 flushes. The flush may fail, it must not panic, the store must still
    /// know afterwards what it knew before (nothing reached the disk), and once the path is free again the next
    /// flush of the same store saves all of it ("merging never loses a peer or address known to either side").
    fn epilogue_failed_flush(&mut self) {
        if self.procs.is_empty() || self.procs[0].is_none() || !self.flights.is_empty() {
            return;
        }
        self.op_add(0, 0, 0, SHAPE_GOOD, 0);
        self.op_add(0, 1, 0, SHAPE_GOOD, 0);
        if self.stop {
            return;
        }
        let Some(before) = self.mem_snap(0) else { return };
        if before.n_addrs() == 0 || !before.within_bounds(self.plan.max_peers, self.plan.max_addrs) {
            return;
        }
        let _ = std::fs::remove_file(&self.path);
        if std::fs::create_dir(&self.path).and_then(|_| std::fs::write(self.path.join("occupied"), b"x")).is_err() {
            self.rep.harness_error = Some("cannot block the cache path".into());
            self.stop = true;
            return;
        }
        self.rep.fault("cache_path_blocked_by_directory");
        self.rep.log("FAULT cache path blocked by a directory; p0 flushes".to_string());
        let mut store = self.procs[0].take().unwrap();
        let r = catch_unwind(AssertUnwindSafe(|| store.sync_and_flush_to_disk(false)));
        let _ = std::fs::remove_dir_all(&self.path);
        match r {
            Err(p) => {
                let msg = panic_text(p);
                return self.viol("panic", &[("where", "flush_with_blocked_path".into())], format!("the flush panicked: {msg}"));
            }
            Ok(Ok(())) => {
                self.rep.log("  flush reported Ok although the path was blocked".to_string());
                self.rep.probe("flush_ok_although_path_blocked");
                self.procs[0] = Some(store);
                self.last_bytes = self.read_file();
                return;
            }
            Ok(Err(e)) => {
                self.rep.log(format!("  flush failed: {}", e.to_string().chars().take(60).collect::<String>()));
                self.rep.probe("flush_failed_on_blocked_path");
            }
        }
        let after = snap_of(hooks::store_data(&store));
        for (k, a) in before.keys() {
            if after.get(&k, &a).is_none() {
                self.procs[0] = Some(store);
                return self.viol(
                    "flush.failed_flush_dropped_memory",
                    &[("fault", "cache_path_blocked".into())],
                    format!("the flush failed (nothing was saved) and {} is gone from the store's memory", self.short_of(&a)),
                );
            }
        }
        // the path is free again: the same store flushes once more
        let r2 = catch_unwind(AssertUnwindSafe(|| store.sync_and_flush_to_disk(false)));
        self.procs[0] = Some(store);
        match r2 {
            Err(p) => {
                let msg = panic_text(p);
                self.viol("panic", &[("where", "flush_after_blocked_path".into())], format!("the flush panicked: {msg}"))
            }
            Ok(Err(e)) => self.viol("flush.failed", &[("file_at_load", "Absent".into())], format!("the flush after the path was freed returned an error: {e}")),
            Ok(Ok(())) => {
                let bytes = self.read_file();
                let f1 = bytes.as_ref().and_then(|b| parse_file(b));
                self.last_bytes = bytes;
                match f1 {
                    None => self.viol("persist.unreadable_by_reference_reader", &[("writers", "none_in_flight".into())], "the file just committed is not a well-formed cache file".into()),
                    Some(f1) => {
                        for (k, a) in before.keys() {
                            if f1.get(&k, &a).is_none() {
                                return self.viol(
                                    "sync.lost_entry",
                                    &[("side", "memory".into()), ("cleanup", "false".into()), ("after", "failed_flush".into())],
                                    format!("{} was known to the store before its failed flush and is missing from the file its next flush saved", self.short_of(&a)),
                                );
                            }
                        }
                        self.rep.probe("retry_after_failed_flush_saved_everything");
                    }
                }
            }
        }
    }

    fn mem_snap(&self, p: usize) -> Option<Snap> {
        self.procs[p].as_ref().map(|s| snap_of(hooks::store_data(s)))
    }

    fn op_add(&mut self, proc: usize, peer: usize, var: usize, shape: u8, relay: usize) {
        let p = self.pick_proc(proc);
        let (peer, var, relay) = (peer % self.plan.n_peers.max(1), var % self.plan.n_vars.max(1), relay % self.plan.n_peers.max(1));
        let shape = shape % N_SHAPES;
        let Some(before) = self.mem_snap(p) else {
            self.rep.log(format!("add p{p}: process busy flushing, skipped"));
            return;
        };
        let input = input_addr(self.plan.ukey, peer, var, shape, relay);
        let Ok(m) = Multiaddr::from_str(&input) else {
            self.rep.harness_error = Some(format!("generated address does not parse: {input}"));
            self.stop = true;
            return;
        };
        let target = match shape {
            SHAPE_GOOD => Some(good_addr(self.plan.ukey, peer, var)),
            SHAPE_RELAYED => Some(good_addr(self.plan.ukey, relay, var)),
            _ => None,
        };
        self.before_stamping_op();
        let _ = hooks::take_trim_window();
        self.procs[p].as_mut().unwrap().add_addr(m);
        let took = hooks::take_trim_window();
        self.last_stamp = Instant::now();
        if self.clock_decided(&before, 1, took) {
            self.race_suspect = true;
        }
        self.rep.ops += 1;
        let after = self.mem_snap(p).unwrap();
        self.rep.log(format!("add p{p} P{peer}a{var} shape={} -> {}", shape_name(shape), self.render(&after)));
        match &target {
            None => {
                self.rep.probe("add_rejected_ill_formed");
                if after != before {
                    return self.viol(
                        "add.ill_formed_changed_cache",
                        &[("shape", shape_name(shape).into())],
                        format!("add_addr({input}) changed the cache"),
                    );
                }
                self.inv(&after, false, true, "memory");
            }
            Some(t) => {
                let was_there = before.peers.values().any(|l| l.iter().any(|(a, _)| a == t));
                let is_there = after.peers.values().any(|l| l.iter().any(|(a, _)| a == t));
                if shape == SHAPE_RELAYED {
                    self.rep.probe("relayed_addr_stored_as_relay_addr");
                }
                if was_there {
                    self.rep.probe("add_duplicate");
                    self.inv(&after, false, true, "memory");
                } else {
                    if !is_there {
                        self.rep.probe("add_trimmed_by_limit");
                    }
                    // a new address: add_addr ends with clean-up
                    self.inv(&after, true, true, "memory");
                }
            }
        }
    }

    fn op_status(&mut self, proc: usize, peer: usize, var: usize, success: bool, times: u8) {
        let p = self.pick_proc(proc);
        let (peer, var) = (peer % self.plan.n_peers.max(1), var % self.plan.n_vars.max(1));
        if self.procs[p].is_none() {
            self.rep.log(format!("status p{p}: process busy flushing, skipped"));
            return;
        }
        let addr = Multiaddr::from_str(&good_addr(self.plan.ukey, peer, var)).expect("good addr");
        self.before_stamping_op();
        for _ in 0..times.max(1) {
            self.procs[p].as_mut().unwrap().update_addr_status(&addr, success);
        }
        self.last_stamp = Instant::now();
        self.rep.ops += 1;
        let after = self.mem_snap(p).unwrap();
        self.rep.log(format!("status p{p} P{peer}a{var} success={success} x{} -> {}", times.max(1), self.render(&after)));
        self.inv(&after, false, true, "memory");
    }

    fn op_remove(&mut self, proc: usize, peer: usize, var: usize) {
        let p = self.pick_proc(proc);
        let (peer, var) = (peer % self.plan.n_peers.max(1), var % self.plan.n_vars.max(1));
        if self.procs[p].is_none() {
            self.rep.log(format!("remove p{p}: process busy flushing, skipped"));
            return;
        }
        let addr = Multiaddr::from_str(&good_addr(self.plan.ukey, peer, var)).expect("good addr");
        self.procs[p].as_mut().unwrap().remove_addr(&addr);
        self.rep.ops += 1;
        let after = self.mem_snap(p).unwrap();
        self.rep.log(format!("remove p{p} P{peer}a{var} -> {}", self.render(&after)));
        self.inv(&after, false, true, "memory");
    }

    fn op_cleanup(&mut self, proc: usize) {
        let p = self.pick_proc(proc);
        let Some(before) = self.mem_snap(p) else {
            self.rep.log(format!("cleanup p{p}: process busy flushing, skipped"));
            return;
        };
        let _ = hooks::take_trim_window();
        self.procs[p].as_mut().unwrap().perform_cleanup();
        let took = hooks::take_trim_window();
        if self.clock_decided(&before, 0, took) {
            self.race_suspect = true;
        }
        self.rep.ops += 1;
        let after = self.mem_snap(p).unwrap();
        self.rep.log(format!("cleanup p{p} -> {}", self.render(&after)));
        if after != before {
            self.rep.probe("memory_cleanup_removed_something");
        }
        self.inv(&after, true, true, "memory");
        if self.stop {
            return;
        }
        self.check_cleanup_result(&before, &after, "cleanup", "memory");
    }

    fn op_restart(&mut self, proc: usize) {
        let p = self.pick_proc(proc);
        if self.procs[p].is_none() || self.flights.iter().any(|f| f.proc == p) {
            self.rep.log(format!("restart p{p}: flush in flight, skipped"));
            return;
        }
        self.procs[p] = self.new_store();
        self.rep.ops += 1;
        self.rep.probe("process_restarted");
        self.rep.log(format!("restart p{p}: memory dropped"));
    }

    // ------------------------------------------------------------------------------------------
    // the simulator's own writes to the shared file

    fn entries_snap(&self, entries: &[CraftEnt]) -> (Snap, bool) {
        let mut s = Snap::default();
        let mut future = false;
        for e in entries {
            let (peer, var) = (e.peer % self.plan.n_peers.max(1), e.var % self.plan.n_vars.max(1));
            let key = peer_id(self.plan.ukey, peer).to_string();
            let addr = good_addr(self.plan.ukey, peer, var);
            let age = crafted_age(e.age, self.plan.expiry_s);
            future |= age_is_future(e.age);
            let ls = if e.age == 99 {
                // a stamp so far in the future that adding the expiry to it overflows SystemTime
                crate::model::far_future()
            } else if age >= 0 {
                self.base - Duration::from_secs(age as u64)
            } else {
                self.base + Duration::from_secs((-age) as u64)
            };
            let list = s.peers.entry(key).or_default();
            if !list.iter().any(|(a, _)| *a == addr) {
                list.push((addr, Ent { succ: e.succ, fail: e.fail, ls }));
            }
        }
        (s, future)
    }

    fn replace_file_atomically(&mut self, bytes: &[u8]) {
        let tmp = self.dir.join(".other-program.tmp");
        if std::fs::write(&tmp, bytes).and_then(|_| std::fs::rename(&tmp, &self.path)).is_err() {
            self.rep.harness_error = Some("cannot write the crafted cache file".into());
            self.stop = true;
        }
    }

    fn op_craft(&mut self, entries: &[CraftEnt]) {
        let (snap, future) = self.entries_snap(entries);
        let bytes = render_file(&snap, &self.net_version.clone(), self.base);
        self.replace_file_atomically(&bytes);
        self.file_state = FileState::Clean;
        self.corrupt_pending_flush = false;
        self.rep.ops += 1;
        self.rep.probe("crafted_file_installed");
        if future {
            self.rep.fault("clock_skew_future_last_seen");
        }
        self.rep.log(format!("craft file: {}", self.render(&snap)));
        self.post(true, "craft");
    }

    fn op_foreign(&mut self, entries: &[CraftEnt]) {
        let (snap, _) = self.entries_snap(entries);
        let bytes = render_file(&snap, ALIEN_NETWORK, self.base);
        self.replace_file_atomically(&bytes);
        // a well-formed file of another network: loading it may fail cleanly (it is ignored) or succeed
        // without using its peers; it is never "a file nobody tampered with"
        self.file_state = FileState::Corrupt;
        self.corrupt_pending_flush = true;
        self.rep.fault("file_of_other_network");
        self.rep.log(format!("FAULT other-network file: {}", self.render(&snap)));
        self.post(true, "foreign");
    }

    fn op_corrupt(&mut self, how: u8, arg: u32) {
        let cur = self.last_bytes.clone();
        let (name, bytes, note): (&str, Vec<u8>, String) = match (how % 4, cur) {
            // file lengths depend on the digits of wall-clock stamps, so damage is addressed by
            // structure (per-mille prefix, line / column outside stamp values), never by byte offset
            (0, Some(b)) if b.len() >= 4 => {
                let (pos, note) = structural_position(&b, arg);
                // 1 ..= len-2: at least the closing brace is cut off
                let n = pos.clamp(1, b.len() - 2);
                ("corrupt_truncated", b[..n].to_vec(), format!("before {note}"))
            }
            (1, Some(mut b)) if !b.is_empty() => {
                let (pos, note) = structural_position(&b, arg);
                let bit = ((arg >> 24) as usize) % 8;
                b[pos] ^= 1 << bit;
                self.tainted = true;
                ("corrupt_bit_flip", b, format!("{note} bit {bit}"))
            }
            (0, _) | (1, _) => {
                self.rep.log("corrupt: no file to damage, skipped".to_string());
                return;
            }
            (2, _) => ("corrupt_empty", vec![], String::new()),
            _ => {
                let id = peer_id(self.plan.ukey, 0);
                let variants = [
                    "{}\n".to_string(),
                    "[]\n".to_string(),
                    "{\"peers\": [], \"last_updated\": 0, \"network_version\": 1}\n".to_string(),
                    "\"bootstrap cache\"\n".to_string(),
                    format!("{{\"peers\": {{\"{id}\": {{\"addr\": \"/ip4/10.1.0.1/udp/4000/quic-v1/p2p/{id}\"}}}}}}\n"),
                    "<?xml version=\"1.0\"?><cache/>\n".to_string(),
                    "\u{0}\u{0}\u{0}\u{0}\u{0}\u{0}\u{0}\u{0}".to_string(),
                ];
                let v = (arg as usize) % variants.len();
                ("corrupt_wrong_schema", variants[v].clone().into_bytes(), format!("variant {v}"))
            }
        };
        if std::fs::write(&self.path, &bytes).is_err() {
            self.rep.harness_error = Some("cannot overwrite the cache file".into());
            self.stop = true;
            return;
        }
        self.file_state = FileState::Corrupt;
        self.corrupt_pending_flush = true;
        self.rep.fault(name);
        self.rep.log(format!("FAULT {name} {note}"));
        self.post(true, "corrupt");
    }

    // ------------------------------------------------------------------------------------------
    // writers

    fn wait(&mut self) -> bool {
        if self.ctrl.wait_quiet(Duration::from_secs(30)) {
            true
        } else {
            self.rep.harness_error = Some("a writer thread neither parked nor finished within 30 s".into());
            self.stop = true;
            false
        }
    }

    fn start_flight(&mut self, proc: usize, kind: Kind, detach: bool) {
        let p = self.pick_proc(proc);
        if self.procs[p].is_none() {
            self.rep.log(format!("flush p{p}: process busy flushing, skipped"));
            return;
        }
        let store = if detach {
            // driver.rs: clone, replace by a fresh empty store, flush the clone in a spawned task
            let old = self.procs[p].as_ref().unwrap().clone();
            self.procs[p] = self.new_store();
            if self.procs[p].is_none() {
                return;
            }
            old
        } else {
            self.procs[p].take().unwrap()
        };
        let mem = snap_of(hooks::store_data(&store));
        let label = self.next_label;
        self.next_label += 1;
        let f0 = self.last_bytes.as_ref().and_then(|b| parse_file(b));
        let seed = simkit::mix(self.entropy, 0x77_0000 + label);
        let ctrl = Arc::clone(&self.ctrl);
        self.ctrl.register(label);
        let handle = std::thread::Builder::new()
            .name(format!("writer-{label}"))
            .spawn(move || {
                if simkit::shim::loaded() {
                    simkit::shim::reseed(seed);
                }
                let mut store = store;
                let end = hooks::run_writer(&ctrl, label, || match kind {
                    Kind::Flush { cleanup } => store.sync_and_flush_to_disk(cleanup).map_err(|e| e.to_string()),
                    Kind::Write => store.write().map_err(|e| e.to_string()),
                });
                (store, end)
            });
        let handle = match handle {
            Ok(h) => h,
            Err(e) => {
                self.rep.harness_error = Some(format!("cannot spawn writer thread: {e}"));
                self.stop = true;
                return;
            }
        };
        self.rep.ops += 1;
        self.rep.log(format!(
            "start w{label} p{p} {} memory: {}",
            match kind {
                Kind::Flush { cleanup } => format!("sync_and_flush_to_disk({cleanup}){}", if detach { " detached" } else { "" }),
                Kind::Write => "write()".into(),
            },
            self.render(&mem)
        ));
        if self.file_state == FileState::Corrupt && matches!(kind, Kind::Flush { .. }) {
            self.rep.probe("flush_started_over_corrupted_file");
        }
        if self.file_state == FileState::Absent {
            self.rep.probe("flush_started_without_file");
        }
        self.flights.push(Flight {
            label,
            proc: p,
            kind,
            detach,
            handle: Some(handle),
            mem,
            f0,
            f0_state: self.file_state,
            loaded: None,
            version_at_load: self.file_version,
            site: "start",
        });
        if !self.wait() {
            return;
        }
        self.after_release(label, "start");
    }

    /// The writer `label` has just run one segment (from `site_before` to its next gate or to the end).
    fn after_release(&mut self, label: u64, site_before: &'static str) {
        let what = format!("w{label} after {site_before}");
        if let (Some(took), Some(fl)) = (self.ctrl.last_trim_window(label), self.flights.iter().find(|f| f.label == label)) {
            // segments that clean up: the load (file side) and merge + clean-up (both sides)
            let input = match (site_before, fl.kind) {
                ("start", Kind::Flush { .. }) => fl.f0.clone(),
                ("flush.loaded", _) | ("flush.load_failed", _) => {
                    let mut u = fl.mem.clone();
                    if let Some(f0) = &fl.f0 {
                        for (k, list) in &f0.peers {
                            let dst = u.peers.entry(k.clone()).or_default();
                            for (a, e) in list {
                                if !dst.iter().any(|(x, _)| x == a) {
                                    dst.push((a.clone(), e.clone()));
                                }
                            }
                        }
                    }
                    Some(u)
                }
                _ => None,
            };
            if let Some(input) = input {
                if self.clock_decided(&input, 0, took) {
                    self.race_suspect = true;
                }
            }
        }
        if self.ctrl.is_finished(label) {
            self.finish_flight(label, site_before);
        } else {
            let site = self
                .ctrl
                .parked()
                .into_iter()
                .find(|w| w.label == label)
                .map(|w| w.site)
                .unwrap_or("?");
            self.rep.log(format!("  w{label}: {site_before} -> parked at {site}"));
            let idx = self.flights.iter().position(|f| f.label == label).expect("flight");
            self.flights[idx].site = site;
            if site_before == "start" && matches!(self.flights[idx].kind, Kind::Flush { .. }) {
                self.check_writer_load(idx, site);
            }
        }
        self.post(site_before == "write.written", &what);
    }

    /// First park of a flush: did its load of the shared file behave as it must?
    fn check_writer_load(&mut self, idx: usize, site: &'static str) {
        let loaded = site == "flush.loaded";
        self.flights[idx].loaded = Some(loaded);
        let state = self.flights[idx].f0_state;
        let others = if self.flights.len() > 1 { "writers_in_flight" } else { "none_in_flight" };
        match (state, loaded) {
            (FileState::Absent, false) => {}
            (FileState::Absent, true) => self.viol("load.ok_without_file", &[], "a flush loaded a cache although no file exists".into()),
            (FileState::Clean, false) => {
                if self.flights[idx].f0.is_none() {
                    return self.viol(
                        "persist.unreadable_by_reference_reader",
                        &[("writers", others.into())],
                        "the file left by a writer is not a well-formed cache file".into(),
                    );
                }
                self.viol(
                    "load.failed_without_corruption",
                    &[("writers", others.into()), ("via", "sync_and_flush_to_disk".into())],
                    "a flush could not load a file nobody corrupted and will overwrite it".into(),
                )
            }
            (FileState::Clean, true) => {
                if let Some(f0) = self.flights[idx].f0.clone() {
                    if f0.network_version.as_deref() != Some(self.net_version.as_str()) {
                        let e0 = f0.eligible(SystemTime::now(), self.expiry);
                        self.check_foreign(&f0, &e0, "sync_and_flush_to_disk");
                    }
                }
            }
            (FileState::Corrupt, false) => self.rep.probe("flush_ignored_corrupted_file"),
            (FileState::Corrupt, true) => self.rep.probe("flush_loaded_corrupted_but_loadable_file"),
        }
    }

    fn release(&mut self, label: u64) {
        let Some(idx) = self.flights.iter().position(|f| f.label == label) else {
            return;
        };
        let site_before = self.flights[idx].site;
        // hold the current target open across a commit so that its inode number cannot be reused
        let held = if site_before == "write.written" { std::fs::File::open(&self.path).ok() } else { None };
        let ino_before = held.as_ref().and_then(|f| f.metadata().ok()).map(|m| m.ino());
        self.rep.sched.write_u64(label);
        self.rep.sched.write_str(site_before);
        if !self.ctrl.release(label) {
            self.rep.harness_error = Some(format!("writer {label} was not parked"));
            self.stop = true;
            return;
        }
        if !self.wait() {
            return;
        }
        self.rep.steps += 1;
        let prev_bytes = self.last_bytes.clone();
        self.after_release(label, site_before);
        if site_before == "write.written" && !self.stop {
            let ino_after = std::fs::metadata(&self.path).ok().map(|m| m.ino());
            if ino_before.is_some() && ino_before == ino_after {
                self.torn_states(prev_bytes);
            } else {
                self.rep.probe("commit_installed_new_inode");
            }
        }
        drop(held);
    }

    /// The target was rewritten in place: every byte prefix of the new content (and, before that,
    /// the truncated-to-nothing file) is a state a crash or a concurrent reader can observe.
    fn torn_states(&mut self, _prev: Option<Vec<u8>>) {
        let Some(new) = self.last_bytes.clone() else { return };
        self.rep.fault("torn_write_prefixes_enumerated");
        let scratch = self.dir.join("torn-state.json");
        let cfg = self.cfg.clone().with_cache_path(&scratch);
        let mut bad = 0usize;
        let mut first_bad = None;
        for n in 0..new.len() {
            if std::fs::write(&scratch, &new[..n]).is_err() {
                break;
            }
            self.rep.inner_evaluations += 1;
            let c = cfg.clone();
            match catch_unwind(AssertUnwindSafe(|| BootstrapCacheStore::load_cache_data(&c))) {
                Err(p) => {
                    let msg = panic_text(p);
                    let _ = std::fs::remove_file(&scratch);
                    return self.viol("load.panic", &[("file", "torn_prefix".into())], format!("load_cache_data panicked on a {n}-byte prefix: {msg}"));
                }
                Ok(Err(_)) => {
                    bad += 1;
                    first_bad.get_or_insert(n);
                }
                Ok(Ok(_)) => {}
            }
        }
        let _ = std::fs::remove_file(&scratch);
        if bad > 0 {
            self.viol(
                "atomic.replaced_in_place",
                &[("inode", "unchanged_by_commit".into())],
                format!("the commit rewrote the existing inode; {} of the byte prefixes of the new content do not load (shortest failing prefix: {} bytes)", if bad == new.len() { "all" } else { "some" }, first_bad.unwrap_or(0)),
            );
        }
    }

    fn finish_flight(&mut self, label: u64, site_before: &'static str) {
        let idx = self.flights.iter().position(|f| f.label == label).expect("flight");
        let mut fl = self.flights.remove(idx);
        let joined = fl.handle.take().map(|h| h.join());
        self.ctrl.forget(label);
        let (store, end) = match joined {
            Some(Ok(x)) => x,
            _ => {
                self.rep.harness_error = Some("writer thread could not be joined".into());
                self.stop = true;
                return;
            }
        };
        let p = fl.proc;
        match end {
            WriterEnd::Abandoned(site) => {
                self.rep.log(format!("  w{label}: killed at {site}"));
                // the process is gone; crash() installs the restarted one
            }
            WriterEnd::Panicked(msg) => {
                if !fl.detach {
                    self.procs[p] = self.new_store();
                }
                self.viol("panic", &[("where", "writer".into()), ("after", site_before.into())], format!("the flush panicked: {msg}"));
            }
            WriterEnd::Done(Err(e)) => {
                if !fl.detach {
                    self.procs[p] = Some(store);
                }
                self.rep.log(format!("  w{label}: {site_before} -> finished Err({e})"));
                self.viol(
                    "flush.failed",
                    &[("file_at_load", format!("{:?}", fl.f0_state))],
                    format!("the flush returned an error: {e}"),
                );
            }
            WriterEnd::Done(Ok(())) => {
                let left = snap_of(hooks::store_data(&store)).n_addrs();
                if !fl.detach {
                    self.procs[p] = Some(store);
                }
                let bytes = self.read_file();
                let f1 = bytes.as_ref().and_then(|b| parse_file(b));
                self.rep.log(format!(
                    "  w{label}: {site_before} -> finished Ok, file: {}, memory left: {left}",
                    f1.as_ref().map(|s| self.render(s)).unwrap_or_else(|| "UNREADABLE".into())
                ));
                self.rep.probe("flush_committed");
                let Some(f1) = f1 else {
                    return self.viol(
                        "persist.unreadable_by_reference_reader",
                        &[("writers", if self.flights.is_empty() { "none_in_flight" } else { "writers_in_flight" }.into())],
                        "the file just committed is not a well-formed cache file".into(),
                    );
                };
                if fl.version_at_load != self.file_version {
                    self.rep.probe("commit_over_file_changed_since_load");
                    if let Some(prev) = self.last_bytes.as_ref().and_then(|b| parse_file(b)) {
                        let lost = prev.keys().difference(&f1.keys()).count();
                        if lost > 0 && self.file_state == FileState::Clean {
                            self.rep.probe_n("lost_update_entries_overwritten", lost as u64);
                        }
                    }
                }
                if fl.f0_state == FileState::Corrupt && matches!(fl.kind, Kind::Flush { .. }) {
                    self.rep.probe("flush_succeeded_over_corrupted_file");
                }
                self.file_state = FileState::Clean;
                self.corrupt_pending_flush = false;
                self.check_flush(&fl, &f1);
            }
        }
    }

    /// The committed file against the flusher's memory and the file it loaded.
    fn check_flush(&mut self, fl: &Flight, f1: &Snap) {
        let now = SystemTime::now();
        let (mp, ma) = (self.plan.max_peers, self.plan.max_addrs);
        let cleanup = match fl.kind {
            Kind::Write => {
                self.inv(f1, false, false, "file_after_write");
                if self.stop {
                    return;
                }
                let nonempty = |s: &Snap| -> BTreeMap<String, Vec<(String, Ent)>> {
                    s.peers.iter().filter(|(_, v)| !v.is_empty()).map(|(k, v)| (k.clone(), v.clone())).collect()
                };
                if nonempty(f1) != nonempty(&fl.mem) {
                    self.viol("write.not_equal_memory", &[], format!("write() stored {} but memory was {}", self.render(f1), self.render(&fl.mem)));
                }
                return;
            }
            Kind::Flush { cleanup } => cleanup,
        };
        self.rep.probe(if cleanup { "flush_with_cleanup" } else { "flush_without_cleanup" });
        self.inv(f1, cleanup, cleanup, "file_after_flush");
        if self.stop {
            return;
        }
        let loaded = fl.loaded == Some(true);
        if loaded && fl.f0.is_none() {
            // only after a corruption: the loader accepted what the reference reader rejects
            self.rep.probe("merge_with_unreadable_file_side");
            if !cleanup {
                for (k, a) in fl.mem.keys() {
                    if f1.get(&k, &a).is_none() {
                        return self.viol("sync.lost_entry", &[("side", "memory".into()), ("cleanup", "false".into())], format!("{} known to the flusher is missing from the file", self.short_of(&a)));
                    }
                }
            }
            return;
        }
        let empty = Snap::default();
        let fside = if loaded { fl.f0.as_ref().unwrap_or(&empty) } else { &empty };
        let e0 = fside.eligible(now, self.expiry);
        let forced1 = !e0.within_bounds(mp, ma);
        if forced1 {
            self.rep.probe("file_side_trimmed_at_load");
        }
        // union of both sides with merged counters
        struct U {
            ent: Ent,
            m: Option<Ent>,
            f: Option<Ent>,
            sat: bool,
        }
        let mut u: BTreeMap<(String, String), U> = BTreeMap::new();
        for (k, list) in &fl.mem.peers {
            for (a, e) in list {
                u.insert((k.clone(), a.clone()), U { ent: e.clone(), m: Some(e.clone()), f: None, sat: false });
            }
        }
        let mut both = 0;
        for (k, list) in &e0.peers {
            for (a, e) in list {
                match u.get_mut(&(k.clone(), a.clone())) {
                    Some(x) => {
                        x.f = Some(e.clone());
                        if x.ent.ls != e.ls {
                            both += 1;
                            let s = x.ent.succ as u64 + e.succ as u64;
                            let f = x.ent.fail as u64 + e.fail as u64;
                            x.sat = s >= u32::MAX as u64 || f >= u32::MAX as u64;
                            x.ent = Ent { succ: s.min(u32::MAX as u64) as u32, fail: f.min(u32::MAX as u64) as u32, ls: x.ent.ls.max(e.ls) };
                        }
                    }
                    None => {
                        u.insert((k.clone(), a.clone()), U { ent: e.clone(), m: None, f: Some(e.clone()), sat: false });
                    }
                }
            }
        }
        if both > 0 {
            self.rep.probe("merge_entry_known_to_both_sides");
        }
        let any_sat = u.values().any(|x| x.sat);
        if any_sat {
            self.rep.probe("counter_saturated_in_merge");
        }
        // nothing invented, nothing altered
        for (k, list) in &f1.peers {
            for (a, e) in list {
                let Some(x) = u.get(&(k.clone(), a.clone())) else {
                    let origin = if fside.get(k, a).is_some() { "ineligible_file_entry" } else { "neither_side" };
                    return self.viol(
                        "sync.invented_entry",
                        &[("origin", origin.into()), ("cleanup", cleanup.to_string())],
                        format!("{} is in the committed file but was neither in memory nor an eligible entry of the loaded file", self.short_of(a)),
                    );
                };
                match (&x.m, &x.f) {
                    (Some(m), None) => {
                        if e != m {
                            return self.viol("sync.entry_altered", &[("side", "memory".into())], format!("{}: memory had {:?}, file has {:?}", self.short_of(a), (m.succ, m.fail), (e.succ, e.fail)));
                        }
                    }
                    (None, Some(f)) => {
                        if e != f {
                            return self.viol("sync.entry_altered", &[("side", "file".into())], format!("{}: loaded file had {:?}, committed file has {:?}", self.short_of(a), (f.succ, f.fail), (e.succ, e.fail)));
                        }
                    }
                    (Some(m), Some(f)) => {
                        if m.ls == f.ls {
                            if e != m {
                                return self.viol("sync.entry_altered", &[("side", "both_same_stamp".into())], format!("{}: {:?} became {:?}", self.short_of(a), (m.succ, m.fail), (e.succ, e.fail)));
                            }
                        } else if forced1 && e == m {
                            // the file side's copy may have been trimmed at load
                        } else if !x.sat {
                            let which = if e.fail < m.fail.max(f.fail) {
                                Some("failures")
                            } else if e.succ < m.succ.max(f.succ) {
                                Some("successes")
                            } else if e.ls != m.ls.max(f.ls) {
                                Some("last_seen")
                            } else {
                                None
                            };
                            if let Some(which) = which {
                                return self.viol(
                                    "sync.counts_lost",
                                    &[("which", which.into())],
                                    format!(
                                        "{}: memory {}/{}@{} merged with file {}/{}@{} gave {}/{}@{}",
                                        self.short_of(a), m.succ, m.fail, fmt_ls(m.ls, self.base), f.succ, f.fail, fmt_ls(f.ls, self.base), e.succ, e.fail, fmt_ls(e.ls, self.base)
                                    ),
                                );
                            }
                            if e.succ as u64 == m.succ as u64 + f.succ as u64 && e.fail as u64 == m.fail as u64 + f.fail as u64 {
                                self.rep.probe("merge_counters_summed");
                            }
                        }
                    }
                    (None, None) => {}
                }
            }
        }
        if !cleanup {
            for ((k, a), x) in &u {
                let must = x.m.is_some() || !forced1;
                if must && f1.get(k, a).is_none() {
                    let side = match (&x.m, &x.f) {
                        (Some(_), Some(_)) => "both",
                        (Some(_), None) => "memory",
                        _ => "file",
                    };
                    return self.viol(
                        "sync.lost_entry",
                        &[("side", side.into()), ("cleanup", "false".into())],
                        format!("{} was known to the {side} side before the merge and is missing from the committed file", self.short_of(a)),
                    );
                }
            }
            return;
        }
        if any_sat || forced1 {
            return;
        }
        // with clean-up, the file side untouched by limits at load: the result is clean-up of the union
        let mut merged = Snap::default();
        for ((k, a), x) in &u {
            merged.peers.entry(k.clone()).or_default().push((a.clone(), x.ent.clone()));
        }
        let elig = merged.eligible(now, self.expiry);
        if elig.within_bounds(mp, ma) {
            for (k, a) in elig.keys() {
                if f1.get(&k, &a).is_none() {
                    let x = &u[&(k.clone(), a.clone())];
                    let side = match (&x.m, &x.f) {
                        (Some(_), Some(_)) => "both",
                        (Some(_), None) => "memory",
                        _ => "file",
                    };
                    return self.viol(
                        "sync.lost_entry",
                        &[("side", side.into()), ("cleanup", "true_limits_not_reached".into())],
                        format!("{} is reliable, not expired, inside the limits and known to the {side} side, but missing from the committed file", self.short_of(&a)),
                    );
                }
            }
            for (k, a) in f1.keys() {
                if elig.get(&k, &a).is_none() {
                    return self.viol(
                        "sync.kept_ineligible",
                        &[],
                        format!("{} should have been removed by clean-up after the merge", self.short_of(&a)),
                    );
                }
            }
        } else {
            self.rep.probe("merge_result_trimmed_to_limits");
            for (k, list) in &f1.peers {
                let want = elig.peers.get(k).map(|v| v.len()).unwrap_or(0).min(ma);
                if !list.is_empty() && list.len() != want {
                    return self.viol("sync.trim_count", &[("what", "addrs".into())], format!("{} keeps {} addresses, expected {want}", self.short_of(k), list.len()));
                }
            }
            let want = elig.n_nonempty_peers().min(mp);
            if f1.n_nonempty_peers() != want {
                return self.viol("sync.trim_count", &[("what", "peers".into())], format!("{} peers kept, expected {want}", f1.n_nonempty_peers()));
            }
        }
    }

    fn op_run(&mut self, sel: u32) {
        let parked = self.ctrl.parked();
        if parked.is_empty() {
            self.rep.log("run: nothing parked".to_string());
            return;
        }
        let i = if sel == u32::MAX { parked.len() - 1 } else { sel as usize % parked.len() };
        if i != 0 {
            self.rep.nonfifo += 1;
        }
        let label = parked[i].label;
        self.rep.log(format!("run w{label} (choice {i} of {})", parked.len()));
        self.release(label);
    }

    fn op_settle(&mut self) {
        self.rep.log("settle".to_string());
        let mut guard = 0;
        while !self.stop {
            let parked = self.ctrl.parked();
            let Some(first) = parked.first() else { break };
            self.release(first.label);
            guard += 1;
            if guard > 10_000 {
                self.rep.harness_error = Some("settle does not terminate".into());
                self.stop = true;
            }
        }
    }

    fn dir_listing(&self) -> BTreeMap<String, Vec<u8>> {
        let mut out = BTreeMap::new();
        if let Ok(rd) = std::fs::read_dir(&self.dir) {
            for e in rd.flatten() {
                let p = e.path();
                if p == self.path {
                    continue;
                }
                if let (Some(name), Ok(bytes)) = (p.file_name().and_then(|n| n.to_str()), std::fs::read(&p)) {
                    out.insert(name.to_string(), bytes);
                }
            }
        }
        out
    }

    /// Kill the process that owns the `sel`-th parked writer.
    fn op_crash(&mut self, sel: u32) {
        let parked = self.ctrl.parked();
        if parked.is_empty() {
            self.rep.log("crash: nothing parked".to_string());
            return;
        }
        let i = sel as usize % parked.len();
        let label = parked[i].label;
        let p = self.flights.iter().find(|f| f.label == label).map(|f| f.proc).unwrap_or(0);
        let victims: Vec<(u64, &'static str)> = self.flights.iter().filter(|f| f.proc == p).map(|f| (f.label, f.site)).collect();
        let before = self.dir_listing();
        self.rep.log(format!("FAULT kill p{p}: writers {:?}", victims.iter().map(|(l, s)| format!("w{l}@{s}")).collect::<Vec<_>>()));
        for (l, site) in &victims {
            self.rep.sched.write_u64(*l);
            if !self.ctrl.abandon(*l) {
                self.rep.harness_error = Some(format!("writer {l} was not parked"));
                self.stop = true;
                return;
            }
            if !self.wait() {
                return;
            }
            self.rep.fault("writer_killed_at_gate");
            self.rep.probe(&format!("killed_at_{site}"));
            self.finish_flight(*l, site);
        }
        // a kill runs no destructor: put back the temp files the unwinding removed
        let after = self.dir_listing();
        let mut left = 0;
        for (name, bytes) in &before {
            if !after.contains_key(name) {
                let _ = std::fs::write(self.dir.join(name), bytes);
                left += 1;
            }
        }
        if left > 0 {
            self.rep.probe_n("temp_file_left_behind_by_killed_writer", left);
        }
        self.procs[p] = self.new_store();
        self.rep.log(format!("  p{p} restarted with empty memory; {left} temp file(s) left behind"));
        self.post(false, "kill");
    }

    fn abort_all_writers(&mut self) {
        let labels: Vec<u64> = self.flights.iter().map(|f| f.label).collect();
        for l in labels {
            if self.ctrl.abandon(l) {
                let _ = self.ctrl.wait_quiet(Duration::from_secs(30));
            }
            if let Some(idx) = self.flights.iter().position(|f| f.label == l) {
                let mut fl = self.flights.remove(idx);
                if self.ctrl.is_finished(l) {
                    if let Some(h) = fl.handle.take() {
                        let _ = h.join();
                    }
                }
            }
        }
    }

    // ------------------------------------------------------------------------------------------

    fn run(&mut self) {
        for _ in 0..self.n_procs() {
            let s = self.new_store();
            self.procs.push(s);
        }
        self.rep.log(format!(
            "config: procs={} max_peers={} max_addrs={} expiry={}s universe={}x{} mode={}",
            self.n_procs(), self.plan.max_peers, self.plan.max_addrs, self.plan.expiry_s, self.plan.n_peers, self.plan.n_vars, self.plan.mode
        ));
        let steps = self.plan.steps.clone();
        for step in &steps {
            if self.stop {
                break;
            }
            self.rep.steps += 1;
            match step {
                Step::Add { proc, peer, var, shape, relay } => {
                    self.op_add(*proc, *peer, *var, *shape, *relay);
                    self.post(false, "add_addr");
                }
                Step::Status { proc, peer, var, success, times } => {
                    self.op_status(*proc, *peer, *var, *success, *times);
                    self.post(false, "update_addr_status");
                }
                Step::Remove { proc, peer, var } => {
                    self.op_remove(*proc, *peer, *var);
                    self.post(false, "remove_addr");
                }
                Step::Cleanup { proc } => {
                    self.op_cleanup(*proc);
                    self.post(false, "perform_cleanup");
                }
                Step::Flush { proc, cleanup, detach } => self.start_flight(*proc, Kind::Flush { cleanup: *cleanup }, *detach),
                Step::Write { proc } => self.start_flight(*proc, Kind::Write, false),
                Step::Run { sel } => self.op_run(*sel),
                Step::Settle => self.op_settle(),
                Step::Craft { entries } => self.op_craft(entries),
                Step::Restart { proc } => self.op_restart(*proc),
                Step::Corrupt { how, arg } => self.op_corrupt(*how, *arg),
                Step::Foreign { entries } => self.op_foreign(entries),
                Step::Crash { sel } => self.op_crash(*sel),
            }
        }
        if !self.stop {
            // whatever is still parked completes in FIFO order
            self.op_settle();
        }
        if !self.stop && self.corrupt_pending_flush {
            self.rep.probe("run_ended_with_corrupted_file_in_place");
        }
        if !self.stop && self.plan.mode == "fault" && self.plan.ukey % 3 == 0 {
            self.epilogue_failed_flush();
        }
        if !self.stop && self.flights.is_empty() {
            self.epilogue_load_during_replacement();
        }
        let fin = self.last_bytes.as_ref().and_then(|b| parse_file(b));
        let text = match (&self.last_bytes, &fin) {
            (None, _) => "no file".to_string(),
            (Some(_), None) => "unreadable file".to_string(),
            (_, Some(s)) => self.render(s),
        };
        self.rep.log(format!("final file: {text}"));
        self.rep.state.write_str(&text);
        for p in 0..self.n_procs() {
            if let Some(m) = self.mem_snap(p) {
                self.rep.state.write_str(&self.render(&m));
            }
        }
    }
}
