//! sim `store`: one real SwarmDriver + NodeRecordStore on real files; the simulator is the event loop,
//! the task scheduler, the disk-fault injector and the crash/restart controller.
//! Serves C01 (read-your-validated-writes under any cross-key task order), C02 (crash consistency,
//! every crash point x every torn prefix) and C10 (capacity / eviction / cleanup / quoting metrics).

mod model;
mod world;

use serde::{Deserialize, Serialize};
use simkit::{GenCtx, PropertySpec, Rng, RunReport, Sim, Tier};

#[derive(Serialize, Deserialize, Clone, Debug, PartialEq)]
#[serde(tag = "t")]
pub enum Step {
    /// PutLocalRecord of value number `val` for key `key` (handled by the real driver handler).
    Put { key: usize, val: u32 },
    /// RecordStore::remove on the real store.
    Remove { key: usize },
    Get { key: usize },
    Has { key: usize },
    List,
    /// Open the `sel`-th eligible parked background task (u32::MAX = the last one).
    Run { sel: u32 },
    /// Run every parked task in FIFO order, then check the store against the sequential model.
    Settle,
    /// The next disk write for `key` fails (a directory occupies the file path).
    DiskErr { key: usize },
    /// Set the responsible range to the distance of the key of rank `rank` (+1 if `above`).
    SetRange { rank: usize, above: bool },
    Cleanup,
    Payment,
    Metrics,
    /// Crash now: parked tasks never run; optionally one in-flight write is torn. Restart from disk.
    Crash { torn: Option<(u32, u32, bool)> },
    /// Settle, then restart cleanly.
    Restart,
    /// Overwrite the stored file of `key` with a corrupted variant, then crash + restart.
    CorruptAndRestart { key: usize, how: u32 },
    /// The driver stalls: from now until the next Settle / crash it handles no local command, so completion
    /// notifications pile up in its (possibly very small, see `Plan::chan`) command channel.
    Stall,
    /// Settle, then restart the node for another network (`id` is the new network id; same id = a clean restart).
    /// The node wipes its records when the network changes (nothing is required of that restart); from then on the
    /// node runs on the new network and every later restart has to keep what was completed since.
    RestartOnNetwork { id: u8 },
}

#[derive(Serialize, Deserialize, Clone, Debug)]
pub struct Plan {
    pub property: String,
    pub mode: String,
    pub node_key: u64,
    pub n_keys: usize,
    pub capacity: usize,
    pub cache: usize,
    /// 0 = no crash probes, n = probe n sampled torn prefixes per write, u32::MAX = every prefix
    pub probe_prefixes: u32,
    /// pre-populate the store with this many filler records (cleanup threshold runs)
    pub filler: usize,
    /// swarm knob: capacity of the driver's local-command channel (0 = the shipped 10 000)
    #[serde(default)]
    pub chan: usize,
    /// boundary knob: the values of this key are 1..15 bytes below the maximum record size (5 MiB); in C01 huge
    /// and ordinary values of the key alternate
    #[serde(default)]
    pub huge_key: Option<usize>,
    /// network id the node starts on (0 = 1, the default network)
    #[serde(default)]
    pub net0: u8,
    pub steps: Vec<Step>,
}

pub struct StoreSim;

fn gen_steps(rng: &mut Rng, ctx: &GenCtx, n_keys: usize, n_steps: usize, plan_kind: &str, with_cleanup: bool) -> Vec<Step> {
    // swarm style: draw the weights of this run first
    let fault = ctx.mode == "fault";
    let w_put = rng.range(15, 40);
    let w_remove = if rng.chance(3, 4) { rng.range(2, 12) } else { 0 };
    let w_get = rng.range(5, 30);
    let w_has = rng.range(0, 6);
    let w_list = rng.range(0, 4);
    let w_run = rng.range(10, 45);
    let w_settle = rng.range(1, 6);
    let w_diskerr = if fault && plan_kind != "C10" { rng.range(1, 5) } else { 0 };
    let (w_range, w_cleanup, w_pay, w_metrics) = if plan_kind == "C10" {
        (rng.range(1, 5), rng.range(0, 3), rng.range(1, 6), rng.range(2, 8))
    } else if with_cleanup {
        // C01 over a store big enough for the periodic clean-up to apply: a cleaned-up key is a removed key
        (rng.range(3, 8), rng.range(3, 8), 0, 0)
    } else {
        (0, 0, 0, 0)
    };
    let w_crash = if plan_kind == "C02" { rng.range(1, 4) } else { 0 };
    let w_restart = if plan_kind == "C02" || plan_kind == "C10" { rng.range(0, 2) } else { 0 };
    let w_corrupt = if plan_kind == "C02" { rng.range(0, 3) } else { 0 };
    let w_stall = if plan_kind == "C01" && rng.chance(1, 2) { rng.range(1, 4) } else { 0 };
    let sched = rng.below(4); // 0 fifo, 1 random, 2 reverse, 3 starve-one-key (random, but never key 0's tasks first)
    let weights = [
        w_put, w_remove, w_get, w_has, w_list, w_run, w_settle, w_diskerr, w_range, w_cleanup,
        w_pay, w_metrics, w_crash, w_restart, w_corrupt, w_stall,
    ];
    // half of the capacity runs acknowledge every write before the next operation (no bursts)
    let no_bursts = plan_kind == "C10" && rng.chance(1, 2);
    let mut next_val = 0u32;
    let mut used: Vec<(usize, u32)> = vec![];
    let mut steps = Vec::with_capacity(n_steps + n_keys + 2);
    for _ in 0..n_steps {
        let key = rng.usize_below(n_keys);
        let s = match rng.weighted(&weights) {
            0 => {
                // mostly a fresh value; sometimes an earlier value of this key is put again
                // (same bytes as an older version: exercises "is this already stored" short cuts)
                let earlier: Vec<u32> = used.iter().filter(|(k, _)| *k == key).map(|(_, v)| *v).collect();
                if !earlier.is_empty() && rng.chance(1, 5) {
                    Step::Put { key, val: *rng.pick(&earlier) }
                } else {
                    next_val += 1;
                    used.push((key, next_val));
                    Step::Put { key, val: next_val }
                }
            }
            1 => Step::Remove { key },
            2 => Step::Get { key },
            3 => Step::Has { key },
            4 => Step::List,
            5 => Step::Run {
                sel: match sched {
                    0 => 0,
                    2 => u32::MAX,
                    _ => rng.below(1 << 16) as u32,
                },
            },
            6 => Step::Settle,
            7 => Step::DiskErr { key },
            8 => Step::SetRange {
                rank: rng.usize_below(n_keys),
                above: rng.chance(1, 2),
            },
            9 => Step::Cleanup,
            10 => Step::Payment,
            11 => Step::Metrics,
            12 => Step::Crash {
                torn: if rng.chance(1, 2) {
                    Some((rng.below(8) as u32, rng.below(1001) as u32, rng.chance(1, 3)))
                } else {
                    None
                },
            },
            13 => Step::Restart,
            14 => Step::CorruptAndRestart {
                key,
                how: rng.below(1 << 16) as u32,
            },
            _ => Step::Stall,
        };
        let was_put = matches!(s, Step::Put { .. });
        steps.push(s);
        if was_put && no_bursts {
            for _ in 0..4 {
                steps.push(Step::Run { sel: 0 });
            }
        }
    }
    steps.push(Step::Settle);
    for key in 0..n_keys {
        steps.push(Step::Get { key });
    }
    steps.push(Step::List);
    if plan_kind == "C10" {
        steps.push(Step::Metrics);
    }
    steps
}

impl Sim for StoreSim {
    type Plan = Plan;
    const NAME: &'static str = "store";

    fn properties() -> Vec<PropertySpec> {
        vec![
            PropertySpec {
                id: "C01",
                level: "exploration",
                modes: vec!["nofault", "fault"],
                quick_runs: 12_000,
                thorough_runs: 600_000,
                rule: "One run = one seeded plan of puts/overwrites/removes/reads over <=6 keys of all four storable kinds on a real SwarmDriver+NodeRecordStore, with the simulator deciding which parked background task (file write, file delete, completion notification) runs next; same-key tasks stay in issue order. Non-trivial = >=3 operations and (>=1 non-FIFO scheduling decision or >=1 injected fault); distinct = distinct fingerprint of the executed sequence of scheduling decisions and faults.",
                assumptions: vec![
                    "a gated task body is atomic with respect to other gated bodies (single-threaded runtime); same-file overlap is out of scope of C01",
                    "the simulator replaces SwarmDriver::run as event loop and calls the real handle_local_cmd",
                    "tmpfs implements POSIX file semantics",
                    "getrandom is the only entropy source (checked by the determinism selftest)",
                ],
            },
            PropertySpec {
                id: "C02",
                level: "fault_enumeration",
                modes: vec!["crash"],
                quick_runs: 3_000,
                thorough_runs: 40_000,
                rule: "One run = one seeded history as in C01; after EVERY executed background task the on-disk state is copied and a fresh NodeRecordStore is opened on the copy (crash point probe); for every executed file write the torn states (byte prefixes of the new file content, with and without zero-filled tail; all prefixes in the thorough tier, a sample in quick) and bit-flip/truncation corruptions of completed files are probed the same way; sampled Crash steps additionally restart the full driver in the main timeline. Non-trivial/distinct as in C01.",
                assumptions: vec![
                    "crash = the node process stops; the OS survives, so a completed fs::write is durable (no power-loss model)",
                    "a torn write leaves a byte prefix of the new content, optionally followed by zeros",
                    "crash-point probes open NodeRecordStore::with_config on a copy of the directory; sampled Crash steps rebuild the whole driver through the guarded constructor",
                ],
            },
            PropertySpec {
                id: "C10",
                level: "exploration",
                modes: vec!["small", "small", "small", "small", "small", "small", "small", "threshold"],
                quick_runs: 8_000,
                thorough_runs: 300_000,
                rule: "One run = one seeded plan of puts (bursts with withheld notifications), removes, range settings, clean-ups, payments, metric reads and restarts against a real store with capacity 2..8 (mode small) or with ~1638 pre-loaded records (mode threshold); admission, eviction, cleanup and quoting metrics are compared step by step with an independent model that recomputes XOR distances itself. Non-trivial/distinct as in C01.",
                assumptions: vec![
                    "distances are recomputed by the harness as sha256(a) xor sha256(b), independent of NetworkAddress::distance",
                    "records_cache_size is never configured as 0 (RecordCache::free_up_space would not terminate)",
                ],
            },
        ]
    }

    fn generate(rng: &mut Rng, ctx: &GenCtx) -> Plan {
        let kind = ctx.property.as_str();
        let n_keys = match kind {
            "C10" => rng.urange(3, 12),
            _ => rng.urange(1, 6),
        };
        let n_steps = match (kind, ctx.tier) {
            ("C02", _) => rng.urange(4, 30),
            (_, Tier::Quick) => rng.urange(5, 60),
            (_, Tier::Thorough) => rng.urange(5, 90),
        };
        let cache = if rng.chance(1, 6) { 25 } else { rng.urange(1, 4) };
        let (capacity, filler) = match (kind, ctx.mode.as_str()) {
            ("C10", "threshold") => (*rng.pick(&[1700usize, 1638, 1640, 3000]), rng.urange(1630, 1640)),
            ("C10", _) => (rng.urange(2, 8), 0),
            // C01: one run in eighty holds enough records for the periodic clean-up to apply (ranges and clean-ups are
            // part of those plans: a cleaned-up key is a removed key)
            ("C01", _) if rng.chance(1, 80) => (3000, rng.urange(1634, 1640)),
            ("C02", _) if rng.chance(1, 80) => (3000, rng.urange(1638, 1642)),
            // C02: in a fifth of the runs the store can hold exactly as many records as the plan has keys, so a
            // restart can find it filled to capacity
            ("C02", _) if rng.chance(1, 5) => (n_keys, 0),
            // C01 / C02: in an eighth of the runs the store is one or two records too small for the plan's keys, so
            // puts prune (a pruned key is a removed key: not readable, not listed, and it stays removed over a restart)
            ("C01", _) | ("C02", _) if n_keys >= 2 && rng.chance(1, 8) => ((n_keys - 1 - rng.usize_below(2).min(n_keys - 2)).max(1), 0),
            _ => (16 * 1024, 0),
        };
        let probe_prefixes = match (kind, ctx.tier) {
            ("C02", Tier::Quick) => 6,
            ("C02", Tier::Thorough) => u32::MAX,
            _ => 0,
        };
        // the clean-up threshold runs of C02 restart the full driver (Restart / Crash steps); copying 1600 files after
        // every background task for the inner crash probes would take seconds per run
        let probe_prefixes = if kind == "C02" && filler > 0 { 0 } else { probe_prefixes };
        let mut steps = gen_steps(rng, ctx, n_keys, n_steps, kind, (kind == "C01" || kind == "C02") && filler > 0);
        if kind == "C02" && filler > 0 {
            // keys put once more (so that they are held), a range through the middle of the plan's keys, the clean-up,
            // then a clean restart: what the clean-up removed stays removed
            for key in 0..n_keys {
                steps.push(Step::Put { key, val: 7000 + key as u32 });
            }
            steps.push(Step::Settle);
            steps.push(Step::SetRange { rank: n_keys / 2, above: false });
            steps.push(Step::Cleanup);
            steps.push(Step::Restart);
            for key in 0..n_keys {
                steps.push(Step::Get { key });
            }
        }
        // C02, a tenth of the runs: the node is moved between networks (ids of one, two or three digits)
        let mut net0 = 0u8;
        if kind == "C02" && rng.chance(1, 10) {
            let pick_id = |rng: &mut Rng| -> u8 {
                match rng.below(3) {
                    0 => rng.range(2, 9) as u8,
                    1 => rng.range(10, 99) as u8,
                    _ => rng.range(100, 255) as u8,
                }
            };
            net0 = pick_id(rng);
            for _ in 0..rng.urange(1, 2) {
                let at = rng.usize_below(steps.len().max(1));
                steps.insert(at, Step::RestartOnNetwork { id: pick_id(rng) });
                // work on the new network, then an ordinary restart there
                let mut v = 9000 + at as u32;
                for j in 0..rng.urange(1, 3) {
                    v += 1;
                    steps.insert((at + 1 + j).min(steps.len()), Step::Put { key: rng.usize_below(n_keys), val: v });
                }
                let later = (at + 2 + rng.usize_below(6)).min(steps.len());
                steps.insert(later, Step::Restart);
            }
        }
        Plan {
            property: ctx.property.clone(),
            mode: ctx.mode.clone(),
            node_key: rng.next_u64(),
            n_keys,
            capacity,
            cache,
            probe_prefixes,
            filler,
            chan: if kind == "C01" && rng.chance(1, 3) { rng.urange(1, 4) } else { 0 },
            huge_key: if (kind == "C02" || kind == "C01") && rng.chance(1, 40) { Some(rng.usize_below(n_keys)) } else { None },
            net0,
            steps,
        }
    }

    fn execute(plan: &Plan, entropy: u64) -> RunReport {
        world::execute(plan, entropy)
    }

    fn shrink(plan: &Plan) -> Vec<Plan> {
        let mut out = vec![];
        for steps in simkit::shrink::remove_chunks(&plan.steps) {
            let mut p = plan.clone();
            p.steps = steps;
            out.push(p);
        }
        if plan.filler > 0 {
            // keep filler: the threshold needs it
        }
        for steps in simkit::shrink::simplify_each(&plan.steps, |s| match s {
            Step::Run { sel } if *sel != 0 => vec![Step::Run { sel: 0 }],
            Step::Crash { torn: Some(_) } => vec![Step::Crash { torn: None }],
            _ => vec![],
        }) {
            let mut p = plan.clone();
            p.steps = steps;
            out.push(p);
        }
        if plan.cache != 1 {
            let mut p = plan.clone();
            p.cache = 1;
            out.push(p);
        }
        out
    }

    fn components() -> Vec<(&'static str, &'static str)> {
        vec![
            ("NodeRecordStore (index, distance index, cache, AES-GCM-SIV record files, startup scan, pruning, cleanup, quoting metrics)", "real, on real files in a per-run tmpfs directory"),
            ("SwarmDriver::handle_local_cmd (PutLocalRecord, AddLocalRecordAsStored, RemoveFailedLocalRecord, GetLocalRecord, RecordStoreHasKey, GetAllLocalRecordAddresses, PaymentReceived, TriggerIrrelevantRecordCleanup, GetLocalQuotingMetrics)", "real"),
            ("ReplicationFetcher (notified by PutLocalRecord)", "real"),
            ("SwarmDriver::run event loop, tokio multi-thread scheduler", "stub: the simulator is the event loop and decides task order through gates"),
            ("libp2p swarm / transports / kad query engine", "stub: constructed, never polled"),
            ("disk", "real tmpfs files; faults (EISDIR write error, torn prefix, zero tail, bit flip, truncation, crash) applied by the simulator"),
        ]
    }
}

fn main() {
    simkit::check::main::<StoreSim>();
}
