//! Executor of the `store` sim.

use crate::model::*;
use crate::{Plan, Step};
use ant_evm::U256;
use ant_networking::verif::{self as hooks, GateInfo, LocalSwarmCmd, NodeRecordStoreConfig};
use ant_networking::{Network, NetworkBuilder, NetworkEvent, NodeRecordStore, SwarmDriver};
use ant_protocol::storage::{try_serialize_record, RecordKind, RecordType};
use ant_protocol::NetworkAddress;
use libp2p::identity::Keypair;
use libp2p::kad::store::RecordStore;
use libp2p::kad::{Record, RecordKey};
use simkit::rt::settle;
use simkit::RunReport;
use std::collections::{BTreeSet, HashMap};
use std::path::{Path, PathBuf};
use std::sync::atomic::{AtomicU64, Ordering};
use tokio::sync::{mpsc, oneshot};
use xor_name::XorName;

static NET_LOCK: std::sync::RwLock<()> = std::sync::RwLock::new(());
static RUN_COUNTER: AtomicU64 = AtomicU64::new(0);

struct RunDir(PathBuf);
impl Drop for RunDir {
    fn drop(&mut self) {
        let _ = std::fs::remove_dir_all(&self.0);
    }
}

#[derive(Clone, Copy, Debug, PartialEq, Eq)]
enum Owner {
    Key(usize),
    Metrics,
    Other,
}

/// Source locations of the record store's spawn calls whose task parks at a gate of its own (file write, file
/// delete): learned once per process by a calibration run on a thread of its own. A task spawned anywhere else
/// carries no gate; with `set_gate_spawns` it parks at the generic gate and the simulator schedules it like any
/// other background task (it may run late, out of order, or never - crash).
static KNOWN_SPAWNS: std::sync::OnceLock<BTreeSet<String>> = std::sync::OnceLock::new();

fn known_spawns() -> &'static BTreeSet<String> {
    KNOWN_SPAWNS.get_or_init(|| {
        match simkit::rt::on_fresh_thread(0xCA11B, || simkit::rt::block_on(0xCA11B, calibrate_spawns())) {
            simkit::rt::ThreadOutcome::Done(s) => s,
            simkit::rt::ThreadOutcome::Panicked(m) => panic!("spawn calibration failed: {m}"),
        }
    })
}

async fn calibrate_spawns() -> BTreeSet<String> {
    let root = PathBuf::from(format!("/dev/shm/antsim/{}/store-calibration", std::process::id()));
    let _ = std::fs::remove_dir_all(&root);
    std::fs::create_dir_all(&root).expect("calibration dir");
    hooks::gates_install();
    hooks::set_gate_spawns(true);
    let mut b = NetworkBuilder::new(Keypair::generate_ed25519(), true);
    b.listen_addr("127.0.0.1:0".parse().unwrap());
    let (_network, _events, mut driver) = b.verif_build_node(root.clone(), None, None).expect("verif_build_node");
    let key = RecordKey::new(&vec![0x5au8; 32]);
    let value = try_serialize_record(&vec![0x42u8; 96 * 1024], RecordKind::Chunk).expect("serialize").to_vec();
    let record = Record { key: key.clone(), value, publisher: None, expires: None };
    let mut known = BTreeSet::new();
    async fn pass(known: &mut BTreeSet<String>, site: &str) {
        for g in hooks::gates_pending() {
            if g.site == "spawn" {
                hooks::gate_open(g.id);
                settle().await;
                if hooks::gates_pending().iter().any(|x| x.site == site) {
                    known.insert(g.detail.clone());
                }
            }
        }
    }
    let _ = driver.verif_handle_local_cmd(LocalSwarmCmd::PutLocalRecord { record });
    settle().await;
    pass(&mut known, "store.write").await;
    for _ in 0..8 {
        for g in hooks::gates_pending() {
            hooks::gate_open(g.id);
        }
        settle().await;
        while let Some(cmd) = driver.verif_try_recv_local_cmd() {
            let _ = driver.verif_handle_local_cmd(cmd);
        }
    }
    driver.verif_store_mut().remove(&key);
    settle().await;
    pass(&mut known, "store.delete").await;
    for g in hooks::gates_pending() {
        hooks::gate_open(g.id);
    }
    settle().await;
    hooks::set_gate_spawns(false);
    hooks::gates_uninstall();
    drop(driver);
    let _ = std::fs::remove_dir_all(&root);
    // (an implementation that spawns no task for a write or a delete simply has fewer known sites)
    known
}

struct Live {
    driver: SwarmDriver,
    #[allow(dead_code)]
    network: Network,
    events: mpsc::Receiver<NetworkEvent>,
}

struct World<'a> {
    in_torn_startup: bool,
    resync_after_restart: bool,
    /// network id the node currently runs on
    net_id: u8,
    huge_cache: std::cell::RefCell<std::collections::HashMap<(usize, u32), Vec<u8>>>,
    /// the driver handles no local command at the moment (Step::Stall)
    stalled: bool,
    plan: &'a Plan,
    rep: RunReport,
    root: PathBuf,
    keypair: Keypair,
    peer_bytes: Vec<u8>,
    live: Option<Live>,
    keys: Vec<KeyModel>,
    rkeys: Vec<RecordKey>,
    hex_to_idx: HashMap<String, usize>,
    gate_owner: HashMap<u64, Owner>,
    /// payment count captured by each parked metrics flush
    flush_counts: HashMap<u64, u64>,
    /// model: key is in the store's index
    indexed: Vec<bool>,
    /// accepted puts not yet acknowledged by AddLocalRecordAsStored / RemoveFailedLocalRecord
    unacked: Vec<u32>,
    range: Option<D256>,
    payments: u64,
    persisted_payments: u64,
    flushes_ran: u64,
    flush_reordered: bool,
    start_time: Option<std::time::SystemTime>,
    dists: Vec<D256>,
    prop: String,
    /// puts admitted without eviction although indexed + unacknowledged writes had reached capacity
    burst_admissions: u64,
    /// value written by each parked write task (lets same-key tasks run in any order in the crash sim)
    gate_val: HashMap<u64, u32>,
    /// delete tasks spawned by a put of the very key being written although nothing had to be evicted
    spurious_deletes: BTreeSet<u64>,
}

fn record_kind(kind: usize) -> RecordKind {
    match kind {
        0 => RecordKind::Chunk,
        1 => RecordKind::Scratchpad,
        2 => RecordKind::Transaction,
        _ => RecordKind::Register,
    }
}

fn d256_to_u256(d: &D256) -> U256 {
    U256::from_be_bytes(*d)
}

fn plus_one(d: &D256) -> D256 {
    let mut out = *d;
    for i in (0..32).rev() {
        if out[i] == 0xff {
            out[i] = 0;
        } else {
            out[i] += 1;
            break;
        }
    }
    out
}

pub fn execute(plan: &Plan, entropy: u64) -> RunReport {
    simkit::rt::block_on(entropy, async move {
        let mut w = World::new(plan);
        w.run().await;
        hooks::gates_uninstall();
        w.rep
    })
}

impl<'a> World<'a> {
    fn new(plan: &'a Plan) -> Self {
        let n = RUN_COUNTER.fetch_add(1, Ordering::SeqCst);
        let root = PathBuf::from(format!("/dev/shm/antsim/{}/store-{n}", std::process::id()));
        let mut kb = [0u8; 32];
        kb[..8].copy_from_slice(&plan.node_key.to_le_bytes());
        kb[8] = 1;
        let keypair = Keypair::ed25519_from_bytes(kb).expect("keypair");
        let peer_bytes = keypair.public().to_peer_id().to_bytes();
        let total = plan.n_keys + plan.filler;
        let keys: Vec<KeyModel> = (0..total).map(|i| KeyModel::new(plan.node_key, i)).collect();
        let rkeys: Vec<RecordKey> = keys.iter().map(|k| RecordKey::new(&k.bytes)).collect();
        let hex_to_idx = keys
            .iter()
            .enumerate()
            .map(|(i, k)| (hex::encode(&k.bytes), i))
            .collect();
        let dists = keys.iter().map(|k| xor_distance(&peer_bytes, &k.bytes)).collect();
        World {
            in_torn_startup: false,
            resync_after_restart: false,
            net_id: if plan.net0 == 0 { 1 } else { plan.net0 },
            huge_cache: Default::default(),
            stalled: false,
            plan,
            rep: RunReport::default(),
            root,
            keypair,
            peer_bytes,
            live: None,
            keys,
            rkeys,
            hex_to_idx,
            gate_owner: HashMap::new(),
            flush_counts: HashMap::new(),
            indexed: vec![false; total],
            unacked: vec![0; total],
            range: None,
            payments: 0,
            persisted_payments: 0,
            flushes_ran: 0,
            flush_reordered: false,
            start_time: None,
            dists,
            prop: plan.property.clone(),
            burst_admissions: 0,
            gate_val: HashMap::new(),
            spurious_deletes: BTreeSet::new(),
        }
    }

    fn store_dir(&self) -> PathBuf {
        self.root.join("record_store")
    }

    fn value_bytes(&self, key: usize, val: u32) -> Vec<u8> {
        let mut p = payload(self.plan.node_key, key, val);
        // C02: every value of the key is huge; elsewhere huge and ordinary values of the key alternate
        if self.plan.huge_key == Some(key) && (self.prop == "C02" || val % 2 == 0) {
            if let Some(v) = self.huge_cache.borrow().get(&(key, val)) {
                return v.clone();
            }
            // a record value 1..15 bytes below the size limit: accepted by the store, its encrypted file is
            // longer than the limit
            let want = ant_networking::MAX_PACKET_SIZE - 1 - (val as usize % 15);
            let overhead = try_serialize_record(&p, record_kind(self.keys[key].kind)).expect("serialize").len() - p.len();
            let mut fill = p.len();
            while p.len() + overhead + 8 < want {
                let b = p[fill % 12 + (fill / 12) % 4];
                // Vec<u8> is serialised as a msgpack array: one byte per element below 0x80
                p.push(b.wrapping_add(fill as u8) & 0x7f);
                fill += 1;
            }
            loop {
                let v = try_serialize_record(&p, record_kind(self.keys[key].kind)).expect("serialize").to_vec();
                if v.len() == want {
                    self.huge_cache.borrow_mut().insert((key, val), v.clone());
                    return v;
                }
                if v.len() < want {
                    p.push(0x5a);
                } else {
                    p.pop();
                }
            }
        }
        try_serialize_record(&p, record_kind(self.keys[key].kind))
            .expect("serialize")
            .to_vec()
    }

    fn expected_type(&self, key: usize, val: u32) -> RecordType {
        match self.keys[key].kind {
            0 => RecordType::Chunk,
            1 => RecordType::Scratchpad,
            _ => RecordType::NonChunk(XorName::from_content(&self.value_bytes(key, val))),
        }
    }

    /// Every oracle rule belongs to one property, whatever check is running.
    fn viol(&mut self, rule: &str, sig: &[(&str, String)], detail: String) {
        let p = if rule.starts_with("settled.") || rule.starts_with("read.") {
            "C01".to_string()
        } else if rule.starts_with("restart.") {
            "C02".to_string()
        } else if rule.starts_with("index.") {
            if self.prop == "C10" { "C10".to_string() } else { "C01".to_string() }
        } else {
            "C10".to_string()
        };
        self.rep.violate(&p, rule, sig, detail);
    }

    fn build(&mut self) {
        let mut b = NetworkBuilder::new(self.keypair.clone(), true);
        b.listen_addr("127.0.0.1:0".parse().unwrap());
        let _ = known_spawns();
        hooks::set_gate_spawns(true);
        hooks::set_local_cmd_channel_size(if self.plan.chan > 0 { Some(self.plan.chan) } else { None });
        // the network id is a process-wide setting read once by the start-up (version file check): a start-up for
        // another network than the default holds the write side of a process-wide lock while the setting is changed
        let (network, events, driver) = if self.net_id == 1 {
            let _shared = NET_LOCK.read().unwrap_or_else(|e| e.into_inner());
            b.verif_build_node(self.root.clone(), Some(self.plan.capacity), Some(self.plan.cache)).expect("verif_build_node")
        } else {
            let _exclusive = NET_LOCK.write().unwrap_or_else(|e| e.into_inner());
            ant_protocol::version::set_network_id(self.net_id);
            let r = b.verif_build_node(self.root.clone(), Some(self.plan.capacity), Some(self.plan.cache));
            ant_protocol::version::set_network_id(1);
            r.expect("verif_build_node")
        };
        hooks::set_local_cmd_channel_size(None);
        self.live = Some(Live {
            driver,
            network,
            events,
        });
    }

    fn driver(&mut self) -> &mut SwarmDriver {
        &mut self.live.as_mut().expect("live").driver
    }

    fn node_store(&mut self) -> &mut NodeRecordStore {
        self.driver()
            .verif_store_mut()
            .verif_node_store()
            .expect("node store")
    }

    fn sanitize(&self, s: &str) -> String {
        s.replace(self.root.to_str().unwrap_or(""), "<root>")
    }

    /// settle, and let every task spawned at a known site pass the generic gate (it parks at its own gate next)
    async fn settle_s(&mut self) {
        settle().await;
        loop {
            let known = known_spawns();
            let ids: Vec<u64> = hooks::gates_pending().into_iter().filter(|g| g.site == "spawn" && known.contains(&g.detail)).map(|g| g.id).collect();
            if ids.is_empty() {
                break;
            }
            for id in ids {
                hooks::gate_open(id);
            }
            settle().await;
        }
    }

    /// Attribute newly registered gates. `cause`: the key whose operation/task was just executed.
    fn absorb(&mut self, cause: Owner) -> Vec<GateInfo> {
        let mut fresh = vec![];
        for g in hooks::gates_pending() {
            if self.gate_owner.contains_key(&g.id) {
                continue;
            }
            if g.detail.contains("/probe/") {
                hooks::gate_discard(g.id);
                continue;
            }
            let owner = match g.site {
                "store.write" | "store.delete" => {
                    let name = g
                        .detail
                        .trim_end_matches('"')
                        .rsplit('/')
                        .next()
                        .unwrap_or("")
                        .to_string();
                    match self.hex_to_idx.get(&name) {
                        Some(i) => Owner::Key(*i),
                        None => Owner::Other,
                    }
                }
                "spawn" => {
                    // a background task the store spawned somewhere else than at its known sites
                    self.rep.probe("unknown_spawned_task_parked");
                    Owner::Other
                }
                "store.metrics_flush" => {
                    self.flush_counts.insert(g.id, self.payments);
                    Owner::Metrics
                }
                _ => cause,
            };
            self.gate_owner.insert(g.id, owner);
            fresh.push(g);
        }
        fresh
    }

    /// Parked tasks that may run next: per key (and for the metrics file) only the oldest one.
    fn eligible(&self) -> Vec<GateInfo> {
        let mut seen_keys = BTreeSet::new();
        let mut seen_metrics = false;
        let allow_flush_reorder = self.prop == "C10" && self.plan.mode != "threshold";
        let mut out = vec![];
        // C02 quantifies over every subset of background tasks that had run at the crash: same-key tasks
        // may run in any order there (C01 explicitly fixes the order of one key's tasks)
        let any_order = self.prop == "C02";
        for g in hooks::gates_pending() {
            match self.gate_owner.get(&g.id).copied().unwrap_or(Owner::Other) {
                Owner::Key(i) => {
                    if seen_keys.insert(i) || any_order {
                        out.push(g);
                    }
                }
                Owner::Metrics => {
                    if !seen_metrics || allow_flush_reorder {
                        out.push(g);
                    }
                    seen_metrics = true;
                }
                Owner::Other => out.push(g),
            }
        }
        out
    }

    async fn drain(&mut self, cause: Owner) {
        if self.stalled {
            // a stalled driver handles nothing; senders block once its command channel is full
            self.settle_s().await;
            let fresh = self.absorb(cause);
            self.note_store_gates(&fresh);
            return;
        }
        loop {
            let Some(cmd) = self.driver().verif_try_recv_local_cmd() else {
                break;
            };
            let text = format!("{cmd:?}");
            // model the index bookkeeping the command performs
            match &cmd {
                LocalSwarmCmd::AddLocalRecordAsStored { key, .. } => {
                    if let Some(i) = self.rkeys.iter().position(|k| k == key) {
                        self.indexed[i] = true;
                        self.unacked[i] = self.unacked[i].saturating_sub(1);
                    }
                }
                LocalSwarmCmd::RemoveFailedLocalRecord { key } => {
                    if let Some(i) = self.rkeys.iter().position(|k| k == key) {
                        self.keys[i].failed_pending.clear();
                        self.indexed[i] = false;
                        self.unacked[i] = self.unacked[i].saturating_sub(1);
                        if !self.keys[i].pending_writes.is_empty() || self.unacked[i] > 0 {
                            // the clean-up of an older failed write removes k while a newer write is in flight
                            self.keys[i].race = Some("remove_while_write_in_flight");
                            self.rep.probe("failed_write_cleanup_while_newer_write_in_flight");
                        }
                    }
                }
                _ => {}
            }
            let acked: Option<usize> = match &cmd {
                LocalSwarmCmd::AddLocalRecordAsStored { key, .. } => self.rkeys.iter().position(|k| k == key),
                _ => None,
            };
            let res = self.driver().verif_handle_local_cmd(cmd);
            self.rep
                .log(format!("  handled {} -> {}", text, if res.is_ok() { "ok" } else { "err" }));
            self.settle_s().await;
            let fresh = self.absorb(cause);
            if let Some(i) = acked {
                // the acknowledgement of a completed write schedules the unlinking of that key's file although the last
                // foreground operation on the key is an accepted put (nobody asked for the key to go, and it is not in
                // the race of a remove with a write in flight): the durable model is not updated by that task
                for g in &fresh {
                    if g.site == "store.delete" && self.gate_owner.get(&g.id) == Some(&Owner::Key(i)) && matches!(self.keys[i].expect, Expect::Value(_)) && self.keys[i].race.is_none() {
                        self.spurious_deletes.insert(g.id);
                        self.rep.probe("acknowledgement_scheduled_delete_of_a_wanted_file");
                    }
                }
            }
            self.note_store_gates(&fresh);
        }
        while let Some(cmd) = self.driver().verif_try_recv_network_cmd() {
            self.rep.log(format!("  network cmd ignored: {cmd:?}"));
        }
        loop {
            let ev = match self.live.as_mut().unwrap().events.try_recv() {
                Ok(ev) => ev,
                Err(_) => break,
            };
            if matches!(ev, NetworkEvent::TerminateNode { .. }) {
                self.rep.probe("terminate_node_event");
            }
            self.rep.log(format!("  event {ev:?}"));
        }
    }

    /// Update per-key pending counters for freshly registered write/delete gates.
    fn note_store_gates(&mut self, fresh: &[GateInfo]) {
        for g in fresh {
            if let Some(Owner::Key(i)) = self.gate_owner.get(&g.id).copied() {
                if g.site == "store.delete" {
                    self.keys[i].pending_deletes += 1;
                }
            }
        }
    }

    async fn open_gate(&mut self, g: &GateInfo) {
        let owner = self.gate_owner.get(&g.id).copied().unwrap_or(Owner::Other);
        self.rep.sched.write_str(g.site);
        if let Owner::Key(i) = owner {
            self.rep.sched.write_u64(i as u64);
        }
        self.rep
            .log(format!("run {} {:?} {}", g.site, owner, self.sanitize(&g.detail)));
        let opened = hooks::gate_open(g.id);
        if !opened {
            self.rep.harness_error = Some(format!("gate {} vanished", g.id));
            return;
        }
        self.settle_s().await;
        let mut torn_target: Option<(usize, u32)> = None;
        match (g.site, owner) {
            ("store.write", Owner::Key(i)) => {
                let val = match self.gate_val.remove(&g.id) {
                    Some(v) => {
                        if let Some(pos) = self.keys[i].pending_writes.iter().position(|x| *x == v) {
                            self.keys[i].pending_writes.remove(pos);
                        }
                        Some(v)
                    }
                    None => self.keys[i].pending_writes.pop_front(),
                };
                match val {
                    Some(v) => {
                        if self.keys[i].file == FileState::Blocked {
                            self.rep.fault("disk_write_error");
                            self.keys[i].failed_pending.push(v);
                            // the failed write is lost; a newer accepted put is not affected by the model
                            if self.keys[i].expect == Expect::Value(v) {
                                self.keys[i].expect = Expect::Absent;
                            }
                        } else {
                            self.keys[i].file = FileState::Complete(v);
                            torn_target = Some((i, v));
                        }
                    }
                    None => {
                        self.rep.harness_error =
                            Some(format!("write gate for key {i} without a modelled pending write"));
                    }
                }
            }
            ("store.delete", Owner::Key(i)) if self.spurious_deletes.remove(&g.id) => {
                // nobody asked for this key to be removed: the durable model is NOT updated, so a
                // completed write that this stale task unlinked shows up at the next crash probe
                self.keys[i].pending_deletes = self.keys[i].pending_deletes.saturating_sub(1);
                self.rep.probe("unrequested_delete_task_ran");
            }
            ("store.delete", Owner::Key(i)) => {
                self.keys[i].pending_deletes = self.keys[i].pending_deletes.saturating_sub(1);
                if self.keys[i].file == FileState::Blocked {
                    // the injected error was transient: clear it now that the failed write was cleaned up
                    let p = self.store_dir().join(hex::encode(&self.keys[i].bytes));
                    let _ = std::fs::remove_dir(&p);
                    self.keys[i].disk_err_armed = false;
                }
                self.keys[i].file = FileState::Absent;
            }
            ("store.metrics_flush", _) => {
                let c = self.flush_counts.remove(&g.id).unwrap_or(0);
                if c < self.persisted_payments {
                    self.flush_reordered = true;
                    self.rep.fault("metrics_flush_reordered");
                }
                self.persisted_payments = c;
                self.flushes_ran += 1;
            }
            _ => {}
        }
        let fresh = self.absorb(owner);
        self.note_store_gates(&fresh);
        self.drain(owner).await;
        if self.plan.probe_prefixes > 0 {
            self.crash_probes(torn_target);
        }
    }

    async fn settle_all(&mut self) {
        if self.stalled {
            self.stalled = false;
            self.rep.log("driver resumes");
            self.drain(Owner::Other).await;
        }
        for _ in 0..100_000 {
            let e = self.eligible();
            let Some(g) = e.first().cloned() else {
                return;
            };
            self.open_gate(&g).await;
            if self.rep.harness_error.is_some() {
                return;
            }
        }
        self.rep.harness_error = Some("settle_all did not terminate".into());
    }

    fn get(&mut self, key: usize) -> Option<Record> {
        let (tx, mut rx) = oneshot::channel();
        let rk = self.rkeys[key].clone();
        let _ = self
            .driver()
            .verif_handle_local_cmd(LocalSwarmCmd::GetLocalRecord { key: rk, sender: tx });
        rx.try_recv().ok().flatten()
    }

    fn has(&mut self, key: usize) -> bool {
        let (tx, mut rx) = oneshot::channel();
        let rk = self.rkeys[key].clone();
        let _ = self
            .driver()
            .verif_handle_local_cmd(LocalSwarmCmd::RecordStoreHasKey { key: rk, sender: tx });
        rx.try_recv().unwrap_or(false)
    }

    fn list(&mut self) -> HashMap<NetworkAddress, RecordType> {
        let (tx, mut rx) = oneshot::channel();
        let _ = self
            .driver()
            .verif_handle_local_cmd(LocalSwarmCmd::GetAllLocalRecordAddresses { sender: tx });
        rx.try_recv().unwrap_or_default()
    }

    /// S1: whatever a read returns is a value handed in for that very key.
    fn check_read(&mut self, key: usize, got: &Option<Record>, ctx: &str) -> String {
        match got {
            None => "None".into(),
            Some(r) => {
                if r.key != self.rkeys[key] {
                    self.viol(
                        "read.wrong_key",
                        &[("ctx", ctx.into())],
                        format!("get(k{key}) returned a record with another key"),
                    );
                    return "WRONGKEY".into();
                }
                let handed = self.keys[key].handed.clone();
                for v in handed.iter().rev() {
                    if self.value_bytes(key, *v) == r.value {
                        return format!("v{v}");
                    }
                }
                self.viol(
                    "read.bytes_never_written",
                    &[("ctx", ctx.into())],
                    format!(
                        "get(k{key}) returned {} bytes that were never handed to the store for this key",
                        r.value.len()
                    ),
                );
                "GARBAGE".into()
            }
        }
    }

    /// Step-level mirror: index, distance index and farthest describe the model's indexed set.
    fn check_index_mirror(&mut self, ctx: &str) {
        let idx: BTreeSet<Vec<u8>> = self
            .node_store()
            .verif_index()
            .into_iter()
            .map(|(k, _, _)| k.to_vec())
            .collect();
        let dist_idx: BTreeSet<Vec<u8>> = self
            .node_store()
            .verif_distance_index()
            .into_iter()
            .map(|(_, k)| k.to_vec())
            .collect();
        let model: BTreeSet<Vec<u8>> = (0..self.keys.len())
            .filter(|i| self.indexed[*i])
            .map(|i| self.keys[i].bytes.clone())
            .collect();
        // WHEN the index takes up (or drops) a key whose background work is still in flight is the implementation's
        // business (C01/C10 speak about settled state and about capacity): only keys without pending work are compared
        let busy: BTreeSet<Vec<u8>> = (0..self.keys.len())
            .filter(|i| !self.keys[*i].pending_writes.is_empty() || self.unacked[*i] > 0 || self.keys[*i].pending_deletes > 0)
            .map(|i| self.keys[i].bytes.clone())
            .collect();
        // a key whose last put was accepted may be listed before the model saw an acknowledgement (an implementation
        // that writes synchronously has no acknowledgement): the model follows
        for i in 0..self.keys.len() {
            if !self.indexed[i] && idx.contains(&self.keys[i].bytes) && !busy.contains(&self.keys[i].bytes) && matches!(self.keys[i].expect, Expect::Value(_)) {
                self.indexed[i] = true;
                self.rep.probe("accepted_key_listed_without_acknowledgement");
            }
        }
        let model: BTreeSet<Vec<u8>> = (0..self.keys.len())
            .filter(|i| self.indexed[*i])
            .map(|i| self.keys[i].bytes.clone())
            .collect();
        let idx_q: BTreeSet<Vec<u8>> = idx.difference(&busy).cloned().collect();
        let model_q: BTreeSet<Vec<u8>> = model.difference(&busy).cloned().collect();
        if idx_q != model_q {
            let extra = idx_q.difference(&model_q).count();
            let missing = model_q.difference(&idx_q).count();
            self.viol(
                "index.differs_from_model",
                &[("ctx", ctx.into())],
                format!("index has {extra} unexpected and lacks {missing} expected keys"),
            );
        }
        if idx != dist_idx {
            self.viol(
                "index.distance_index_differs",
                &[("ctx", ctx.into())],
                format!("index has {} keys, distance index {}", idx.len(), dist_idx.len()),
            );
        }
        // distance index entries carry the right distance
        let di = self.node_store().verif_distance_index();
        for (d, k) in di {
            if let Some(i) = self.hex_to_idx.get(&hex::encode(k.as_ref())).copied() {
                if d != d256_to_u256(&self.dists[i]) {
                    self.viol(
                        "index.wrong_distance",
                        &[("ctx", ctx.into())],
                        format!("distance index holds a wrong distance for k{i}"),
                    );
                }
            }
        }
        let far = self.node_store().verif_farthest().map(|k| k.to_vec());
        let model_far = (0..self.keys.len())
            .filter(|i| self.indexed[*i])
            .max_by_key(|i| self.dists[*i])
            .map(|i| self.keys[i].bytes.clone());
        if far != model_far && self.prop == "C10" {
            self.viol(
                "farthest.differs_from_model",
                &[("ctx", ctx.into())],
                format!("get_farthest = {:?}, model = {:?}", far.map(hex::encode), model_far.map(hex::encode)),
            );
        }
        // capacity bound
        if self.prop == "C10" {
            let in_flight: u32 = self.unacked.iter().sum();
            let held = self.indexed.iter().filter(|b| **b).count();
            if in_flight == 0 && held <= self.plan.capacity {
                // any excess admitted by earlier bursts has drained
                self.burst_admissions = 0;
            }
            if held > self.plan.capacity + in_flight as usize
                && !self.rep.violations.iter().any(|v| v.rule == "capacity.exceeded")
            {
                let burst = self.burst_admissions > 0;
                // keys removed (pruned) while a write of them was parked and re-listed by the late acknowledgement
                // (the recorded C01 finding): the excess is explained only if it is no larger than their number
                let relisted = (0..self.keys.len())
                    .filter(|i| self.indexed[*i] && self.keys[*i].race == Some("remove_while_write_in_flight") && matches!(self.keys[*i].expect, Expect::Absent))
                    .count();
                let shape = if burst {
                    "after_burst_of_unacknowledged_writes"
                } else if relisted > 0 && held - relisted <= self.plan.capacity + in_flight as usize {
                    "pruned_key_relisted_by_late_write_acknowledgement"
                } else {
                    "other"
                };
                self.viol(
                    "capacity.exceeded",
                    &[("shape", shape.into())],
                    format!("{held} records held > capacity {} + {} writes in flight", self.plan.capacity, in_flight),
                );
            }
        }
    }

    /// S2: at quiescence the store equals the sequential model of the foreground operations.
    fn check_quiescent(&mut self, ctx: &str) {
        if self.prop == "C02" {
            return;
        }
        let listed = self.list();
        let files: BTreeSet<String> = std::fs::read_dir(self.store_dir())
            .map(|rd| {
                rd.filter_map(|e| e.ok())
                    .filter(|e| e.path().is_file())
                    .filter_map(|e| e.file_name().into_string().ok())
                    .collect()
            })
            .unwrap_or_default();
        for key in 0..self.plan.n_keys {
            let got = self.get(key);
            let has = self.has(key);
            let addr = NetworkAddress::from_record_key(&self.rkeys[key]);
            let listed_type = listed.get(&addr).cloned();
            let has_file = files.contains(&hex::encode(&self.keys[key].bytes));
            let shape = self.keys[key].race.unwrap_or("plain");
            match self.keys[key].expect.clone() {
                Expect::Value(v) => {
                    let want = self.value_bytes(key, v);
                    let ok_bytes = got.as_ref().map(|r| r.value == want && r.key == self.rkeys[key]).unwrap_or(false);
                    if !ok_bytes {
                        let what = match &got {
                            None => "nothing".to_string(),
                            Some(r) => format!("{} other bytes", r.value.len()),
                        };
                        self.viol(
                            "settled.write_not_readable",
                            &[("shape", shape.into()), ("ctx", ctx.into())],
                            format!("k{key}: last accepted write v{v} but get returned {what}"),
                        );
                    }
                    if !has || listed_type.is_none() {
                        self.viol(
                            "settled.write_not_listed",
                            &[("shape", shape.into()), ("ctx", ctx.into())],
                            format!("k{key}: last accepted write v{v}, contains={has}, listed={}", listed_type.is_some()),
                        );
                    } else if self.keys[key].kind == 1
                        && listed_type == Some(RecordType::NonChunk(XorName::from_content(&want)))
                    {
                        // after a restart the startup scan re-indexes a scratchpad by content hash;
                        // not constrained by C01/C02/C10 (see C09)
                        self.rep.probe("scratchpad_reindexed_as_nonchunk");
                    } else if listed_type != Some(self.expected_type(key, v)) {
                        self.viol(
                            "settled.wrong_record_type",
                            &[("shape", shape.into()), ("ctx", ctx.into())],
                            format!("k{key}: listed as {listed_type:?}, expected {:?}", self.expected_type(key, v)),
                        );
                    }
                    if !has_file {
                        self.viol(
                            "settled.file_missing",
                            &[("shape", shape.into()), ("ctx", ctx.into())],
                            format!("k{key}: stored but no record file"),
                        );
                    }
                }
                Expect::Absent => {
                    let refused_copy = match (&got, self.keys[key].refused_val) {
                        (Some(r), Some(v)) => r.value == self.value_bytes(key, v),
                        _ => false,
                    };
                    if refused_copy {
                        // the store refused this value (full, farther than everything held) and still serves it from
                        // its read cache: bytes handed in for this key, of a write that was never accepted - not a
                        // removed key coming back (C01 says nothing about refused writes)
                        self.rep.probe("refused_value_served_from_cache_at_quiescence");
                    } else if got.is_some() {
                        self.viol(
                            "settled.removed_key_readable",
                            &[("shape", shape.into()), ("ctx", ctx.into())],
                            format!("k{key} must be absent but get returned a record"),
                        );
                    }
                    if has || listed_type.is_some() {
                        self.viol(
                            "settled.removed_key_listed",
                            &[("shape", shape.into()), ("ctx", ctx.into())],
                            format!("k{key} must be absent but contains={has} listed={}", listed_type.is_some()),
                        );
                    }
                    if has_file {
                        self.viol(
                            "settled.removed_key_file_left",
                            &[("shape", shape.into()), ("ctx", ctx.into())],
                            format!("k{key} must be absent but its record file exists"),
                        );
                    }
                }
            }
        }
        // the state fingerprint
        let mut st: Vec<String> = vec![];
        for key in 0..self.plan.n_keys {
            st.push(format!("{key}:{:?}:{:?}", self.keys[key].expect, self.keys[key].file));
        }
        for s in st {
            self.rep.state.write_str(&s);
        }
    }

    /// Open a fresh record store over a copy of the directory and compare with the durable model.
    /// `variant`: replace the file of one key by the given bytes; that key must then read as `expect`.
    fn probe_once(
        &mut self,
        cfg: &NodeRecordStoreConfig,
        what: &str,
        variant: Option<(usize, FileState)>,
    ) {
        let peer = self.keypair.public().to_peer_id();
        let (ev_tx, _ev_rx) = mpsc::channel(64);
        let (cmd_tx, _cmd_rx) = mpsc::channel(64);
        let store = NodeRecordStore::with_config(peer, cfg.clone(), ev_tx, cmd_tx);
        self.rep.inner_evaluations += 1;
        for key in 0..self.plan.n_keys {
            let file = match &variant {
                Some((k, st)) if *k == key => st.clone(),
                _ => self.keys[key].file.clone(),
            };
            let got = store.get(&self.rkeys[key]).map(|c| c.into_owned());
            let listed = store.verif_contains(&self.rkeys[key]);
            match file {
                FileState::Complete(v) => {
                    let want = self.value_bytes(key, v);
                    let ok = got.as_ref().map(|r| r.value == want && r.key == self.rkeys[key]).unwrap_or(false);
                    if !ok || !listed {
                        self.viol(
                            "restart.completed_write_lost",
                            &[("probe", what.into())],
                            format!("k{key}: file write of v{v} had completed, after restart get={} listed={listed}", if got.is_some() { "other bytes" } else { "None" }),
                        );
                    } else {
                        let t = store
                            .verif_record_addresses()
                            .get(&NetworkAddress::from_record_key(&self.rkeys[key]))
                            .cloned();
                        let want_t = match self.keys[key].kind {
                            0 => RecordType::Chunk,
                            _ => RecordType::NonChunk(XorName::from_content(&want)),
                        };
                        if t != Some(want_t.clone()) {
                            self.viol(
                                "restart.wrong_record_type",
                                &[("probe", what.into())],
                                format!("k{key}: re-indexed as {t:?}, expected {want_t:?}"),
                            );
                        }
                    }
                }
                FileState::Absent | FileState::Blocked | FileState::Garbage => {
                    if let Some(r) = &got {
                        let handed = self.keys[key].handed.clone();
                        let known = handed.iter().any(|v| self.value_bytes(key, *v) == r.value);
                        let rule = if known {
                            "restart.removed_or_unwritten_served"
                        } else {
                            "restart.corrupted_record_served"
                        };
                        self.viol(
                            rule,
                            &[("probe", what.into())],
                            format!("k{key}: durable state {file:?} but restart serves {} bytes (a value ever written: {known})", r.value.len()),
                        );
                    }
                    if listed {
                        self.viol(
                            "restart.absent_key_listed",
                            &[("probe", what.into())],
                            format!("k{key}: durable state {file:?} but restart lists the key"),
                        );
                    }
                }
            }
        }
        drop(store);
        // tasks spawned by the probe store never run
        let _ = self.absorb(Owner::Other);
    }

    /// Crash-point probe of the current on-disk state, plus torn / corrupted variants of one file.
    fn crash_probes(&mut self, torn: Option<(usize, u32)>) {
        let scratch = self.root.join("probe");
        let sdir = scratch.join("record_store");
        let _ = std::fs::remove_dir_all(&scratch);
        if std::fs::create_dir_all(&sdir).is_err() {
            self.rep.harness_error = Some("cannot create probe dir".into());
            return;
        }
        let copy_all = |from: &Path, to: &Path| {
            if let Ok(rd) = std::fs::read_dir(from) {
                for e in rd.filter_map(|e| e.ok()) {
                    if e.path().is_file() {
                        let _ = std::fs::copy(e.path(), to.join(e.file_name()));
                    }
                }
            }
        };
        let mut cfg = self.node_store().verif_config();
        cfg.storage_dir = sdir.clone();
        cfg.historic_quote_dir = scratch.clone();
        copy_all(&self.store_dir(), &sdir);
        self.rep.probe("crash_point_probe");
        self.probe_once(&cfg, "crash_point", None);

        if let Some((key, v)) = torn {
            let name = hex::encode(&self.keys[key].bytes);
            let full = match std::fs::read(self.store_dir().join(&name)) {
                Ok(b) => b,
                Err(_) => return,
            };
            let len = full.len();
            // every-prefix enumeration is for ordinary record sizes; a multi-megabyte file is sampled
            let all = self.plan.probe_prefixes == u32::MAX && len <= 64 * 1024;
            let prefixes: Vec<usize> = if all {
                (0..len).collect()
            } else {
                // deterministic sample: 0, 1, header boundary, middle, len-1 ...
                let mut p = vec![0, 1, 3, len / 2, len.saturating_sub(16), len.saturating_sub(1)];
                p.truncate((self.plan.probe_prefixes as usize).min(6));
                p.retain(|x| *x < len);
                p.sort();
                p.dedup();
                p
            };
            for p in prefixes {
                for zero_tail in [false, true] {
                    let mut content = full[..p].to_vec();
                    if zero_tail {
                        content.resize(len, 0);
                        if content == full {
                            continue;
                        }
                    }
                    // the scan deletes undecryptable files: restore the others each time
                    copy_all(&self.store_dir(), &sdir);
                    if std::fs::write(sdir.join(&name), &content).is_err() {
                        continue;
                    }
                    self.rep.fault(if zero_tail { "torn_write_zero_tail" } else { "torn_write_prefix" });
                    self.probe_once(&cfg, "torn_write", Some((key, FileState::Garbage)));
                }
            }
            // an interrupted write of ANOTHER protocol: next to the completed record file lies a stray temporary file
            // (`<name>.tmp`, `.part`, `~`, `.new`) holding a torn copy of the same content. Whatever a start-up makes of
            // files it does not know, the completed record is served and nothing torn is.
            for (si, suffix) in [".tmp", ".part", "~", ".new"].iter().enumerate() {
                for cut in [len / 2, len.saturating_sub(1)] {
                    if self.plan.probe_prefixes != u32::MAX && (si + cut) % 2 == 1 {
                        continue; // quick tier: half of the combinations
                    }
                    copy_all(&self.store_dir(), &sdir);
                    if std::fs::write(sdir.join(format!("{name}{suffix}")), &full[..cut.min(len)]).is_err() {
                        continue;
                    }
                    self.rep.fault("stray_temporary_file_with_torn_content");
                    self.probe_once(&cfg, "stray_temp_file", None);
                    let _ = std::fs::remove_file(sdir.join(format!("{name}{suffix}")));
                }
            }
            // corruption of the completed file: bit flips
            let positions: Vec<usize> = if all {
                (0..len).collect()
            } else {
                vec![0, len / 3, len.saturating_sub(1)]
            };
            for pos in positions {
                if pos >= len {
                    continue;
                }
                let mut content = full.clone();
                content[pos] ^= 1 << (pos % 8);
                copy_all(&self.store_dir(), &sdir);
                if std::fs::write(sdir.join(&name), &content).is_err() {
                    continue;
                }
                self.rep.fault("bit_flip");
                self.probe_once(&cfg, "bit_flip", Some((key, FileState::Garbage)));
            }
            let _ = v;
        }
        let _ = std::fs::remove_dir_all(&scratch);
    }

    /// Crash: parked tasks never run. Then restart the whole driver from the directory.
    async fn crash_and_restart(&mut self, ctx: &str) {
        self.stalled = false;
        for g in hooks::gates_pending() {
            hooks::gate_discard(g.id);
            self.gate_owner.remove(&g.id);
        }
        self.flush_counts.clear();
        self.gate_val.clear();
        self.spurious_deletes.clear();
        self.live = None;
        for i in 0..self.keys.len() {
            let k = &mut self.keys[i];
            k.pending_writes.clear();
            k.pending_deletes = 0;
            k.race = None;
            k.refused_val = None;
            if k.file == FileState::Blocked {
                let p = self.root.join("record_store").join(hex::encode(&k.bytes));
                let _ = std::fs::remove_dir(&p);
                k.file = FileState::Absent;
                k.disk_err_armed = false;
            }
            k.expect = match k.file {
                FileState::Complete(v) => Expect::Value(v),
                _ => Expect::Absent,
            };
            self.unacked[i] = 0;
            self.indexed[i] = matches!(k.file, FileState::Complete(_));
        }
        self.range = None;
        // a start-up that rewrites a metadata file which already existed can be stopped in the middle of it
        let version_file = self.root.join("network_key_version");
        let stamp_before = std::fs::metadata(&version_file).and_then(|m| m.modified()).ok();
        self.build();
        let stamp_after = std::fs::metadata(&version_file).and_then(|m| m.modified()).ok();
        let startup_rewrote_version_file = stamp_before.is_some() && stamp_after != stamp_before;
        self.settle_s().await;
        let _ = self.absorb(Owner::Other);
        // restart oracle
        let resync = std::mem::take(&mut self.resync_after_restart);
        for key in 0..self.keys.len() {
            if key >= self.plan.n_keys && self.plan.filler > 0 {
                continue;
            }
            let got = self.get(key);
            let has = self.has(key);
            if resync {
                // restart on another network: whatever the node serves now (nothing, after the wipe) is the new
                // durable state; S1 still applies to it
                let _ = self.check_read(key, &got, "network_change");
                let handed = self.keys[key].handed.clone();
                let v = got.as_ref().and_then(|r| handed.iter().rev().find(|v| self.value_bytes(key, **v) == r.value).copied());
                self.keys[key].gone_expected = false;
                self.keys[key].file = match v {
                    Some(v) if has => FileState::Complete(v),
                    _ => FileState::Absent,
                };
                self.keys[key].expect = match self.keys[key].file {
                    FileState::Complete(v) => Expect::Value(v),
                    _ => Expect::Absent,
                };
                self.indexed[key] = matches!(self.keys[key].file, FileState::Complete(_));
                if matches!(self.keys[key].file, FileState::Absent) {
                    // a file the node left behind but does not serve would confuse the durable model: there is none
                    // after a wipe; if there is one, the next restart may serve it
                    if self.store_dir().join(hex::encode(&self.keys[key].bytes)).is_file() {
                        self.rep.probe("file_left_behind_after_network_change");
                        self.keys[key].file = FileState::Garbage;
                    }
                }
                continue;
            }
            if self.keys[key].gone_expected {
                // "completed removals stay removed"
                self.keys[key].gone_expected = false;
                if got.is_some() || has {
                    self.viol(
                        "restart.removed_key_served",
                        &[("probe", ctx.into())],
                        format!("k{key} was removed (no background work of the key was left) but its file stayed on disk and the restarted node serves it again"),
                    );
                }
                self.keys[key].file = FileState::Absent;
                continue;
            }
            match self.keys[key].file.clone() {
                FileState::Complete(v) => {
                    let want = self.value_bytes(key, v);
                    let ok = got.as_ref().map(|r| r.value == want).unwrap_or(false);
                    if !ok || !has {
                        self.viol(
                            "restart.completed_write_lost",
                            &[("probe", ctx.into())],
                            format!("k{key}: v{v} was durably written; after restart get ok={ok} contains={has}"),
                        );
                    }
                }
                st => {
                    if let Some(r) = &got {
                        let handed = self.keys[key].handed.clone();
                        let known = handed.iter().any(|v| self.value_bytes(key, *v) == r.value);
                        self.viol(
                            if known { "restart.removed_or_unwritten_served" } else { "restart.corrupted_record_served" },
                            &[("probe", ctx.into())],
                            format!("k{key}: durable state {st:?} but restart serves {} bytes", r.value.len()),
                        );
                    }
                    if has {
                        self.viol(
                            "restart.absent_key_listed",
                            &[("probe", ctx.into())],
                            format!("k{key}: durable state {st:?} but listed after restart"),
                        );
                    }
                    // the startup scan removes undecryptable files
                    self.keys[key].file = FileState::Absent;
                }
            }
        }
        // payments received (acknowledged when the handler returned) survive any restart
        if self.prop == "C10" {
            let got = self.node_store().verif_received_payment_count() as u64;
            if got != self.payments {
                self.viol(
                    "metrics.payments_lost_over_restart",
                    &[("restart", ctx.into())],
                    format!("{} payments received, {got} restored after restart ({ctx})", self.payments),
                );
            }
            let st = self.node_store().verif_start_time();
            if let Some(t0) = self.start_time {
                if st != t0 {
                    self.viol(
                        "metrics.start_time_not_restored",
                        &[("restart", ctx.into())],
                        "store start time changed over restart".into(),
                    );
                }
            }
            self.payments = got;
        }
        self.check_index_mirror(ctx);
        if startup_rewrote_version_file && !self.in_torn_startup && self.rep.violations.is_empty() {
            // the start-up just performed truncated and rewrote the version file: had the process been stopped
            // (or the disk been full) between the truncation and the write, the file would be empty or a prefix
            self.rep.probe("startup_rewrites_the_version_file");
            let full = std::fs::read(&version_file).unwrap_or_default();
            for cut in [0usize, 1] {
                if cut > full.len() || !self.rep.violations.is_empty() {
                    break;
                }
                self.in_torn_startup = true;
                self.live = None;
                let _ = std::fs::write(&version_file, &full[..cut]);
                self.rep.fault("startup_stopped_while_rewriting_the_version_file");
                self.rep.log(format!("start-up stopped after writing {cut} of {} bytes of the version file; next start-up", full.len()));
                Box::pin(self.crash_and_restart("torn_startup")).await;
                self.in_torn_startup = false;
            }
            // the timeline continues from the version file the complete start-up left (byte for byte), not from what
            // the start-ups after the interrupted ones repaired it to
            if self.rep.violations.is_empty() {
                self.live = None;
                let _ = std::fs::write(&version_file, &full);
                self.in_torn_startup = true;
                Box::pin(self.crash_and_restart("after_torn_startup")).await;
                self.in_torn_startup = false;
            }
        }
    }

    async fn run(&mut self) {
        if std::fs::create_dir_all(&self.root).is_err() {
            self.rep.harness_error = Some(format!("cannot create {:?}", self.root));
            return;
        }
        let _guard = RunDir(self.root.clone());
        hooks::gates_install();
        self.build();
        self.settle_s().await;
        let _ = self.absorb(Owner::Other);
        self.start_time = Some(self.node_store().verif_start_time());
        self.rep.log(format!(
            "store sim: property={} mode={} keys={} capacity={} cache={} filler={}",
            self.plan.property, self.plan.mode, self.plan.n_keys, self.plan.capacity, self.plan.cache, self.plan.filler
        ));

        // pre-load filler records (cleanup-threshold runs)
        for i in self.plan.n_keys..self.keys.len() {
            self.put(i, 1, true).await;
            if i % 64 == 0 {
                self.settle_all().await;
            }
        }
        if self.plan.filler > 0 {
            self.settle_all().await;
            self.rep.log(format!("pre-loaded {} filler records", self.plan.filler));
        }

        let steps = self.plan.steps.clone();
        for (n, step) in steps.iter().enumerate() {
            // stop at the first violation, except for the two recorded finding shapes after which the
            // model stays in step with the store (they are reported once and the run goes on)
            // (a violation of ANOTHER property than the one being checked does not end the run either: what a
            // restart makes of the state is the C02 question, whatever C01 says about the state before it)
            let prop = self.prop.clone();
            let stop = self.rep.violations.iter().any(|v| {
                (v.property == prop || prop != "C02")
                    && !(v.rule == "capacity.exceeded"
                        || v.signature.get("shape").map(|s| s == "remove_while_write_in_flight").unwrap_or(false))
            });
            if self.rep.harness_error.is_some() || stop {
                break;
            }
            self.rep.steps += 1;
            self.step(n, step).await;
            // the mirror check is O(records): with ~1650 pre-loaded records do it on a subset of steps
            let due = self.plan.filler == 0 || n % 6 == 0 || n + 1 == steps.len()
                || matches!(step, Step::Cleanup | Step::Settle | Step::Restart);
            if self.rep.harness_error.is_none() && due {
                self.check_index_mirror("step");
            }
        }
        drop(_guard);
    }

    async fn put(&mut self, key: usize, val: u32, quiet: bool) {
        let value = self.value_bytes(key, val);
        let record = Record {
            key: self.rkeys[key].clone(),
            value,
            publisher: None,
            expires: None,
        };
        self.keys[key].handed.push(val);
        if self.keys[key].pending_writes.is_empty() && self.unacked[key] == 0 {
            self.keys[key].race = None;
        }
        // C10 admission model, computed before the call
        let held: Vec<usize> = (0..self.keys.len()).filter(|i| self.indexed[*i]).collect();
        let at_capacity = held.len() >= self.plan.capacity;
        let farthest = held.iter().copied().max_by_key(|i| self.dists[*i]);
        let is_held = self.indexed[key];
        let unacked_before: u32 = self.unacked.iter().sum();
        let before_index: BTreeSet<Vec<u8>> = if quiet { BTreeSet::new() } else { self.node_store().verif_index().into_iter().map(|(k, _, _)| k.to_vec()).collect() };
        let res = self
            .driver()
            .verif_handle_local_cmd(LocalSwarmCmd::PutLocalRecord { record });
        self.settle_s().await;
        let fresh = self.absorb(Owner::Key(key));
        let wrote = fresh
            .iter()
            .any(|g| g.site == "store.write" && self.gate_owner.get(&g.id) == Some(&Owner::Key(key)));
        let evicted: Vec<usize> = fresh
            .iter()
            .filter(|g| g.site == "store.delete")
            .filter_map(|g| match self.gate_owner.get(&g.id) {
                Some(Owner::Key(i)) => Some(*i),
                _ => None,
            })
            .collect();
        for g in &fresh {
            if g.site == "store.write" && self.gate_owner.get(&g.id) == Some(&Owner::Key(key)) {
                self.gate_val.insert(g.id, val);
            }
            if g.site == "store.delete" && self.gate_owner.get(&g.id) == Some(&Owner::Key(key)) && !at_capacity {
                // a put below capacity has nothing to evict, least of all the record it is writing
                self.spurious_deletes.insert(g.id);
                self.rep.probe("put_scheduled_delete_of_its_own_file");
            }
        }
        let mut evicted: Vec<usize> = evicted.into_iter().filter(|e| !(*e == key && !at_capacity)).collect();
        self.note_store_gates(&fresh);
        // what left the index is evicted, whether or not a delete task was spawned for it (the tasks are what the
        // code did, the index is what the node now claims to hold)
        if !quiet {
            let after: BTreeSet<Vec<u8>> = self.node_store().verif_index().into_iter().map(|(k, _, _)| k.to_vec()).collect();
            for i in 0..self.plan.n_keys {
                if i != key && before_index.contains(&self.keys[i].bytes) && !after.contains(&self.keys[i].bytes) && !evicted.contains(&i) {
                    evicted.push(i);
                    self.rep.probe("evicted_from_index_without_delete_task");
                    let on_disk = self.store_dir().join(hex::encode(&self.keys[i].bytes)).is_file();
                    if on_disk && self.keys[i].pending_writes.is_empty() && self.keys[i].pending_deletes == 0 {
                        // C02: a completed removal stays removed
                        self.keys[i].gone_expected = true;
                    }
                }
            }
        }
        if !quiet {
            self.rep.log(format!(
                "put k{key} v{val} -> {} wrote={wrote} evicted={evicted:?}",
                if res.is_ok() { "ok".to_string() } else { format!("err({})", res.as_ref().err().map(|e| e.to_string()).unwrap_or_default()) }
            ));
            self.rep.ops += 1;
        }
        self.keys[key].refused_val = if res.is_err() { Some(val) } else { None };
        if res.is_ok() {
            self.keys[key].expect = Expect::Value(val);
            if !wrote && self.keys[key].failed_pending.contains(&val) {
                // the store took the cached copy of this very value as proof that it is stored, but its
                // only disk write has already failed (injected fault): the put shares the fate of that write
                self.keys[key].expect = Expect::Absent;
                self.rep.probe("put_of_value_whose_write_already_failed");
            }
            if wrote && evicted.is_empty() && !is_held && unacked_before > 0
                && held.len() + unacked_before as usize >= self.plan.capacity
            {
                self.burst_admissions += 1;
                self.rep.probe("admitted_without_counting_unacknowledged_writes");
            }
            if wrote {
                self.keys[key].pending_writes.push_back(val);
                self.unacked[key] += 1;
                if self.keys[key].disk_err_armed && self.keys[key].file == FileState::Absent && self.keys[key].pending_writes.len() == 1 && self.keys[key].pending_deletes == 0 {
                    // plant the error now: a directory at the file path makes fs::write fail with EISDIR
                    let p = self.store_dir().join(hex::encode(&self.keys[key].bytes));
                    if std::fs::create_dir(&p).is_ok() {
                        self.keys[key].file = FileState::Blocked;
                    }
                }
            }
        }
        for e in &evicted {
            self.indexed[*e] = false;
            if *e == key && res.is_ok() && wrote {
                // the record being overwritten was itself the farthest: removed, then written again
                self.rep.probe("overwritten_key_was_the_evicted_one");
            } else {
                self.keys[*e].expect = Expect::Absent;
            }
            if !self.keys[*e].pending_writes.is_empty() || self.unacked[*e] > 0 {
                self.keys[*e].race = Some("remove_while_write_in_flight");
            }
            self.rep.probe("prune_evicted");
        }
        if self.prop == "C10" && !quiet {
            let after_index: BTreeSet<Vec<u8>> = self.node_store().verif_index().into_iter().map(|(k, _, _)| k.to_vec()).collect();
            if at_capacity && !is_held {
                self.rep.probe("put_new_key_at_capacity");
                let f = farthest.expect("at capacity implies a farthest");
                let closer = self.dists[key] < self.dists[f];
                if closer {
                    if res.is_err() {
                        self.viol("admission.closer_record_refused", &[], format!("k{key} is closer than the farthest held k{f} but was refused"));
                    } else if evicted != vec![f] && wrote {
                        self.viol("admission.wrong_eviction", &[], format!("admitting k{key} at capacity evicted {evicted:?}, expected exactly the farthest k{f}"));
                    }
                } else {
                    self.rep.probe("put_farther_key_at_capacity");
                    if res.is_ok() && wrote {
                        self.viol("admission.farther_record_accepted", &[], format!("k{key} is farther than the farthest held k{f} but was accepted"));
                    }
                    if !evicted.is_empty() || before_index != after_index {
                        self.viol("admission.refusal_changed_held_set", &[], format!("refusing k{key} changed the held set (evicted {evicted:?})"));
                    }
                    if res.is_err() {
                        // the refused record must not linger in the read cache
                        self.keys[key].handed.pop();
                        let got = self.get(key);
                        self.keys[key].handed.push(val);
                        if let Some(r) = got {
                            if r.value == self.value_bytes(key, val) {
                                // not a violation of the statement (the cache is not the held set); recorded only
                                self.rep.probe("refused_record_readable_from_cache");
                            }
                        }
                    }
                }
            } else if !at_capacity {
                if res.is_err() {
                    self.viol("admission.refused_below_capacity", &[], format!("k{key} refused although {} < capacity {}", held.len(), self.plan.capacity));
                }
                if !evicted.is_empty() {
                    self.viol("admission.eviction_below_capacity", &[], format!("put of k{key} below capacity evicted {evicted:?}"));
                }
            } else {
                // overwrite of a held key at capacity: old set or old set minus the farthest
                if let (Some(f), false) = (farthest, evicted.is_empty()) {
                    if evicted != vec![f] {
                        self.viol("admission.wrong_eviction", &[], format!("overwrite of k{key} at capacity evicted {evicted:?}, farthest is k{f}"));
                    }
                }
            }
        }
        if res.is_err() && !evicted.is_empty() {
            self.viol("admission.refusal_changed_held_set", &[], format!("refused put of k{key} evicted {evicted:?}"));
        }
    }

    async fn step(&mut self, n: usize, step: &Step) {
        match step {
            Step::Put { key, val } => {
                let key = *key % self.plan.n_keys;
                self.keys[key].gone_expected = false;
                self.put(key, *val, false).await;
            }
            Step::Remove { key } => {
                let key = *key % self.plan.n_keys;
                let rk = self.rkeys[key].clone();
                self.keys[key].refused_val = None;
                self.driver().verif_store_mut().remove(&rk);
                self.settle_s().await;
                let fresh = self.absorb(Owner::Key(key));
                self.note_store_gates(&fresh);
                if !self.keys[key].pending_writes.is_empty() || self.unacked[key] > 0 {
                    self.keys[key].race = Some("remove_while_write_in_flight");
                    self.rep.probe("remove_while_write_in_flight");
                }
                self.keys[key].expect = Expect::Absent;
                self.indexed[key] = false;
                self.rep.ops += 1;
                self.rep.log(format!("remove k{key}"));
                let on_disk = self.store_dir().join(hex::encode(&self.keys[key].bytes)).is_file();
                if on_disk && self.keys[key].pending_writes.is_empty() && self.keys[key].pending_deletes == 0 {
                    self.keys[key].gone_expected = true;
                    self.rep.probe("remove_left_file_without_delete_task");
                }
            }
            Step::Get { key } => {
                let key = *key % self.plan.n_keys;
                let in_cache = self.node_store().verif_cache_keys().contains(&self.rkeys[key]);
                let got = self.get(key);
                if !in_cache && got.is_some() {
                    self.rep.probe("read_from_disk");
                }
                let s = self.check_read(key, &got, "get");
                self.rep.ops += 1;
                self.rep.log(format!("get k{key} -> {s}"));
            }
            Step::Has { key } => {
                let key = *key % self.plan.n_keys;
                let h = self.has(key);
                self.rep.ops += 1;
                self.rep.log(format!("has k{key} -> {h}"));
            }
            Step::List => {
                let l = self.list();
                self.rep.ops += 1;
                self.rep.log(format!("list -> {} keys", l.len()));
            }
            Step::Run { sel } => {
                let e = self.eligible();
                if e.is_empty() {
                    self.rep.log("run: nothing parked");
                    return;
                }
                let idx = if *sel == u32::MAX { e.len() - 1 } else { (*sel as usize) % e.len() };
                if idx != 0 {
                    self.rep.nonfifo += 1;
                }
                self.rep.sched.write_u64(idx as u64);
                let g = e[idx].clone();
                self.open_gate(&g).await;
            }
            Step::Settle => {
                self.settle_all().await;
                self.rep.log("settle");
                if self.rep.harness_error.is_none() {
                    self.check_quiescent("settle");
                }
            }
            Step::Stall => {
                if !self.stalled {
                    self.stalled = true;
                    self.rep.fault("driver_stalled");
                    self.rep.log(format!("driver stalls (command channel capacity {})", if self.plan.chan > 0 { self.plan.chan } else { 10_000 }));
                }
            }
            Step::DiskErr { key } => {
                let key = *key % self.plan.n_keys;
                self.keys[key].disk_err_armed = true;
                self.rep.log(format!("arm disk error for next new write of k{key}"));
            }
            Step::SetRange { rank, above } => {
                let mut order: Vec<usize> = (0..self.plan.n_keys).collect();
                order.sort_by_key(|i| self.dists[*i]);
                let k = order[*rank % order.len()];
                let d = if *above { plus_one(&self.dists[k]) } else { self.dists[k] };
                self.range = Some(d);
                let u = d256_to_u256(&d);
                self.driver().verif_set_responsible_range(u);
                self.rep.ops += 1;
                self.rep.log(format!("set range = dist(k{k}){}", if *above { "+1" } else { "" }));
            }
            Step::Cleanup => {
                let held: Vec<usize> = (0..self.keys.len()).filter(|i| self.indexed[*i]).collect();
                let applies = held.len() >= 16 * 1024 / 10 && self.range.is_some();
                let _ = self
                    .driver()
                    .verif_handle_local_cmd(LocalSwarmCmd::TriggerIrrelevantRecordCleanup);
                self.settle_s().await;
                let fresh = self.absorb(Owner::Other);
                self.note_store_gates(&fresh);
                let removed: BTreeSet<usize> = fresh
                    .iter()
                    .filter(|g| g.site == "store.delete")
                    .filter_map(|g| match self.gate_owner.get(&g.id) {
                        Some(Owner::Key(i)) => Some(*i),
                        _ => None,
                    })
                    .collect();
                let expected: BTreeSet<usize> = if applies {
                    let r = self.range.unwrap();
                    held.iter().copied().filter(|i| self.dists[*i] >= r).collect()
                } else {
                    BTreeSet::new()
                };
                if applies {
                    self.rep.probe("cleanup_applied");
                }
                if removed != expected {
                    let shape = if !applies { "cleanup_must_not_apply" } else { "wrong_set" };
                    self.viol(
                        "cleanup.wrong_records_removed",
                        &[("shape", shape.into())],
                        format!("cleanup removed {} records, expected {} (held {}, threshold 1638, range set: {})", removed.len(), expected.len(), held.len(), self.range.is_some()),
                    );
                }
                // C02, "completed removals stay removed": a key the clean-up took out of the index whose file is still
                // on disk with no task left to delete it
                {
                    let after: BTreeSet<Vec<u8>> = self.node_store().verif_index().into_iter().map(|(k, _, _)| k.to_vec()).collect();
                    for i in held.iter().copied() {
                        if !after.contains(&self.keys[i].bytes) && !removed.contains(&i) {
                            self.rep.probe("cleaned_up_from_index_without_delete_task");
                            let on_disk = self.store_dir().join(hex::encode(&self.keys[i].bytes)).is_file();
                            if on_disk && self.keys[i].pending_writes.is_empty() && self.keys[i].pending_deletes == 0 {
                                self.keys[i].gone_expected = true;
                            }
                            self.indexed[i] = false;
                            self.keys[i].expect = Expect::Absent;
                        }
                    }
                }
                for i in removed {
                    self.indexed[i] = false;
                    self.keys[i].expect = Expect::Absent;
                    if !self.keys[i].pending_writes.is_empty() || self.unacked[i] > 0 {
                        self.keys[i].race = Some("remove_while_write_in_flight");
                    }
                }
                self.rep.ops += 1;
                self.rep.log(format!("cleanup (applies={applies})"));
            }
            Step::Payment => {
                self.payments += 1;
                let _ = self.driver().verif_handle_local_cmd(LocalSwarmCmd::PaymentReceived);
                self.settle_s().await;
                let _ = self.absorb(Owner::Other);
                self.rep.ops += 1;
                self.rep.log("payment received");
            }
            Step::Metrics => {
                let (tx, mut rx) = oneshot::channel();
                let rk = self.rkeys[0].clone();
                let _ = self
                    .driver()
                    .verif_handle_local_cmd(LocalSwarmCmd::GetLocalQuotingMetrics { key: rk, sender: tx });
                if let Ok((m, is_stored)) = rx.try_recv() {
                    let held: Vec<usize> = (0..self.keys.len()).filter(|i| self.indexed[*i]).collect();
                    let want_close = match self.range {
                        Some(r) => held.iter().filter(|i| self.dists[**i] < r).count(),
                        None => held.len(),
                    };
                    if m.close_records_stored != want_close {
                        self.viol("metrics.close_records_wrong", &[], format!("quoting metrics report {} close records, true value {want_close}", m.close_records_stored));
                    }
                    if m.max_records != self.plan.capacity {
                        self.viol("metrics.capacity_wrong", &[], format!("quoting metrics report capacity {}, configured {}", m.max_records, self.plan.capacity));
                    }
                    if m.received_payment_count as u64 != self.payments {
                        self.viol("metrics.payment_count_wrong", &[], format!("quoting metrics report {} payments, true value {}", m.received_payment_count, self.payments));
                    }
                    if is_stored != self.indexed[0] {
                        self.viol("metrics.is_stored_wrong", &[], format!("is_stored={is_stored}, model {}", self.indexed[0]));
                    }
                    let want_density = self.range.map(|r| r);
                    if m.network_density != want_density {
                        self.viol("metrics.density_wrong", &[], "network_density differs from the configured range".into());
                    }
                    self.rep.log(format!("metrics -> close={} cap={} paid={}", m.close_records_stored, m.max_records, m.received_payment_count));
                }
                self.rep.ops += 1;
            }
            Step::Crash { torn } => {
                let mut what = "crash".to_string();
                if let Some((sel, permille, zero_tail)) = torn {
                    let writes: Vec<GateInfo> = self.eligible().into_iter().filter(|g| g.site == "store.write").collect();
                    if !writes.is_empty() {
                        let g = writes[(*sel as usize) % writes.len()].clone();
                        if let Some(Owner::Key(i)) = self.gate_owner.get(&g.id).copied() {
                            if self.keys[i].file != FileState::Blocked {
                                // run the write, then keep only a prefix of what it wrote
                                let val = self.gate_val.get(&g.id).copied().or(self.keys[i].pending_writes.front().copied());
                                hooks::gate_open(g.id);
                                self.settle_s().await;
                                let _ = self.absorb(Owner::Key(i));
                                let p = self.store_dir().join(hex::encode(&self.keys[i].bytes));
                                if let (Ok(full), Some(v)) = (std::fs::read(&p), val) {
                                    let cut = full.len() * (*permille as usize) / 1000;
                                    if cut >= full.len() {
                                        self.keys[i].file = FileState::Complete(v);
                                    } else {
                                        let mut c = full[..cut].to_vec();
                                        if *zero_tail {
                                            c.resize(full.len(), 0);
                                        }
                                        let _ = std::fs::write(&p, &c);
                                        self.keys[i].file = if c == full { FileState::Complete(v) } else { FileState::Garbage };
                                        self.rep.fault("torn_write_main_timeline");
                                        what = format!("crash with torn write of k{i} at {cut}/{}", full.len());
                                    }
                                }
                            }
                        }
                    }
                }
                self.rep.fault("crash");
                self.rep.log(format!("step {n}: {what}; restart"));
                self.crash_and_restart("crash").await;
            }
            Step::RestartOnNetwork { id } => {
                let id = (*id).max(1);
                self.settle_all().await;
                if self.rep.harness_error.is_none() {
                    self.check_quiescent("before_restart");
                }
                if id == self.net_id {
                    self.rep.fault("clean_restart");
                    self.rep.log("clean restart");
                    self.crash_and_restart("clean_restart").await;
                } else {
                    self.rep.fault("restart_on_another_network");
                    self.rep.log(format!("restart on another network: id {} -> {id}", self.net_id));
                    self.net_id = id;
                    // nothing is required of this restart (the node drops the other network's records): the durable
                    // model is taken from what the restarted node serves
                    self.resync_after_restart = true;
                    self.crash_and_restart("network_change").await;
                }
            }
            Step::Restart => {
                self.settle_all().await;
                if self.rep.harness_error.is_none() {
                    self.check_quiescent("before_restart");
                }
                self.rep.fault("clean_restart");
                self.rep.log("clean restart");
                self.crash_and_restart("clean_restart").await;
            }
            Step::CorruptAndRestart { key, how } => {
                let key = *key % self.plan.n_keys;
                self.settle_all().await;
                if let FileState::Complete(_) = self.keys[key].file {
                    let p = self.store_dir().join(hex::encode(&self.keys[key].bytes));
                    if let Ok(full) = std::fs::read(&p) {
                        let kind = how % 4;
                        let content = match kind {
                            0 => {
                                let mut c = full.clone();
                                let pos = (*how as usize >> 2) % c.len().max(1);
                                if !c.is_empty() {
                                    c[pos] ^= 0x10;
                                }
                                c
                            }
                            1 => full[..full.len() / 2].to_vec(),
                            2 => vec![],
                            _ => {
                                // another key's (valid) file content under this key's name
                                let other = (0..self.plan.n_keys).find(|o| *o != key && matches!(self.keys[*o].file, FileState::Complete(_)));
                                match other {
                                    Some(o) => std::fs::read(self.store_dir().join(hex::encode(&self.keys[o].bytes))).unwrap_or_default(),
                                    None => vec![0u8; full.len()],
                                }
                            }
                        };
                        if content != full {
                            let _ = std::fs::write(&p, &content);
                            self.keys[key].file = FileState::Garbage;
                            self.rep.fault(match kind {
                                0 => "stored_file_bit_flip",
                                1 => "stored_file_truncated",
                                2 => "stored_file_emptied",
                                _ => "stored_file_foreign_content",
                            });
                        }
                    }
                }
                self.rep.log(format!("corrupt stored file of k{key} (how={how}); crash; restart"));
                self.crash_and_restart("corrupt_restart").await;
            }
        }
    }
}
