//! Independent reference pieces: key/value construction, XOR metric, per-key model state.

use sha2::{Digest, Sha256};
use std::collections::VecDeque;

pub type D256 = [u8; 32];

/// sha256(a) xor sha256(b), big-endian — recomputed here, never through the code under test.
pub fn xor_distance(a: &[u8], b: &[u8]) -> D256 {
    let ha = Sha256::digest(a);
    let hb = Sha256::digest(b);
    let mut out = [0u8; 32];
    for i in 0..32 {
        out[i] = ha[i] ^ hb[i];
    }
    out
}

pub fn key_bytes(node_key: u64, idx: usize) -> Vec<u8> {
    let mut h = Sha256::new();
    h.update(b"antsim-key");
    h.update(node_key.to_le_bytes());
    h.update((idx as u64).to_le_bytes());
    h.finalize().to_vec()
}

/// Record kinds a node stores: 0 chunk, 1 scratchpad, 2 transaction, 3 register.
pub fn kind_of(idx: usize) -> usize {
    idx % 4
}

/// Unique payload for (key, val): the first 12 bytes identify it, the rest is filler of a seeded length.
pub fn payload(node_key: u64, idx: usize, val: u32) -> Vec<u8> {
    let mut h = Sha256::new();
    h.update(b"antsim-val");
    h.update(node_key.to_le_bytes());
    h.update((idx as u64).to_le_bytes());
    h.update(val.to_le_bytes());
    let d = h.finalize();
    let len = 8 + (d[0] as usize) % 200;
    let mut v = Vec::with_capacity(12 + len);
    v.extend_from_slice(&(idx as u64).to_le_bytes());
    v.extend_from_slice(&val.to_le_bytes());
    let mut i = 0usize;
    while v.len() < 12 + len {
        v.push(d[i % 32] ^ (i as u8));
        i += 1;
    }
    v
}

#[derive(Clone, Debug, PartialEq, Eq)]
pub enum FileState {
    Absent,
    Complete(u32),
    /// a directory occupies the path (injected write error)
    Blocked,
    /// torn or corrupted on purpose: must not be served
    Garbage,
}

#[derive(Clone, Debug, PartialEq, Eq)]
pub enum Expect {
    Absent,
    Value(u32),
}

#[derive(Clone, Debug)]
pub struct KeyModel {
    pub bytes: Vec<u8>,
    pub kind: usize,
    /// every value number ever handed to the store for this key
    pub handed: Vec<u32>,
    /// what the sequential model of the foreground operations says is stored
    pub expect: Expect,
    /// value numbers of accepted puts whose file write has not run yet (issue order)
    pub pending_writes: VecDeque<u32>,
    /// deletes issued and not run yet
    pub pending_deletes: usize,
    pub file: FileState,
    /// the next write of this key will hit the injected disk error
    pub disk_err_armed: bool,
    /// a remove was issued while a write of this key was still in flight (see DESIGN C01 finding);
    /// names the shape of the race
    pub race: Option<&'static str>,
    /// a requested remove left the key's complete file on disk with no delete task and no write parked:
    /// nothing will ever delete it, yet the removal is complete as far as the caller can tell
    pub gone_expected: bool,
    /// the value of the last put of this key if the store refused it (it may still sit in the read cache)
    pub refused_val: Option<u32>,
    /// values whose disk write failed and whose failure notification has not been handled yet
    pub failed_pending: Vec<u32>,
}

impl KeyModel {
    pub fn new(node_key: u64, idx: usize) -> Self {
        KeyModel {
            bytes: key_bytes(node_key, idx),
            kind: kind_of(idx),
            handed: vec![],
            expect: Expect::Absent,
            pending_writes: VecDeque::new(),
            pending_deletes: 0,
            file: FileState::Absent,
            disk_err_armed: false,
            race: None,
            gone_expected: false,
            refused_val: None,
            failed_pending: vec![],
        }
    }
}
