//! sim `client` (C14, C15): the real autonomi `Client` read paths over a real client-mode SwarmDriver;
//! the simulator is the set of holders and the kad query engine. It answers each record query in
//! seeded order with the honest record, nothing, or a byzantine substitute.
//!
//! `MAX_CHUNK_SIZE` of the `self_encryption` crate is a compile-time constant (option_env!). The
//! `run` script builds this sim twice: the default build (1 MiB chunks) and a small-chunk build
//! (MAX_CHUNK_SIZE=1024, sim name `client-smallchunk`) in which a few hundred KiB of input already
//! need three data-map levels.

mod world;

use serde::{Deserialize, Serialize};
use simkit::{GenCtx, PropertySpec, Rng, RunReport, Sim, Tier};

pub const SMALL_CHUNK_BUILD: bool = option_env!("MAX_CHUNK_SIZE").is_some();

#[derive(Serialize, Deserialize, Clone, Debug, PartialEq)]
#[serde(tag = "t")]
pub enum Task {
    /// encrypt `len` bytes, serve the chunks honestly, read back with data_get_public
    /// nested: the stored content is itself the serialised data map (root data-map chunk value) of another file of
    /// `len` bytes whose chunks are available too; it must read back as those bytes, not be followed
    /// via: how the data is read back - 0 data_get_public, 1 data_get (private data map), 2 file_download_public,
    /// 3 file_download (private), 4 dir_download_public (an archive of this file and two small ones), 5 dir_download;
    /// pre: state of the destination file before a download - 0 absent (parents too), 1 a longer file, 2 a shorter
    /// file, 3 a file of the same length with other bytes
    RoundTrip { len: usize, repetitive: bool, #[serde(default)] nested: bool, #[serde(default)] via: u8, #[serde(default)] pre: u8 },
    /// as RoundTrip, but the query for chunk number `victim` (0 = data map chunk) is answered
    /// `how`: 0 not found, 1 timeout, 2 another valid chunk of the same data, 3 a foreign valid
    /// chunk, 4 right bytes under the wrong record kind, 5 bytes that do not deserialise, 6 another valid chunk under its own key, 7 other content labelled with the requested address, 8 (root only) the data-map chunk of another file whose chunks are available
    DataWithFault { len: usize, victim: u32, how: u8 },
    /// chunk_get of one chunk with a byzantine answer (`how` as above, 2..5)
    ChunkGet { len: usize, how: u8 },
    /// fetch_and_decrypt_vault; replies = (peer, pad): pad = (counter, form) with form 0 valid, 1 unsigned,
    /// 2 signed by another key, 3 inflated counter, 4 valid pad of another owner, 5 content substituted under the genuine counter and signature; form / 8 = variant. Replies with the same (counter, form) are byte-identical copies
    Vault { replies: Vec<(u8, u8, u8)>, finish: u8 },
}

#[derive(Serialize, Deserialize, Clone, Debug)]
pub struct Plan {
    pub property: String,
    pub mode: String,
    pub seed: u64,
    pub task: Task,
    /// scheduling selectors consumed one per decision; afterwards FIFO
    pub sels: Vec<u32>,
    /// duplicate every n-th reply (0 = never)
    pub dup_every: u8,
    /// CHUNK_DOWNLOAD_BATCH_SIZE of the process that generated the plan (read once per process by the client;
    /// the `run` script adds a companion run with 0, the boundary value: no concurrency)
    #[serde(default = "default_batch")]
    pub batch: u8,
}

fn default_batch() -> u8 {
    3
}

fn process_batch() -> u8 {
    std::env::var("CHUNK_DOWNLOAD_BATCH_SIZE").ok().and_then(|v| v.parse().ok()).unwrap_or(3)
}

pub struct ClientSim;

fn interesting_len(rng: &mut Rng, tier: Tier) -> usize {
    let max = *self_encryption::MAX_CHUNK_SIZE;
    if SMALL_CHUNK_BUILD {
        // with 1 KiB chunks a data map needs a 2nd level from ~10 chunks, a 3rd from ~100-150 chunks
        // (~150 KiB) and a 4th from a few MiB
        let n = match rng.below(8) {
            0 => rng.urange(3, 200),
            1 => 3 * max + rng.urange(0, 2) - 1,
            2 => rng.urange(1, 80) * max + rng.urange(0, 2) - 1,
            3 | 4 => rng.urange(12, 100) * max + rng.urange(0, 900),
            7 if tier == Tier::Thorough => rng.urange(2500, 3500) * max,
            _ => rng.urange(150, 420) * max + rng.urange(0, 900),
        };
        n.max(3)
    } else {
        match rng.below(10) {
            0 => 3,
            1 => rng.urange(3, 100),
            2 => rng.urange(100, 20_000),
            3 => 3 * max + rng.urange(0, 2) - 1,
            4 => rng.urange(1, 3) * max + rng.urange(0, 2) - 1,
            5 if tier == Tier::Thorough => rng.urange(3, 4) * max + rng.urange(0, 1000),
            _ => rng.urange(1000, 300_000),
        }
    }
}

impl Sim for ClientSim {
    type Plan = Plan;
    const NAME: &'static str = if SMALL_CHUNK_BUILD { "client-smallchunk" } else { "client" };

    fn properties() -> Vec<PropertySpec> {
        let assumptions = vec![
            "the simulator plays the holders and libp2p's kad query engine (it emits the kad::Event values the engine emits); the real Client, Network::get_record_from_network and SwarmDriver handlers run",
            "MAX_CHUNK_SIZE is compile-time: default build (1 MiB) and small-chunk build (1024 B) are both run; CHUNK_DOWNLOAD_BATCH_SIZE is fixed to 3 for the process",
            "client upload / payment paths are not exercised (C14/C15 are read-side properties); chunks are produced by the real autonomi::self_encryption::encrypt",
        ];
        vec![
            PropertySpec {
                id: "C14",
                level: "exploration",
                modes: vec!["nofault", "fault"],
                quick_runs: if SMALL_CHUNK_BUILD { 400 } else { 1_500 },
                thorough_runs: if SMALL_CHUNK_BUILD { 6_000 } else { 30_000 },
                rule: "One run = one input (length drawn around the size-class boundaries: 0..2, 3, k*MAX_CHUNK_SIZE +/- 1, 3*MAX_CHUNK_SIZE +/- 1, random; random or highly repetitive content) encrypted twice with the real encrypt(), checked for chunk size / content addressing / determinism, then read back through the real Client::data_get_public while the simulator completes the chunk queries in seeded order with duplicated replies; in mode fault one chunk query is answered not-found / timeout and the read must fail. Non-trivial = >= 3 chunk fetches and (non-FIFO completion order or a fault); distinct = fingerprint of length class + completion order + fault.",
                assumptions: assumptions.clone(),
            },
            PropertySpec {
                id: "C15",
                level: "exploration",
                modes: vec!["byzantine"],
                quick_runs: if SMALL_CHUNK_BUILD { 300 } else { 4_000 },
                thorough_runs: if SMALL_CHUNK_BUILD { 4_000 } else { 80_000 },
                rule: "One run = one client read (chunk_get, data_get_public, fetch_and_decrypt_vault) against holders that answer one query with another valid chunk, a foreign chunk, the right bytes under the wrong kind, or undecodable bytes; for the vault the holders deliver seeded sets of scratchpads (valid with chosen counters, unsigned, signed by another key, inflated counter, another owner's pad) from up to 8 peers with any terminal event. Ok(bytes) must hash to the requested address / equal the original data; a vault Ok must be the owner's validly signed pad with the highest counter delivered. Non-trivial = >= 3 operations and a byzantine reply (counted as fault).",
                assumptions,
            },
        ]
    }

    fn generate(rng: &mut Rng, ctx: &GenCtx) -> Plan {
        let task = match (ctx.property.as_str(), ctx.mode.as_str()) {
            ("C14", "nofault") => {
                if rng.chance(1, 12) {
                    Task::RoundTrip { len: rng.urange(0, 2), repetitive: false, nested: false, via: 0, pre: 0 }
                } else {
                    let nested = rng.chance(1, 10);
                    // a third of the round trips read back another way than data_get_public
                    let via = if rng.chance(1, 3) { rng.range(1, 5) as u8 } else { 0 };
                    Task::RoundTrip { len: interesting_len(rng, ctx.tier), repetitive: rng.chance(1, 3), nested, via, pre: rng.below(4) as u8 }
                }
            }
            ("C14", _) => Task::DataWithFault { len: interesting_len(rng, ctx.tier), victim: rng.below(1 << 16) as u32, how: rng.below(2) as u8 },
            _ => match rng.below(if SMALL_CHUNK_BUILD { 2 } else { 4 }) {
                0 => Task::DataWithFault { len: interesting_len(rng, ctx.tier), victim: rng.below(1 << 16) as u32, how: 2 + rng.below(7) as u8 },
                1 => Task::ChunkGet { len: rng.urange(3, 5000), how: 2 + rng.below(6) as u8 },
                _ => {
                    let n = rng.urange(0, 8);
                    // swarm knob: few distinct versions, so that identical copies reach the read's quorum
                    let few_versions = rng.chance(1, 2);
                    // a third of the vault reads: one version from a quorum of holders first (3-5 identical copies
                    // from distinct peers), other replies only afterwards
                    let quorum_first = rng.chance(1, 3);
                    let q_form = if rng.chance(1, 2) { 0 } else { 1 + rng.below(6) as u8 };
                    let q_counter = rng.range(1, 3) as u8;
                    let q_copies = rng.urange(3, 5);
                    let mut replies: Vec<(u8, u8, u8)> = if quorum_first { (0..q_copies).map(|p| (p as u8, q_counter, q_form)).collect() } else { vec![] };
                    let rest: Vec<(u8, u8, u8)> = (0..n)
                        .map(|_| {
                            // form % 8: 0 valid .. 5 substituted content; form / 8: variant (another pad with the same counter)
                            let form = if rng.chance(1, 2) { 0 } else { 1 + rng.below(6) as u8 };
                            let variant = if rng.chance(1, 6) { 1u8 } else { 0 };
                            (rng.below(8) as u8, rng.range(1, if few_versions { 2 } else { 5 }) as u8, form + 8 * variant)
                        })
                        .collect();
                    replies.extend(rest);
                    Task::Vault { replies, finish: rng.below(4) as u8 }
                }
            },
        };
        let n_sels = rng.urange(0, 40);
        let policy = rng.below(3);
        Plan {
            property: ctx.property.clone(),
            mode: ctx.mode.clone(),
            seed: rng.next_u64(),
            task,
            sels: (0..n_sels)
                .map(|_| match policy {
                    0 => 0,
                    1 => u32::MAX,
                    _ => rng.below(1 << 16) as u32,
                })
                .collect(),
            dup_every: if rng.chance(1, 3) { rng.range(1, 4) as u8 } else { 0 },
            batch: process_batch(),
        }
    }

    fn execute(plan: &Plan, entropy: u64) -> RunReport {
        world::execute(plan, entropy)
    }

    fn shrink(plan: &Plan) -> Vec<Plan> {
        let mut out = vec![];
        if !plan.sels.is_empty() {
            let mut p = plan.clone();
            p.sels.clear();
            out.push(p);
            for sels in simkit::shrink::remove_chunks(&plan.sels) {
                let mut p = plan.clone();
                p.sels = sels;
                out.push(p);
            }
        }
        if plan.dup_every != 0 {
            let mut p = plan.clone();
            p.dup_every = 0;
            out.push(p);
        }
        match &plan.task {
            Task::RoundTrip { len, .. } | Task::DataWithFault { len, .. } if *len > 10 => {
                for l in [*len / 2, *len - 1] {
                    let mut p = plan.clone();
                    p.task = match &plan.task {
                        Task::RoundTrip { nested, via, pre, .. } => Task::RoundTrip { len: l, repetitive: false, nested: *nested, via: *via, pre: *pre },
                        Task::DataWithFault { victim, how, .. } => Task::DataWithFault { len: l, victim: *victim, how: *how },
                        t => t.clone(),
                    };
                    out.push(p);
                }
            }
            Task::Vault { replies, finish } => {
                for r in simkit::shrink::remove_chunks(replies) {
                    let mut p = plan.clone();
                    p.task = Task::Vault { replies: r, finish: *finish };
                    out.push(p);
                }
            }
            _ => {}
        }
        out
    }

    fn components() -> Vec<(&'static str, &'static str)> {
        vec![
            ("autonomi::Client::{chunk_get, data_get_public, fetch_from_data_map_chunk, fetch_from_data_map, fetch_and_decrypt_vault}, process_tasks_with_max_concurrency", "real (guarded Client::verif_from_network constructor)"),
            ("autonomi::self_encryption::{encrypt, pack_data_map}, self_encryption crate", "real"),
            ("Network::get_record_from_network, handle_split_record_error, SwarmDriver get-record handlers", "real"),
            ("holders, kad query engine, transport", "stub: the simulator answers every record query"),
            ("client payment / wallet / upload paths", "not exercised"),
        ]
    }
}

fn main() {
    // fixed for the whole process (LazyLock read once by the client): 3, or what VERIF_CLIENT_BATCH says, or -
    // when replaying - what the replay file's plan was generated under
    let args: Vec<String> = std::env::args().collect();
    let mut batch = std::env::var("VERIF_CLIENT_BATCH").ok().and_then(|v| v.parse::<u8>().ok()).unwrap_or(3);
    if args.get(1).map(|a| a == "replay").unwrap_or(false) {
        if let Some(b) = args
            .get(2)
            .and_then(|p| std::fs::read_to_string(p).ok())
            .and_then(|t| serde_json::from_str::<serde_json::Value>(&t).ok())
            .and_then(|v| v["plan"]["batch"].as_u64())
        {
            batch = b as u8;
        }
    }
    std::env::set_var("CHUNK_DOWNLOAD_BATCH_SIZE", batch.to_string());
    simkit::check::main::<ClientSim>();
}
