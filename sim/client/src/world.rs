//! Executor and oracles of the `client` sim.

use crate::{Plan, Task, SMALL_CHUNK_BUILD};
use ant_networking::verif::{self as hooks, NetworkSwarmCmd};
use ant_networking::{NetworkBuilder, SwarmDriver};
use ant_protocol::storage::{try_serialize_record, Chunk, RecordKind};
use autonomi::client::data::DataMapChunk;
use autonomi::client::files::archive::{Metadata, PrivateArchive};
use autonomi::client::files::archive_public::PublicArchive;
use autonomi::Client;
use bytes::Bytes;
use libp2p::kad::{self, PeerRecord, ProgressStep, QueryId, QueryResult, QueryStats, Record, RecordKey};
use libp2p::PeerId;
use simkit::rt::settle;
use simkit::RunReport;
use simnode::data::{self, PadForm};
use std::collections::{BTreeMap, HashSet};
use std::num::NonZeroUsize;
use std::sync::{Arc, Mutex};

struct World<'a> {
    plan: &'a Plan,
    rep: RunReport,
    driver: SwarmDriver,
    client: Client,
    /// honest holders: key -> record value
    held: BTreeMap<Vec<u8>, Vec<u8>>,
    /// queries seen and not yet answered
    open: Vec<(QueryId, Vec<u8>)>,
    seen: HashSet<QueryId>,
    peers: Vec<PeerId>,
    sel_pos: usize,
    replies: u64,
    fetch_order: Vec<Vec<u8>>,
    /// the read under way ends in file system work on tokio's blocking pool (download-to-file wrappers): when nothing
    /// is pending the driver waits for that thread instead of declaring the read stuck
    file_mode: bool,
    dest_root: Option<std::path::PathBuf>,
}

static RUN_COUNTER: std::sync::atomic::AtomicU64 = std::sync::atomic::AtomicU64::new(0);

impl Drop for World<'_> {
    fn drop(&mut self) {
        if let Some(d) = &self.dest_root {
            let _ = std::fs::remove_dir_all(d);
        }
    }
}

pub fn execute(plan: &Plan, entropy: u64) -> RunReport {
    simkit::rt::block_on(entropy, async move {
        hooks::gates_install();
        let mut rep = RunReport::default();
        let kp = data::ed_key(plan.seed, 0);
        let (network, _events, driver) = match NetworkBuilder::new(kp, true).build_client() {
            Ok(x) => x,
            Err(e) => {
                rep.harness_error = Some(format!("build_client: {e}"));
                return rep;
            }
        };
        let client = Client::verif_from_network(network, simnode::host::custom_evm());
        let peers = (0..8).map(|i| data::ed_key(plan.seed, 50 + i).public().to_peer_id()).collect();
        let mut w = World {
            plan,
            rep,
            driver,
            client,
            held: BTreeMap::new(),
            open: vec![],
            seen: HashSet::new(),
            peers,
            sel_pos: 0,
            replies: 0,
            fetch_order: vec![],
            file_mode: false,
            dest_root: None,
        };
        w.run().await;
        hooks::gates_uninstall();
        std::mem::take(&mut w.rep)
    })
}

fn gen_data(seed: u64, len: usize, repetitive: bool) -> Vec<u8> {
    if repetitive {
        let pat = data::seed_bytes(seed, "pattern", 0);
        (0..len).map(|i| pat[i % 7]).collect()
    } else {
        let mut out = Vec::with_capacity(len);
        let mut block = 0u64;
        while out.len() < len {
            let b = data::seed_bytes(seed, "content", block);
            let take = (len - out.len()).min(32);
            out.extend_from_slice(&b[..take]);
            block += 1;
        }
        out
    }
}

fn chunk_record_value(bytes: &Bytes) -> Vec<u8> {
    try_serialize_record(&Chunk::new(bytes.clone()), RecordKind::Chunk)
        .expect("serialize chunk")
        .to_vec()
}

enum Answer {
    Found(Vec<u8>),
    /// a record the holder returns under ANOTHER key than the requested one (key, value)
    FoundUnderKey(Vec<u8>, Vec<u8>),
    NotFound,
    Timeout,
}

impl<'a> World<'a> {
    fn next_sel(&mut self) -> u32 {
        let s = self.plan.sels.get(self.sel_pos).copied().unwrap_or(0);
        self.sel_pos += 1;
        s
    }

    fn feed(&mut self, id: QueryId, result: QueryResult, last: bool) {
        let ev = kad::Event::OutboundQueryProgressed {
            id,
            result,
            stats: QueryStats::empty(),
            step: ProgressStep {
                count: NonZeroUsize::new(1).unwrap(),
                last,
            },
        };
        if self.driver.verif_handle_kad_event(ev).is_err() {
            self.rep.probe("kad_event_for_finished_query");
        }
    }

    async fn drain(&mut self) {
        for _ in 0..1000 {
            settle().await;
            let mut n = 0;
            while let Some(cmd) = self.driver.verif_try_recv_network_cmd() {
                n += 1;
                if let NetworkSwarmCmd::GetNetworkRecord { .. } = &cmd {
                    let _ = self.driver.verif_handle_network_cmd(cmd);
                }
            }
            while let Some(cmd) = self.driver.verif_try_recv_local_cmd() {
                n += 1;
                let _ = self.driver.verif_handle_local_cmd(cmd);
            }
            for p in self.driver.verif_pending_get_record() {
                if self.seen.insert(p.query_id) {
                    let k = p.key.to_vec();
                    self.fetch_order.push(k.clone());
                    self.open.push((p.query_id, k));
                }
            }
            if n == 0 {
                break;
            }
        }
    }

    /// Drive the client future to completion; `answer` decides what the holders say for a key.
    async fn drive<T: Send + 'static>(
        &mut self,
        result: Arc<Mutex<Option<T>>>,
        answer: &dyn Fn(&World, &[u8]) -> Answer,
    ) -> bool {
        let mut waited = 0u32;
        for _ in 0..200_000 {
            self.drain().await;
            if result.lock().unwrap().is_some() {
                return true;
            }
            let gates = hooks::gates_pending();
            let total = gates.len() + self.open.len();
            if total == 0 {
                if self.file_mode && waited < 600_000 {
                    // the only thing that can be under way is one file system call on the blocking pool; the client
                    // task awaits it and nothing else runs meanwhile, so waiting for it decides nothing
                    waited += 1;
                    std::thread::sleep(std::time::Duration::from_micros(100));
                    continue;
                }
                return false;
            }
            let sel = self.next_sel();
            let idx = if sel == u32::MAX { total - 1 } else { sel as usize % total };
            if idx != 0 {
                self.rep.nonfifo += 1;
            }
            self.rep.sched.write_u64(idx as u64);
            if idx < gates.len() {
                hooks::gate_open(gates[idx].id);
            } else {
                let (id, key) = self.open.remove(idx - gates.len());
                self.replies += 1;
                let rk = RecordKey::new(&key);
                let ans = match answer(self, &key) {
                    Answer::FoundUnderKey(k2, value) => {
                        // kad does not compare a reply's record key with the queried key
                        let rec = Record { key: RecordKey::new(&k2), value, publisher: None, expires: None };
                        let peer = self.peers[(self.replies % 8) as usize];
                        self.feed(id, QueryResult::GetRecord(Ok(kad::GetRecordOk::FoundRecord(PeerRecord { peer: Some(peer), record: rec }))), false);
                        self.feed(id, QueryResult::GetRecord(Ok(kad::GetRecordOk::FinishedWithNoAdditionalRecord { cache_candidates: Default::default() })), true);
                        continue;
                    }
                    other => other,
                };
                match ans {
                    Answer::FoundUnderKey(..) => {}
                    Answer::Found(value) => {
                        let rec = Record { key: rk, value, publisher: None, expires: None };
                        let peer = self.peers[(self.replies % 8) as usize];
                        self.feed(id, QueryResult::GetRecord(Ok(kad::GetRecordOk::FoundRecord(PeerRecord { peer: Some(peer), record: rec.clone() }))), false);
                        if self.plan.dup_every != 0 && self.replies % self.plan.dup_every as u64 == 0 {
                            self.rep.fault("duplicate_reply");
                            self.feed(id, QueryResult::GetRecord(Ok(kad::GetRecordOk::FoundRecord(PeerRecord { peer: Some(peer), record: rec }))), false);
                        }
                        self.feed(id, QueryResult::GetRecord(Ok(kad::GetRecordOk::FinishedWithNoAdditionalRecord { cache_candidates: Default::default() })), true);
                    }
                    Answer::NotFound => {
                        self.feed(id, QueryResult::GetRecord(Err(kad::GetRecordError::NotFound { key: rk, closest_peers: vec![] })), true);
                    }
                    Answer::Timeout => {
                        self.feed(id, QueryResult::GetRecord(Err(kad::GetRecordError::Timeout { key: rk })), true);
                    }
                }
            }
        }
        false
    }

    fn encrypt_and_check(&mut self, data: &[u8]) -> Option<(Chunk, Vec<Chunk>)> {
        let max = *self_encryption::MAX_CHUNK_SIZE;
        // The first encryption runs on a buffer whose allocation held ANOTHER input of the same length a moment ago
        // (a refilled read buffer, a loop over equally sized files): the result must depend on the content alone.
        // (the reused buffer stays alive until the second, independent encryption is done, so that one cannot land
        // in the same allocation by accident of the allocator)
        let mut keep_alive: Option<Bytes> = None;
        let r1 = if data.len() >= 3 {
            let decoy: Vec<u8> = data.iter().map(|b| b ^ 0x55).collect();
            let b0 = bytes::BytesMut::from(&decoy[..]).freeze();
            let _ = autonomi::self_encryption::encrypt(b0.clone());
            match b0.try_into_mut() {
                Ok(mut m) => {
                    m.copy_from_slice(data);
                    self.rep.probe("encrypted_in_a_reused_buffer");
                    let b1 = m.freeze();
                    keep_alive = Some(b1.clone());
                    autonomi::self_encryption::encrypt(b1)
                }
                Err(_) => autonomi::self_encryption::encrypt(Bytes::copy_from_slice(data)),
            }
        } else {
            autonomi::self_encryption::encrypt(Bytes::copy_from_slice(data))
        };
        let r2 = autonomi::self_encryption::encrypt(Bytes::copy_from_slice(data));
        drop(keep_alive);
        if data.len() < 3 {
            self.rep.probe("too_small_input");
            if r1.is_ok() {
                self.rep.violate("C14", "too_small_input_not_rejected", &[("len", data.len().to_string())], format!("encrypt accepted {} bytes", data.len()));
            }
            return None;
        }
        let (dm, mut chunks) = match r1 {
            Ok(x) => x,
            Err(e) => {
                self.rep.violate("C14", "encrypt_failed", &[("len", data.len().to_string())], format!("encrypt of {} bytes failed: {e}", data.len()));
                return None;
            }
        };
        match r2 {
            Ok((dm2, chunks2)) => {
                let a1: Vec<_> = chunks.iter().map(|c| *c.name()).collect();
                let a2: Vec<_> = chunks2.iter().map(|c| *c.name()).collect();
                let mut s1 = a1.clone();
                let mut s2 = a2.clone();
                s1.sort();
                s2.sort();
                if dm.name() != dm2.name() || dm.value() != dm2.value() || s1 != s2 {
                    self.rep.violate("C14", "encryption_not_deterministic", &[], format!("two encryptions of the same {} bytes differ", data.len()));
                }
            }
            Err(_) => {
                self.rep.violate("C14", "encryption_not_deterministic", &[], "second encryption failed");
            }
        }
        for c in chunks.iter().chain(std::iter::once(&dm)) {
            if c.value().len() > max {
                // a maximum-size source chunk of incompressible data grows by the cipher padding and the
                // compression framing; anything beyond that small overhead is a different shape
                let shape = if c.value().len() <= max + max / 256 + 64 { "encryption_overhead_on_full_incompressible_chunk" } else { "oversized" };
                if !self.rep.violations.iter().any(|v| v.rule == "chunk_too_large") {
                    self.rep.violate("C14", "chunk_too_large", &[("shape", shape.into())], format!("chunk of {} bytes > MAX_CHUNK_SIZE {max}", c.value().len()));
                }
            }
            if c.name().0.to_vec() != data::expected_chunk_key(c.value()) {
                self.rep.violate("C14", "chunk_not_content_addressed", &[], "chunk address is not the sha3-256 of its content");
            }
        }
        self.rep.probe_n("chunks_produced", 1 + chunks.len() as u64);
        // encrypt() returns the chunks in the completion order of its (real) thread pool: the harness orders
        // them itself so that "chunk number n" means the same thing in every execution of a plan
        chunks.sort_by_key(|c| c.name().0);
        Some((dm, chunks))
    }

    /// Follow the data map levels with the harness's own loop over the held chunks.
    fn count_levels(&self, top: &Bytes) -> Option<usize> {
        #[derive(serde::Deserialize)]
        enum Level {
            First(self_encryption::DataMap),
            Additional(self_encryption::DataMap),
        }
        let mut bytes = top.to_vec();
        for n in 1..10 {
            let level: Level = rmp_serde::from_slice(&bytes).ok()?;
            let map = match level {
                Level::First(_) => return Some(n),
                Level::Additional(m) => m,
            };
            let mut chunks = vec![];
            for info in map.infos() {
                let value = self.held.get(&info.dst_hash.0.to_vec())?;
                chunks.push(self_encryption::EncryptedChunk { index: info.index, content: Bytes::from(chunk_payload(value)) });
            }
            let plain = self_encryption::decrypt_full_set(&map, &chunks).ok()?;
            let wrapped: Chunk = rmp_serde::from_slice(&plain).ok()?;
            bytes = wrapped.value().to_vec();
        }
        None
    }

    /// A further read of `addr` (data_get_public, or chunk_get when `chunk_only`) with every holder honest.
    async fn honest_read(&mut self, addr: xor_name::XorName, chunk_only: bool) -> Option<Result<Vec<u8>, String>> {
        let result = Arc::new(Mutex::new(None));
        let (client, res) = (self.client.clone(), result.clone());
        tokio::spawn(async move {
            let r = if chunk_only { client.chunk_get(addr).await.map(|c| c.value().to_vec()) } else { client.data_get_public(addr).await.map(|b| b.to_vec()) };
            *res.lock().unwrap() = Some(r.map_err(|e| format!("{e:?}")));
        });
        self.drive(result.clone(), &|w: &World, key: &[u8]| match w.held.get(key) {
            Some(v) => Answer::Found(v.clone()),
            None => Answer::NotFound,
        })
        .await;
        let got = result.lock().unwrap().clone();
        got
    }

    /// After a read that a fault or a byzantine holder made fail: the caller tries again and this time every holder
    /// answers honestly. The retry must return the data at the address (and nothing else).
    async fn retry_after_failed_read(&mut self, addr: xor_name::XorName, chunk_only: bool, want: &[u8], prop: &'static str, kind: &str) {
        self.rep.probe("retry_after_failed_read");
        let again = self.honest_read(addr, chunk_only).await;
        self.rep.log(format!("retry with honest holders -> {}", match &again { Some(Ok(b)) => format!("Ok({} bytes)", b.len()), Some(Err(_)) => "Err".into(), None => "stuck".into() }));
        match again {
            Some(Ok(bytes)) if bytes == want => self.rep.probe("retry_ok"),
            Some(Ok(bytes)) => {
                self.rep.violate(prop, "retry_returned_other_bytes", &[("first_attempt", kind.into())], format!("the first read failed ({kind}); the retry against honest holders returned Ok with {} bytes that are not the data at the requested address", bytes.len()));
            }
            Some(Err(e)) => {
                self.rep.violate("C14", "round_trip_failed", &[("after", "failed_read".into()), ("first_attempt", kind.into())], format!("the retry failed although every chunk was served honestly: {}", e.chars().take(160).collect::<String>()));
            }
            None => self.rep.violate(prop, "read_stuck", &[("fault", "retry".into())], "the retry never completed"),
        }
    }

    fn hold(&mut self, c: &Chunk) {
        self.held.insert(c.name().0.to_vec(), chunk_record_value(c.value()));
    }

    async fn run(&mut self) {
        let plan = self.plan;
        self.rep.log(format!("client sim: mode={} task={:?} small_chunk_build={} batch={}", plan.mode, plan.task, SMALL_CHUNK_BUILD, plan.batch));
        if std::env::var("CHUNK_DOWNLOAD_BATCH_SIZE").ok().and_then(|v| v.parse::<u8>().ok()) != Some(plan.batch) {
            self.rep.harness_error = Some(format!("plan generated under CHUNK_DOWNLOAD_BATCH_SIZE={} is executed by a process with another value", plan.batch));
            return;
        }
        if plan.batch == 0 {
            self.rep.fault("download_batch_size_zero");
        }
        match &plan.task {
            Task::RoundTrip { len, repetitive, nested, via, pre } => {
                let (via, pre) = (*via, *pre);
                let mut data = gen_data(plan.seed, *len, *repetitive);
                if *nested && *len >= 3 {
                    // the content to store is the serialised data map of another file, whose chunks the holders have
                    let Some((dm_y, chunks_y)) = self.encrypt_and_check(&data) else { return };
                    self.hold(&dm_y);
                    for c in &chunks_y {
                        self.hold(c);
                    }
                    // two legal payloads: the serialised data-map level itself, or the serialised chunk holding it
                    // (what a user gets from rmp_serde::to_vec(&DataMapChunk) when backing up a private data map,
                    // and exactly what an additional data-map level decrypts to)
                    data = if plan.seed % 2 == 0 {
                        self.rep.probe("content_is_a_serialised_data_map_chunk");
                        rmp_serde::to_vec(&dm_y).expect("serialise chunk")
                    } else {
                        self.rep.probe("content_is_a_serialised_data_map");
                        dm_y.value().to_vec()
                    };
                }
                let len = &data.len();
                let Some((dm, chunks)) = self.encrypt_and_check(&data) else { return };
                self.hold(&dm);
                for c in &chunks {
                    self.hold(c);
                }
                let n_chunks = chunks.len();
                let via_name = match via {
                    0 => "data_get_public",
                    1 => "data_get",
                    2 => "file_download_public",
                    3 => "file_download",
                    4 => "dir_download_public",
                    _ => "dir_download",
                };
                self.rep.probe(&format!("read_back_via_{via_name}"));
                // files a download has to produce: (absolute destination, expected bytes)
                let mut expect_files: Vec<(std::path::PathBuf, Vec<u8>)> = vec![];
                let result: Arc<Mutex<Option<Result<Vec<u8>, String>>>> = Arc::new(Mutex::new(None));
                let (client, addr, res) = (self.client.clone(), *dm.name(), result.clone());
                let private_map = |c: &Chunk| DataMapChunk::from_hex(&hex::encode(c.value())).expect("hex");
                if via >= 2 {
                    let n = RUN_COUNTER.fetch_add(1, std::sync::atomic::Ordering::SeqCst);
                    let root = std::path::PathBuf::from(format!("/dev/shm/antsim/{}/client-{n}", std::process::id()));
                    let _ = std::fs::remove_dir_all(&root);
                    self.dest_root = Some(root.clone());
                    self.file_mode = true;
                    let dest_dir = root.join("Down loads").join("sub");
                    let mut entries: Vec<(std::path::PathBuf, Vec<u8>, Chunk)> = vec![];
                    if via >= 4 {
                        // a directory: this file and two small ones, one of them nested deeper
                        entries.push((std::path::PathBuf::from("main.bin"), data.clone(), dm.clone()));
                        for (i, (rel, l)) in [("docs/a.txt", 700usize), ("docs/deep/b.dat", 3usize)].iter().enumerate() {
                            let d = gen_data(plan.seed ^ (0xa1 + i as u64), *l, false);
                            let Some((dm_i, chunks_i)) = self.encrypt_and_check(&d) else { return };
                            self.hold(&dm_i);
                            for c in &chunks_i {
                                self.hold(c);
                            }
                            entries.push((std::path::PathBuf::from(rel), d, dm_i));
                        }
                    } else {
                        entries.push((std::path::PathBuf::from("file.bin"), data.clone(), dm.clone()));
                    }
                    for (i, (rel, d, _)) in entries.iter().enumerate() {
                        let dest = dest_dir.join(rel);
                        // what is at the destination before the download (second file of a directory: always absent)
                        let before: Option<Vec<u8>> = match if i == 1 { 0 } else { pre } {
                            0 => None,
                            1 => Some(d.iter().map(|b| b ^ 0xff).chain([0xee; 17]).collect()),
                            2 => Some(d[..d.len() / 2].iter().map(|b| b ^ 0xff).collect()),
                            _ => Some(d.iter().map(|b| b ^ 0xff).collect()),
                        };
                        if let Some(b) = before {
                            self.rep.fault(match pre {
                                1 => "destination_holds_a_longer_file",
                                2 => "destination_holds_a_shorter_file",
                                _ => "destination_holds_a_file_of_the_same_length",
                            });
                            if let Some(parent) = dest.parent() {
                                let _ = std::fs::create_dir_all(parent);
                            }
                            if std::fs::write(&dest, b).is_err() {
                                self.rep.harness_error = Some("cannot prepare the download destination".into());
                                return;
                            }
                        }
                        expect_files.push((dest, d.clone()));
                    }
                    match via {
                        2 => {
                            let dest = dest_dir.join("file.bin");
                            tokio::spawn(async move {
                                let r = client.file_download_public(addr, dest).await;
                                *res.lock().unwrap() = Some(r.map(|_| vec![]).map_err(|e| format!("{e:?}")));
                            });
                        }
                        3 => {
                            let (dest, access) = (dest_dir.join("file.bin"), private_map(&dm));
                            tokio::spawn(async move {
                                let r = client.file_download(access, dest).await;
                                *res.lock().unwrap() = Some(r.map(|_| vec![]).map_err(|e| format!("{e:?}")));
                            });
                        }
                        4 => {
                            let mut archive = PublicArchive::new();
                            for (rel, d, dm_i) in &entries {
                                archive.add_file(rel.clone(), *dm_i.name(), Metadata { uploaded: 1_700_000_000, created: 1_600_000_000, modified: 1_650_000_000, size: d.len() as u64 });
                            }
                            let bytes = archive.to_bytes().expect("archive bytes");
                            let Some((dm_a, chunks_a)) = self.encrypt_and_check(&bytes) else { return };
                            self.hold(&dm_a);
                            for c in &chunks_a {
                                self.hold(c);
                            }
                            let (dest, a_addr) = (dest_dir.clone(), *dm_a.name());
                            tokio::spawn(async move {
                                let r = client.dir_download_public(a_addr, dest).await;
                                *res.lock().unwrap() = Some(r.map(|_| vec![]).map_err(|e| format!("{e:?}")));
                            });
                        }
                        _ => {
                            let mut archive = PrivateArchive::new();
                            for (rel, d, dm_i) in &entries {
                                archive.add_file(rel.clone(), private_map(dm_i), Metadata { uploaded: 1_700_000_000, created: 1_600_000_000, modified: 1_650_000_000, size: d.len() as u64 });
                            }
                            let bytes = archive.to_bytes().expect("archive bytes");
                            let Some((dm_a, chunks_a)) = self.encrypt_and_check(&bytes) else { return };
                            for c in &chunks_a {
                                self.hold(c);
                            }
                            let (dest, access) = (dest_dir.clone(), private_map(&dm_a));
                            tokio::spawn(async move {
                                let r = client.dir_download(access, dest).await;
                                *res.lock().unwrap() = Some(r.map(|_| vec![]).map_err(|e| format!("{e:?}")));
                            });
                        }
                    }
                } else if via == 1 {
                    let access = private_map(&dm);
                    tokio::spawn(async move {
                        let r = client.data_get(access).await;
                        *res.lock().unwrap() = Some(r.map(|b| b.to_vec()).map_err(|e| format!("{e:?}")));
                    });
                } else {
                    tokio::spawn(async move {
                        let r = client.data_get_public(addr).await;
                        *res.lock().unwrap() = Some(r.map(|b| b.to_vec()).map_err(|e| format!("{e:?}")));
                    });
                }
                let done = self.drive(result.clone(), &|w: &World, key: &[u8]| match w.held.get(key) {
                    Some(v) => Answer::Found(v.clone()),
                    None => Answer::NotFound,
                }).await;
                self.file_mode = false;
                self.rep.ops += self.fetch_order.len() as u64;
                if via < 4 && self.fetch_order.len() > n_chunks + 1 {
                    self.rep.probe("fetched_more_than_once_or_extra_level");
                }
                let got = result.lock().unwrap().clone();
                self.rep.log(format!("round trip of {len} bytes via {via_name} (pre {pre}): {} chunks, {} fetches, done={done}", n_chunks, self.fetch_order.len()));
                let sig = [("small_chunk_build", SMALL_CHUNK_BUILD.to_string()), ("via", via_name.to_string())];
                match got {
                    Some(Ok(bytes)) if via < 2 => {
                        if bytes != data {
                            self.rep.violate("C14", "round_trip_differs", &[("small_chunk_build", SMALL_CHUNK_BUILD.to_string())], format!("{via_name} returned {} bytes that differ from the {} original bytes", bytes.len(), data.len()));
                        } else {
                            self.rep.probe("round_trip_ok");
                        }
                    }
                    Some(Ok(_)) => {
                        let mut all_ok = true;
                        for (dest, want) in &expect_files {
                            match std::fs::read(dest) {
                                Ok(have) if &have == want => {}
                                Ok(have) => {
                                    all_ok = false;
                                    let shape = if have.len() > want.len() && have[..want.len()] == want[..] { "original_bytes_followed_by_leftovers" } else if have.len() == want.len() { "same_length_other_bytes" } else { "other" };
                                    self.rep.violate("C14", "downloaded_file_differs", &[("via", via_name.to_string()), ("pre", pre.to_string()), ("shape", shape.into())], format!("{via_name} reported success, the destination holds {} bytes that are not the {} original bytes", have.len(), want.len()));
                                }
                                Err(e) => {
                                    all_ok = false;
                                    self.rep.violate("C14", "downloaded_file_missing", &[("via", via_name.to_string())], format!("{via_name} reported success but {:?} cannot be read: {e}", dest.file_name()));
                                }
                            }
                        }
                        if all_ok {
                            self.rep.probe("round_trip_ok");
                            self.rep.probe("download_to_file_ok");
                        }
                    }
                    Some(Err(e)) => {
                        self.rep.violate("C14", "round_trip_failed", &sig[..if via == 0 { 1 } else { 2 }], format!("{via_name} failed although every chunk was served: {e}"));
                    }
                    None if via >= 2 => {
                        // a minute of real time without the blocking pool finishing one file system call: the machine, not the code
                        self.rep.harness_error = Some(format!("{via_name}: the file system work on the blocking pool did not finish within a minute of real time"));
                    }
                    None => {
                        self.rep.violate("C14", "round_trip_stuck", &[], format!("{via_name} never completed although nothing is pending"));
                    }
                }
                // how many data-map levels did this input need (computed by the harness from the chunks)
                match self.count_levels(dm.value()) {
                    Some(n) => {
                        self.rep.probe(&format!("data_map_levels_{n}"));
                        if n > 1 {
                            self.rep.probe("multi_level_data_map");
                        }
                    }
                    None => self.rep.probe("data_map_levels_unknown"),
                }
                self.rep.state.write_u64(n_chunks as u64);
            }
            Task::DataWithFault { len, victim, how } => {
                let data = gen_data(plan.seed, (*len).max(3), false);
                let Some((dm, chunks)) = self.encrypt_and_check(&data) else { return };
                self.hold(&dm);
                for c in &chunks {
                    self.hold(c);
                }
                let mut keys: Vec<Vec<u8>> = vec![dm.name().0.to_vec()];
                keys.extend(chunks.iter().map(|c| c.name().0.to_vec()));
                // how 8: the holder answers the public address with the (valid) data-map chunk of ANOTHER file,
                // whose chunks are all available too
                let other_file_dm = if *how == 8 {
                    let data2 = gen_data(plan.seed ^ 0xd2d2, (*len).max(3) / 2 + 700, false);
                    let Some((dm2, chunks2)) = self.encrypt_and_check(&data2) else { return };
                    for c in &chunks2 {
                        self.hold(c);
                    }
                    Some(chunk_record_value(dm2.value()))
                } else {
                    None
                };
                let victim = if *how == 8 { &0u32 } else { victim };
                let vkey = keys[*victim as usize % keys.len()].clone();
                let other = keys[(*victim as usize + 1) % keys.len()].clone();
                let foreign = chunk_record_value(&Bytes::from(gen_data(plan.seed ^ 0xf0f0, 900, false)));
                let substitute: Answer = match how {
                    0 => Answer::NotFound,
                    1 => Answer::Timeout,
                    2 if other != vkey => Answer::Found(self.held[&other].clone()),
                    2 | 3 => Answer::Found(foreign),
                    6 => {
                        // another valid chunk of the same data, returned under ITS OWN key
                        let (k2, v2) = if other != vkey { (other.clone(), self.held[&other].clone()) } else { (data::expected_chunk_key(&chunk_payload(&foreign)), foreign.clone()) };
                        Answer::FoundUnderKey(k2, v2)
                    }
                    4 => {
                        let right = Chunk::new(Bytes::from(chunk_payload(&self.held[&vkey])));
                        Answer::Found(try_serialize_record(&right, RecordKind::Scratchpad).expect("ser").to_vec())
                    }
                    7 => Answer::Found(labelled_chunk_value(&vkey, &chunk_payload(&foreign))),
                    8 => Answer::Found(other_file_dm.clone().expect("built above")),
                    _ => {
                        let mut v = self.held[&vkey][..3].to_vec();
                        v.extend_from_slice(&[0xc1, 0xc1, 0xc1]);
                        Answer::Found(v)
                    }
                };
                let kind = match how {
                    0 => "holder_says_not_found",
                    1 => "query_timeout",
                    2 => "other_valid_chunk_substituted",
                    3 => "foreign_chunk_substituted",
                    4 => "wrong_record_kind",
                    6 => "other_chunk_returned_under_its_own_key",
                    7 => "other_content_labelled_with_the_requested_address",
                    8 => "data_map_chunk_of_another_file",
                    _ => "undecodable_bytes",
                };
                self.rep.fault(kind);
                let sub = Arc::new(Mutex::new(Some(substitute)));
                let result = Arc::new(Mutex::new(None));
                let (client, addr, res) = (self.client.clone(), *dm.name(), result.clone());
                tokio::spawn(async move {
                    let r = client.data_get_public(addr).await;
                    *res.lock().unwrap() = Some(r.map(|b| b.to_vec()).map_err(|e| format!("{e:?}")));
                });
                let vk = vkey.clone();
                let sub2 = sub.clone();
                self.drive(result.clone(), &move |w: &World, key: &[u8]| {
                    if key == vk.as_slice() {
                        if let Some(a) = sub2.lock().unwrap().take() {
                            return a;
                        }
                    }
                    match w.held.get(key) {
                        Some(v) => Answer::Found(v.clone()),
                        None => Answer::NotFound,
                    }
                }).await;
                self.rep.ops += self.fetch_order.len() as u64;
                let got = result.lock().unwrap().clone();
                let victim_fetched = sub.lock().unwrap().is_none();
                self.rep.log(format!("read of {} bytes with {kind} at chunk #{} (fetched={victim_fetched}) -> {}", data.len(), *victim as usize % keys.len(), match &got { Some(Ok(b)) => format!("Ok({} bytes)", b.len()), Some(Err(_)) => "Err".into(), None => "stuck".into() }));
                let prop = if *how < 2 { "C14" } else { "C15" };
                match got {
                    Some(Ok(bytes)) if victim_fetched => {
                        if bytes != data {
                            self.rep.violate(prop, if *how < 2 { "failed_fetch_returned_other_bytes" } else { "substituted_content_returned" }, &[("fault", kind.into()), ("victim", if *victim as usize % keys.len() == 0 { "data_map_chunk".into() } else { "data_chunk".to_string() })], format!("a holder answered with {kind}; data_get_public returned Ok with {} bytes that are not the data at the requested address", bytes.len()));
                        } else if *how < 2 {
                            self.rep.violate("C14", "read_succeeded_without_chunk", &[("fault", kind.into())], "a chunk was unavailable but the read succeeded");
                        } else {
                            self.rep.probe("substitute_ignored_read_ok");
                        }
                    }
                    Some(Ok(bytes)) => {
                        if bytes != data {
                            self.rep.violate("C14", "round_trip_differs", &[], "returned bytes differ");
                        }
                    }
                    Some(Err(_)) => {
                        self.rep.probe("read_failed_cleanly");
                        if plan.seed % 2 == 0 {
                            let want = data.clone();
                            self.retry_after_failed_read(*dm.name(), false, &want, prop, kind).await;
                        }
                    }
                    None => self.rep.violate(prop, "read_stuck", &[("fault", kind.into())], "the read never completed"),
                }
            }
            Task::ChunkGet { len, how } => {
                let content = gen_data(plan.seed, (*len).max(1), false);
                let chunk = Chunk::new(Bytes::from(content));
                self.hold(&chunk);
                let key = chunk.name().0.to_vec();
                let other = Chunk::new(Bytes::from(gen_data(plan.seed ^ 0x55, 700, false)));
                let kind = match how {
                    2 | 3 => "other_valid_chunk_substituted",
                    4 => "wrong_record_kind",
                    6 => "other_chunk_returned_under_its_own_key",
                    7 => "other_content_labelled_with_the_requested_address",
                    _ => "undecodable_bytes",
                };
                self.rep.fault(kind);
                let other_key = other.name().0.to_vec();
                let under_own_key = *how == 6;
                let value = match how {
                    6 => chunk_record_value(other.value()),
                    2 | 3 => chunk_record_value(other.value()),
                    4 => try_serialize_record(&chunk, RecordKind::Scratchpad).expect("ser").to_vec(),
                    7 => labelled_chunk_value(&key, other.value()),
                    _ => {
                        let mut v = self.held[&key][..3].to_vec();
                        v.extend_from_slice(&[0xc1, 0xc1]);
                        v
                    }
                };
                let result = Arc::new(Mutex::new(None));
                let (client, addr, res) = (self.client.clone(), *chunk.name(), result.clone());
                tokio::spawn(async move {
                    let r = client.chunk_get(addr).await;
                    *res.lock().unwrap() = Some(r.map(|c| c.value().to_vec()).map_err(|e| format!("{e:?}")));
                });
                self.drive(result.clone(), &move |_w: &World, _key: &[u8]| {
                    if under_own_key {
                        Answer::FoundUnderKey(other_key.clone(), value.clone())
                    } else {
                        Answer::Found(value.clone())
                    }
                }).await;
                self.rep.ops += 3;
                let got = result.lock().unwrap().clone();
                self.rep.log(format!("chunk_get with {kind} -> {}", match &got { Some(Ok(b)) => format!("Ok({} bytes)", b.len()), Some(Err(_)) => "Err".into(), None => "stuck".into() }));
                if let Some(Ok(bytes)) = got {
                    if data::expected_chunk_key(&bytes) != key {
                        self.rep.violate("C15", "chunk_not_matching_requested_address", &[("fault", kind.into())], format!("chunk_get(addr) returned Ok with {} bytes whose hash is not addr", bytes.len()));
                    }
                } else {
                    self.rep.probe("read_failed_cleanly");
                    if plan.seed % 2 == 0 {
                        let want = chunk.value().to_vec();
                        self.retry_after_failed_read(*chunk.name(), true, &want, "C15", kind).await;
                    }
                }
            }
            Task::Vault { replies, finish } => {
                let owner = data::bls_key(plan.seed, 1);
                let stranger = data::bls_key(plan.seed, 2);
                let other_owner = data::bls_key(plan.seed, 3);
                let mut pads: Vec<(u8, Vec<u8>, bool, u64, Vec<u8>)> = vec![]; // (peer, record value, authentic, counter, plaintext)
                // a pad is identified by (counter, form, variant): holders replying with the same identity return
                // byte-identical records (so a version can reach the read's quorum), form / 8 = variant
                let mut built: BTreeMap<(u8, u8), (Vec<u8>, bool, u64, Vec<u8>)> = BTreeMap::new();
                for (peer, counter, form) in replies.iter() {
                    let (f, variant) = (*form % 8, *form / 8);
                    let entry = built.entry((*counter, *form)).or_insert_with(|| {
                        let plain = format!("vault content c{counter} f{f} v{variant}").into_bytes();
                        let (pad, authentic) = match f {
                            0 => (data::scratchpad(&owner, &stranger, *counter as u64, &plain, PadForm::Valid), true),
                            1 => (data::scratchpad(&owner, &stranger, *counter as u64, &plain, PadForm::Unsigned), false),
                            2 => (data::scratchpad(&owner, &stranger, *counter as u64, &plain, PadForm::ForeignSigner), false),
                            3 => (data::scratchpad(&owner, &stranger, *counter as u64 + 1, &plain, PadForm::InflatedCounter), false),
                            5 => (data::scratchpad(&owner, &stranger, *counter as u64, &plain, PadForm::SubstitutedContent), false),
                            6 => (data::scratchpad(&owner, &stranger, *counter as u64, &plain, PadForm::ByteSwappedCounter), false),
                            _ => (data::scratchpad(&other_owner, &stranger, *counter as u64, &plain, PadForm::Valid), false),
                        };
                        // what the owner would read if the pad were accepted
                        let readable = pad.decrypt_data(&owner).map(|b| b.to_vec()).unwrap_or(plain);
                        (data::scratchpad_value(&pad), authentic, pad.count(), readable)
                    });
                    self.rep.fault(match f {
                        0 => "valid_pad_delivered",
                        1 => "unsigned_pad",
                        2 => "pad_signed_by_other_key",
                        3 => "pad_with_inflated_counter",
                        5 => "pad_with_substituted_content",
                        6 => "pad_with_byte_swapped_counter",
                        _ => "pad_of_other_owner",
                    });
                    pads.push((*peer % 8, entry.0.clone(), entry.1, entry.2, entry.3.clone()));
                }
                let result = Arc::new(Mutex::new(None));
                let (client, sk, res) = (self.client.clone(), owner.clone(), result.clone());
                tokio::spawn(async move {
                    let r = client.fetch_and_decrypt_vault(&sk).await;
                    *res.lock().unwrap() = Some(r.map(|(b, _)| b.to_vec()).map_err(|e| format!("{e:?}")));
                });
                // let the query start
                for _ in 0..50 {
                    self.drain().await;
                    if !self.open.is_empty() {
                        break;
                    }
                    let gates = hooks::gates_pending();
                    let Some(g) = gates.first() else { break };
                    hooks::gate_open(g.id);
                }
                let key = data::expected_owner_key(&owner.public_key());
                let mut completed_by_quorum = false;
                if let Some((id, _)) = self.open.pop() {
                    // only replies that arrive while the read is still open are "received"
                    let mut received = vec![];
                    for pad in &pads {
                        let (peer, value) = (pad.0, pad.1.clone());
                        if !self.driver.verif_pending_get_record().iter().any(|p| p.query_id == id) {
                            self.rep.probe("reply_after_the_read_completed");
                            break;
                        }
                        received.push(pad.clone());
                        let rec = Record { key: RecordKey::new(&key), value, publisher: None, expires: None };
                        self.feed(id, QueryResult::GetRecord(Ok(kad::GetRecordOk::FoundRecord(PeerRecord { peer: Some(self.peers[peer as usize]), record: rec }))), false);
                        self.drain().await;
                    }
                    if received.iter().map(|p| &p.1).collect::<HashSet<_>>().len() < received.len() {
                        self.rep.probe("vault_identical_copies_from_several_holders");
                    }
                    pads = received;
                    completed_by_quorum = !self.driver.verif_pending_get_record().iter().any(|p| p.query_id == id);
                    let rk = RecordKey::new(&key);
                    let term = match finish % 4 {
                        0 => QueryResult::GetRecord(Ok(kad::GetRecordOk::FinishedWithNoAdditionalRecord { cache_candidates: Default::default() })),
                        1 => QueryResult::GetRecord(Err(kad::GetRecordError::NotFound { key: rk, closest_peers: vec![] })),
                        2 => QueryResult::GetRecord(Err(kad::GetRecordError::QuorumFailed { key: rk, records: vec![], quorum: NonZeroUsize::new(1).unwrap() })),
                        _ => QueryResult::GetRecord(Err(kad::GetRecordError::Timeout { key: rk })),
                    };
                    self.feed(id, term, true);
                    self.drain().await;
                } else {
                    self.rep.harness_error = Some("vault query never started".to_string());
                    return;
                }
                self.rep.ops += 2 + pads.len() as u64;
                let got = result.lock().unwrap().clone();
                let best = pads.iter().filter(|p| p.2).map(|p| p.3).max();
                self.rep.log(format!("vault read with {} replies (best authentic counter {best:?}) -> {}", pads.len(), match &got { Some(Ok(b)) => format!("Ok({})", String::from_utf8_lossy(b)), Some(Err(_)) => "Err".into(), None => "stuck".into() }));
                match got {
                    Some(Ok(bytes)) => {
                        let source = pads.iter().find(|p| p.4 == bytes);
                        match (source, best) {
                            (Some(p), Some(b)) if p.2 && p.3 == b => self.rep.probe("vault_ok_highest_authentic"),
                            (Some(p), _) if !p.2 => {
                                self.rep.violate("C15", "vault_unauthenticated_pad_returned", &[("path", if pads.iter().filter(|q| q.1 == p.1).map(|q| q.0).collect::<HashSet<_>>().len() >= 3 { "quorum".into() } else { "split".to_string() })], "fetch_and_decrypt_vault returned the content of a pad that is not validly signed by the owner");
                            }
                            (Some(p), Some(b)) => {
                                self.rep.violate("C15", "vault_not_highest_authentic_version", &[], format!("returned the authentic pad with counter {} although counter {b} was delivered", p.3));
                            }
                            (None, None) => {
                                self.rep.violate("C15", "vault_unauthenticated_pad_returned", &[("path", "no_authentic_version_delivered".into())], "no validly signed pad of the owner was delivered but fetch_and_decrypt_vault returned Ok");
                            }
                            _ => {
                                self.rep.violate("C15", "vault_unknown_content_returned", &[], "returned content that no delivered pad carries");
                            }
                        }
                    }
                    Some(Err(e)) => {
                        self.rep.probe("read_failed_cleanly");
                        // invalid versions are discarded, they do not displace an authentic one: when the read ended
                        // in a resolution of the received versions (a version reached the quorum, or the query
                        // finished with several versions) and an authentic version was among them, the read succeeds
                        let distinct = pads.iter().map(|p| &p.1).collect::<HashSet<_>>().len();
                        let resolved = completed_by_quorum || (finish % 4 == 0 && distinct >= 2);
                        if resolved && best.is_some() {
                            self.rep.violate(
                                "C15",
                                "vault_read_failed_although_authentic_version_received",
                                &[("ended", if completed_by_quorum { "quorum".into() } else { "finished_split".to_string() })],
                                format!("an authentic pad (counter {:?}) was among the {distinct} versions received, yet the read failed: {}", best, e.chars().take(120).collect::<String>()),
                            );
                        }
                    }
                    None => self.rep.violate("C15", "read_stuck", &[("fault", "vault".into())], "the vault read never completed after the terminal event"),
                }
            }
        }
    }
}

/// What a holder can send if a chunk travelled as (address, content) instead of content only: other content
/// labelled with the requested address. With the shipped encoding (content only, address recomputed) these
/// bytes do not even decode as a chunk.
fn labelled_chunk_value(requested: &[u8], content: &[u8]) -> Vec<u8> {
    #[derive(serde::Serialize)]
    struct Labelled {
        address: ant_protocol::storage::ChunkAddress,
        value: Bytes,
    }
    let mut x = [0u8; 32];
    x.copy_from_slice(&requested[..32]);
    let l = Labelled { address: ant_protocol::storage::ChunkAddress::new(xor_name::XorName(x)), value: Bytes::copy_from_slice(content) };
    try_serialize_record(&l, RecordKind::Chunk).expect("ser").to_vec()
}

/// payload bytes of a serialised chunk record (skips the 3-byte header and the msgpack bin prefix by re-parsing)
fn chunk_payload(value: &[u8]) -> Vec<u8> {
    let rec = Record { key: RecordKey::new(&[0u8; 32]), value: value.to_vec(), publisher: None, expires: None };
    ant_protocol::storage::try_deserialize_record::<Chunk>(&rec)
        .map(|c| c.value().to_vec())
        .unwrap_or_default()
}

/// Ok(true) if the data-map chunk holds an `Additional` level (enum variant index 1)
fn rmp_level(bytes: &Bytes) -> Result<bool, ()> {
    // DataMapLevel is serialised by rmp_serde as a one-entry map {variant_index|name: value}
    // variant First = 0, Additional = 1; look at the first bytes only
    let b = bytes.as_ref();
    if b.len() < 3 {
        return Err(());
    }
    // 0x81 (fixmap 1) then either a positive fixint index or a fixstr name
    if b[0] == 0x81 {
        if b[1] == 0x01 {
            return Ok(true);
        }
        if b[1] == 0x00 {
            return Ok(false);
        }
        if b[1] & 0xe0 == 0xa0 {
            let n = (b[1] & 0x1f) as usize;
            let name = &b[2..(2 + n).min(b.len())];
            return Ok(name == b"Additional");
        }
    }
    Err(())
}
