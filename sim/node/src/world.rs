//! Executor and oracles of the `node` sim.

use crate::{Delivery, Pay, Plan, Step};
use ant_evm::{ProofOfPayment, QuoteHash, RewardsAddress};
use ant_networking::verif as nhooks;
use ant_networking::NetworkEvent;
use ant_protocol::messages::{Query, QueryResponse, Request, Response};
use ant_protocol::storage::{try_deserialize_record, RecordHeader, RecordKind, Scratchpad, Transaction};
use ant_protocol::NetworkAddress;
use ant_registers::{RegisterOp, SignedRegister};
use bytes::Bytes;
use evmlib::verif as ledger;
use libp2p::identity::Keypair;
use libp2p::kad::store::RecordStore;
use libp2p::kad::{self, Record, RecordKey};
use libp2p::PeerId;
use simkit::rt::settle;
use simkit::RunReport;
use simnode::data::{self, PadForm, QuoteSig};
use simnode::host::{peer_addr, NodeHost};
use std::collections::{BTreeMap, BTreeSet, HashMap, HashSet};
use std::path::PathBuf;
use std::sync::atomic::{AtomicU64, Ordering};
use std::sync::{Arc, Mutex};
use std::time::Duration;

static RUN_COUNTER: AtomicU64 = AtomicU64::new(0);

struct RunDir(PathBuf);
impl Drop for RunDir {
    fn drop(&mut self) {
        let _ = std::fs::remove_dir_all(&self.0);
    }
}

#[derive(Clone, Debug)]
enum Stored {
    Chunk(Vec<u8>),
    Pad(Box<Scratchpad>),
    Txs(BTreeSet<Transaction>),
    Reg(Box<SignedRegister>),
}

#[derive(Clone, Debug)]
enum Decision {
    /// must be refused, nothing changes; `why` = (property, rule, failed condition)
    Reject { prop: &'static str, rule: &'static str, why: String },
    /// nothing changes, whatever the call returns
    NoChange,
    /// the key must afterwards hold this state
    Store(Stored),
    /// unchanged or this state (an update of a held record carried by an upload whose payment is invalid)
    Either(Stored),
    /// scratchpads delivered concurrently: any of the valid pads with the highest counter
    AnyOf(Vec<Stored>),
    /// the key holds a record of ANOTHER kind (the kinds share one key space: a register's key is also the key
    /// of the chunk whose content is meta ++ owner key; a scratchpad and a transaction set of one owner share a
    /// key): whatever the call returns, the held record stays
    KeepOtherKind { held: &'static str },
}

struct InFlight {
    n: usize,
    d: Delivery,
    presented_key: Vec<u8>,
    true_key: Vec<u8>,
    decision: Decision,
    result: Arc<Mutex<Option<Result<(), String>>>>,
    pay_ok: Option<bool>,
    notified_before: u64,
    /// the proof of payment the delivery carried
    proof: Option<ProofOfPayment>,
}

struct World<'a> {
    /// node instances stopped by a restart (kept, never driven again)
    zombies: Vec<NodeHost>,
    rewards_addr: RewardsAddress,
    plan: &'a Plan,
    rep: RunReport,
    host: NodeHost,
    peers: Vec<(Keypair, PeerId)>,
    /// indices into `peers`: among the node's K closest / not
    close: Vec<usize>,
    far: Vec<usize>,
    /// indices into `peers`: in the routing table / left it
    members: Vec<usize>,
    gone: Vec<usize>,
    unknown: Keypair,
    stranger_node: Keypair,
    pad_owners: Vec<bls::SecretKey>,
    tx_owners: Vec<bls::SecretKey>,
    reg_owners: Vec<bls::SecretKey>,
    /// proof and address of the last fully valid paid upload that was accepted
    last_good_proof: Option<(ProofOfPayment, Vec<u8>)>,
    /// the proof built by the last call of `build`
    last_built_proof: Option<ProofOfPayment>,
    writer: bls::SecretKey,
    stranger: bls::SecretKey,
    rewards: RewardsAddress,
    model: BTreeMap<Vec<u8>, Stored>,
    inflight: Vec<InFlight>,
    chain: HashMap<QuoteHash, bool>,
    rpc_fail: HashSet<QuoteHash>,
    slow_quotes: HashSet<QuoteHash>,
    /// the quote hashes of every proof presented so far, in proof order
    proof_hashes: Vec<Vec<QuoteHash>>,
    holder_data: HashMap<(PeerId, Vec<u8>), Vec<u8>>,
    delivered: usize,
    /// highest scratchpad counter ever observed stored, per key
    pad_high: BTreeMap<Vec<u8>, u64>,
}

pub fn execute(plan: &Plan, entropy: u64) -> RunReport {
    simkit::rt::block_on(entropy, async move {
        let n = RUN_COUNTER.fetch_add(1, Ordering::SeqCst);
        let root = PathBuf::from(format!("/dev/shm/antsim/{}/node-{n}", std::process::id()));
        let _guard = RunDir(root.clone());
        nhooks::gates_install();
        ledger::ledger_install();
        let mut rep = RunReport::default();
        let rewards = RewardsAddress::from([0x11u8; 20]);
        let host = match NodeHost::build(0, root, data::ed_key(plan.seed, 0), if plan.capacity == 0 { None } else { Some(plan.capacity) }, if plan.cache == 0 { None } else { Some(plan.cache) }, rewards) {
            Ok(h) => h,
            Err(e) => {
                rep.harness_error = Some(e);
                return rep;
            }
        };
        let mut w = World::new(plan, rep, host, rewards);
        w.run().await;
        nhooks::gates_uninstall();
        ledger::ledger_uninstall();
        w.rep
    })
}

fn kind_name(k: u8) -> &'static str {
    match k {
        0 => "chunk",
        1 => "scratchpad",
        2 => "transaction",
        _ => "register",
    }
}

impl<'a> World<'a> {
    fn new(plan: &'a Plan, rep: RunReport, host: NodeHost, rewards: RewardsAddress) -> Self {
        let s = plan.seed;
        World {
            zombies: vec![],
            rewards_addr: rewards,
            plan,
            rep,
            host,
            peers: vec![],
            close: vec![],
            far: vec![],
            members: vec![],
            gone: vec![],
            unknown: data::ed_key(s, 9_000),
            stranger_node: data::ed_key(s, 9_001),
            pad_owners: (0..2).map(|i| data::bls_key(s, 100 + i)).collect(),
            // colliding runs: the transaction sets belong to the scratchpad owners (same record keys)
            tx_owners: (0..2).map(|i| data::bls_key(s, if plan.collide { 100 } else { 200 } + i)).collect(),
            reg_owners: (0..2)
                .map(|i| if i == 0 && plan.big_registers { data::big_register_owner() } else { data::bls_key(s, 300 + i) })
                .collect(),
            last_good_proof: None,
            last_built_proof: None,
            writer: data::bls_key(s, 400),
            stranger: data::bls_key(s, 401),
            rewards,
            model: BTreeMap::new(),
            inflight: vec![],
            chain: HashMap::new(),
            rpc_fail: HashSet::new(),
            slow_quotes: HashSet::new(),
            proof_hashes: vec![],
            holder_data: HashMap::new(),
            delivered: 0,
            pad_high: BTreeMap::new(),
        }
    }

    fn setup_peers(&mut self) {
        let me = self.host.peer.to_bytes();
        let mut inserted = vec![];
        for i in 0..self.plan.n_peers {
            let kp = data::ed_key(self.plan.seed, 1 + i as u64);
            let pid = kp.public().to_peer_id();
            // the routing table may refuse a peer (full bucket): only inserted peers are known to the node
            if self.host.driver.verif_add_peer(pid, peer_addr(i, &pid)) {
                inserted.push(i);
            } else {
                self.rep.probe("peer_refused_by_routing_table");
            }
            self.peers.push((kp, pid));
        }
        // independent view of who is among the K closest: self + the 19 routing-table peers nearest by the
        // harness's own XOR distance. The code's own answer is only compared with it, never used to classify.
        self.members = inserted.clone();
        self.classify_peers();
    }

    /// close / far from the harness's own metric over the current members of the routing table
    fn classify_peers(&mut self) {
        let me = self.host.peer.to_bytes();
        self.close.clear();
        self.far.clear();
        let mut order: Vec<usize> = self.members.clone();
        order.sort_by_key(|i| data::xor_distance(&me, &self.peers[*i].1.to_bytes()));
        let real_close: HashSet<PeerId> = self.host.driver.verif_closest_k_local_peers().into_iter().collect();
        for (rank, i) in order.iter().enumerate() {
            let is_close = rank < 19;
            if is_close != real_close.contains(&self.peers[*i].1) {
                self.rep.probe("closeness_model_differs_from_routing_table");
            }
            if is_close {
                self.close.push(*i);
            } else {
                self.far.push(*i);
            }
        }
    }

    // ------------------------------------------------------------------ building deliveries

    fn reg_meta(who: u8) -> [u8; 32] {
        let mut m = [7u8; 32];
        m[0] = who;
        m
    }

    fn reg_base(&self, who: u8) -> SignedRegister {
        let owner = &self.reg_owners[who as usize % 2];
        let writers = if who % 2 == 1 { vec![self.writer.public_key()] } else { vec![] };
        data::base_register(owner, Self::reg_meta(who % 2), &writers, self.plan.open_registers)
    }

    fn true_key(&self, d: &Delivery) -> Vec<u8> {
        match d.kind {
            0 => data::expected_chunk_key(&self.chunk_content(d.who)),
            1 => data::expected_owner_key(&self.pad_owners[d.who as usize % 2].public_key()),
            2 => data::expected_owner_key(&self.tx_owners[d.who as usize % 2].public_key()),
            _ => data::expected_register_key(&Self::reg_meta(d.who % 2), &self.reg_owners[d.who as usize % 2].public_key()),
        }
    }

    fn chunk_content(&self, who: u8) -> Vec<u8> {
        if self.plan.collide && who % 3 == 0 {
            // the chunk whose address is the address of register 0
            let mut c = Self::reg_meta(0).to_vec();
            c.extend_from_slice(&self.reg_owners[0].public_key().to_bytes());
            return c;
        }
        let mut c = format!("antsim chunk {} of seed {}", who % 3, self.plan.seed).into_bytes();
        c.resize(64 + (who as usize % 3) * 17, 0xab);
        c
    }

    fn presented_key(&self, d: &Delivery) -> Vec<u8> {
        match d.key_mode {
            0 => self.true_key(d),
            1 => {
                let mut o = d.clone();
                o.who = d.who.wrapping_add(1);
                self.true_key(&o)
            }
            _ => data::seed_bytes(self.plan.seed, "random-key", self.delivered as u64).to_vec(),
        }
    }

    fn pay_conditions(&self, p: &Pay) -> Result<(), &'static str> {
        if p.sigs.iter().any(|s| *s != 0) {
            return Err("quote_signature");
        }
        if p.bogus_payee.is_some() {
            return Err("undecodable_payee_with_unsigned_quote");
        }
        if p.self_pos.is_none() {
            return Err("not_a_payee");
        }
        if p.far.is_some() {
            return Err("payee_not_close");
        }
        if p.age.is_some() {
            return Err("quote_expired");
        }
        if p.rpc_error {
            return Err("rpc_error");
        }
        if p.chain.iter().any(|c| *c != 0) {
            return Err("not_paid_on_chain");
        }
        if p.other_addr {
            return Err("quote_for_other_address");
        }
        if p.zero_content {
            return Err("quote_for_zero_address");
        }
        Ok(())
    }

    fn build_proof(&mut self, p: &Pay, key: &[u8]) -> ProofOfPayment {
        let n = p.n as usize;
        let mut content = [0u8; 32];
        content.copy_from_slice(&key[..32]);
        let mut other_content = content;
        other_content[0] ^= 0xff;
        let mut quotes = vec![];
        let mut close_iter = self.close.clone().into_iter();
        // the far payee is never this node itself
        let far = p.far.map(|(fi, how)| {
            if p.self_pos == Some(fi) {
                ((fi + 1) % p.n, how)
            } else {
                (fi, how)
            }
        });
        for i in 0..n {
            let is_self = p.self_pos == Some(i as u8);
            let (kp, claimed): (Keypair, PeerId) = if is_self {
                (self.host.keypair.clone(), self.host.peer)
            } else if let Some((fi, how)) = far {
                if fi as usize == i {
                    if how == 2 && !self.gone.is_empty() {
                        let (k, pid) = &self.peers[self.gone[i % self.gone.len()]];
                        self.rep.fault("payee_has_left_the_routing_table");
                        (k.clone(), *pid)
                    } else if how == 0 && !self.far.is_empty() {
                        let (k, pid) = &self.peers[self.far[i % self.far.len()]];
                        (k.clone(), *pid)
                    } else {
                        (self.unknown.clone(), self.unknown.public().to_peer_id())
                    }
                } else {
                    let (k, pid) = &self.peers[close_iter.next().unwrap_or(0)];
                    (k.clone(), *pid)
                }
            } else {
                let (k, pid) = &self.peers[close_iter.next().unwrap_or(0)];
                (k.clone(), *pid)
            };
            let age = match p.age {
                Some((ai, how)) if ai as usize == i => {
                    if how == 1 { 3600 + 900 } else { -900 }
                }
                _ => 90,
            };
            let sform = p.sigs.get(i).copied().unwrap_or(0);
            let sig = match sform {
                0 | 4 | 5 => QuoteSig::Valid,
                1 => QuoteSig::Forged,
                2 => QuoteSig::OtherKey,
                _ => QuoteSig::OtherNodesQuote,
            };
            let c = if is_self && p.zero_content { [0u8; 32] } else if is_self && p.other_addr { other_content } else { content };
            // forms 4 / 5: the node signs (and the uploader pays) a quote for another address / two hours ago; the
            // uploader then rewrites that field. The signature was made over other bytes: by construction it does not
            // cover the quote that is presented, and what was paid on chain is the quote as signed.
            let (c_signed, age_signed) = match sform {
                4 => (other_content, age),
                5 => (c, 7200),
                _ => (c, age),
            };
            let mut q = data::quote(&kp, &self.stranger_node, c_signed, age_signed, self.rewards, sig, self.delivered as u64 * 8 + i as u64);
            if i < 3 {
                self.chain.insert(q.hash(), p.chain[i] == 0);
            }
            match sform {
                4 => {
                    q.content = xor_name::XorName(c);
                    self.rep.fault("quote_content_rewritten_after_signing");
                }
                5 => {
                    q.timestamp = std::time::SystemTime::now() - std::time::Duration::from_secs(90);
                    self.rep.fault("quote_timestamp_rewritten_after_signing");
                }
                _ => {}
            }
            if i < 3 {
                if p.rpc_error {
                    self.rpc_fail.insert(q.hash());
                }
                if p.slow {
                    self.slow_quotes.insert(q.hash());
                }
            }
            quotes.push((claimed, q));
        }
        let bogus = p.bogus_payee.map(|b| if p.self_pos == Some(b) { (b + 1) % p.n } else { b });
        self.proof_hashes.push(quotes.iter().map(|(_, q)| q.hash()).collect());
        let raw = quotes
            .into_iter()
            .enumerate()
            .map(|(i, (pid, mut q))| {
                if Some(i as u8) == bogus {
                    // nobody signed this quote and its payee id is garbage
                    q.signature = vec![7u8; 64];
                    (data::undecodable_payee(i as u8), q)
                } else {
                    (ant_evm::EncodedPeerId::from(pid), q)
                }
            })
            .collect();
        data::proof_raw(raw)
    }

    /// Build the presented record and decide, from the statement alone, what must happen.
    fn build(&mut self, d: &Delivery, concurrent_peers: &[Stored]) -> (Record, Decision, Option<bool>) {
        let true_key = self.true_key(d);
        let presented = self.presented_key(d);
        let mismatch = presented != true_key;
        let prior = self.model.get(&true_key).cloned();
        // a proof that was paid, verified and credited for ANOTHER address, presented again unchanged
        let reused: Option<ProofOfPayment> = match (&d.pay, &self.last_good_proof) {
            (Some(p), Some((proof, k0))) if p.reuse && *k0 != true_key => Some(proof.clone()),
            _ => None,
        };
        let pay_ok = d.pay.as_ref().map(|p| if reused.is_some() { Err("proof_of_an_earlier_upload_reused") } else { self.pay_conditions(p) });
        let proof = match (&d.pay, reused) {
            (Some(_), Some(r)) => {
                self.proof_hashes.push(r.peer_quotes.iter().map(|(_, q)| q.hash()).collect());
                self.rep.probe("proof_of_an_earlier_upload_presented_for_other_data");
                Some(r)
            }
            (Some(p), None) => Some(self.build_proof(p, &true_key)),
            _ => None,
        };
        self.last_built_proof = proof.clone();
        let kind = d.kind;
        let replicated = d.entry == 2;
        let uid = self.delivered as u32;

        // ---- content object, value bytes and the content-level rule
        let (value, content_rule): (Vec<u8>, Decision) = match kind {
            0 => {
                let c = self.chunk_content(d.who);
                let v = match &proof {
                    Some(p) => data::chunk_paid_value(&c, p),
                    None => data::chunk_value(&c),
                };
                let rule = if prior.is_some() { Decision::NoChange } else { Decision::Store(Stored::Chunk(c)) };
                (v, rule)
            }
            1 => {
                let owner = self.pad_owners[d.who as usize % 2].clone();
                let form = match d.form {
                    0 => PadForm::Valid,
                    1 => PadForm::Unsigned,
                    2 => PadForm::ForeignSigner,
                    3 => PadForm::InflatedCounter,
                    _ => PadForm::SubstitutedContent,
                };
                let mut tag = format!("pad-data-{uid}").into_bytes();
                if self.plan.big_pads {
                    tag.resize(1024 * 1024 + 4096, 0x5a);
                }
                let pad = data::scratchpad(&owner, &self.stranger, d.counter, &tag, form);
                let v = match &proof {
                    Some(p) => data::scratchpad_paid_value(&pad, p),
                    None => data::scratchpad_value(&pad),
                };
                let prior_counter = match &prior {
                    Some(Stored::Pad(p)) => Some(p.count()),
                    _ => None,
                };
                let valid = form == PadForm::Valid;
                let higher = prior_counter.map(|c| pad.count() > c).unwrap_or(true);
                let rule = if valid && higher {
                    Decision::Store(Stored::Pad(Box::new(pad)))
                } else {
                    Decision::Reject {
                        prop: "C07",
                        rule: "invalid_or_stale_scratchpad_stored",
                        why: if !valid { format!("form={form:?}") } else { "counter_not_higher".into() },
                    }
                };
                (v, rule)
            }
            2 => {
                let owner = self.tx_owners[d.who as usize % 2].clone();
                let other_owner = self.tx_owners[(d.who as usize + 1) % 2].clone();
                let txs: Vec<Transaction> = d
                    .items
                    .iter()
                    .map(|(id, flag)| match flag {
                        // a validly signed transaction that belongs to another address
                        2 => data::transaction(&other_owner, &self.stranger, *id, true),
                        // validly signed by the owner, then one signed field altered
                        3 => data::tampered_transaction(&owner, &self.stranger, *id, (*id as u8).wrapping_add(uid as u8)),
                        _ => data::transaction(&owner, &self.stranger, *id, *flag == 1),
                    })
                    .collect();
                let v = match &proof {
                    Some(p) => data::transaction_paid_value(&txs[0], p),
                    None => data::transactions_value(&txs),
                };
                let considered: Vec<(Transaction, bool)> = if proof.is_some() {
                    vec![(txs[0].clone(), d.items[0].1 == 1)]
                } else {
                    txs.iter().cloned().zip(d.items.iter().map(|i| i.1 == 1)).collect()
                };
                let mut set = match &prior {
                    Some(Stored::Txs(s)) => s.clone(),
                    _ => BTreeSet::new(),
                };
                let before = set.len();
                let mut any_valid = false;
                for (t, ok) in considered {
                    if ok {
                        any_valid = true;
                        set.insert(t);
                    }
                }
                let rule = if !any_valid {
                    Decision::NoChange
                } else if set.len() == before && prior.is_some() {
                    Decision::NoChange
                } else {
                    Decision::Store(Stored::Txs(set))
                };
                (v, rule)
            }
            _ => {
                let base = self.reg_base(d.who);
                // an open register admits every signer (and checks no signature); a foreign-address op never fits
                let open = self.plan.open_registers;
                let listed_writer_ok = d.who % 2 == 1 || open;
                let mut all_permitted = true;
                let foreign_base = data::base_register(&self.reg_owners[d.who as usize % 2], [0x66u8; 32], &[], open);
                let ops: Vec<RegisterOp> = d
                    .items
                    .iter()
                    .map(|(id, signer)| {
                        let sk = match signer {
                            0 => self.reg_owners[d.who as usize % 2].clone(),
                            1 => {
                                if !listed_writer_ok {
                                    all_permitted = false;
                                }
                                self.writer.clone()
                            }
                            5 => {
                                // validly signed by the owner, but written for another register of the same owner
                                all_permitted = false;
                                return data::register_op(&foreign_base, *id, &self.reg_owners[d.who as usize % 2]);
                            }
                            7 => {
                                // genuinely signed by the owner for another register, re-addressed to this one
                                if !open {
                                    all_permitted = false;
                                }
                                return data::readdressed_register_op(&foreign_base, &base, *id, &self.reg_owners[d.who as usize % 2]);
                            }
                            3 | 4 => {
                                // an op that names a permitted source but carries the stranger's signature
                                if !open {
                                    all_permitted = false;
                                }
                                let named = if *signer == 3 { self.reg_owners[d.who as usize % 2].clone() } else { self.writer.clone() };
                                return data::forged_register_op(&base, *id, &named, &self.stranger);
                            }
                            _ => {
                                if !open {
                                    all_permitted = false;
                                }
                                self.stranger.clone()
                            }
                        };
                        // in big-register runs the entries of a delivery's own ops sort after nearly all ops of the
                        // shared block (ops are ordered by entry bytes): what is new in a delivery sits at the END of
                        // its op set
                        let n = if self.plan.big_registers && d.who % 2 == 0 { 0xF0 + *id } else { *id };
                        data::register_op(&base, n, &sk)
                    })
                    .collect();
                let mut ops = ops;
                if self.plan.big_registers && d.who % 2 == 0 {
                    // a share of the owner's pre-signed block: deliveries overlap in most of it and differ in the tail,
                    // so two of them hold more than half the entry limit each while their union stays below it
                    let n = 560 + 8 * (d.counter as u32 % 6);
                    ops.extend(data::big_block(&base, n));
                    self.rep.probe("big_register_delivered");
                }
                // 6: another owner-signed base for the same address; only meaningful against a held register
                let other_base = d.items.iter().any(|i| i.1 == 6) && matches!(&prior, Some(Stored::Reg(_)));
                // 8: a base signed for another label, re-labelled to this register's address
                let relabelled = !other_base && d.items.iter().any(|i| i.1 == 8);
                let reg = if relabelled {
                    let mut v = serde_json::to_value(&foreign_base).expect("register to json");
                    v["register"]["address"] = serde_json::to_value(base.address()).expect("address to json");
                    let forged: SignedRegister = serde_json::from_value(v).expect("register from json");
                    assert!(forged.address() == base.address());
                    all_permitted = false;
                    self.rep.fault("register_base_signed_for_another_label");
                    let own_ops: Vec<RegisterOp> = d.items.iter().map(|(id, _)| data::register_op(&base, 700 + *id, &self.reg_owners[d.who as usize % 2])).collect();
                    data::register_with_ops(&forged, &own_ops)
                } else if other_base {
                    let owner = self.reg_owners[d.who as usize % 2].clone();
                    let b2 = data::base_register(&owner, Self::reg_meta(d.who % 2), &[self.stranger.public_key()], false);
                    let ops2: Vec<RegisterOp> = d.items.iter().map(|(id, _)| data::register_op(&b2, 500 + *id, &self.stranger)).collect();
                    assert!(b2.address() == base.address());
                    all_permitted = false;
                    self.rep.probe("register_on_other_base_delivered_to_held_register");
                    data::register_with_ops(&b2, &ops2)
                } else {
                    data::register_with_ops(&base, &ops)
                };
                let v = match &proof {
                    Some(p) => data::register_paid_value(&reg, p),
                    None => data::register_value(&reg),
                };
                let rule = if other_base {
                    Decision::Reject {
                        prop: "C07",
                        rule: "register_with_unpermitted_op_stored",
                        // the lagging-index finding: a held register whose first write is not yet acknowledged is
                        // not "present" for validate_and_store_register, whatever arrives then replaces it
                        why: if self.host.store().verif_contains(&RecordKey::new(&true_key)) {
                            "other_base_same_address".into()
                        } else {
                            "other_base_same_address_while_held_copy_unindexed".into()
                        },
                    }
                } else if relabelled {
                    Decision::Reject {
                        prop: "C04",
                        rule: "register_stored_on_a_base_the_owner_signed_for_another_label",
                        why: "relabelled_base".into(),
                    }
                } else if !all_permitted {
                    Decision::Reject {
                        prop: "C07",
                        rule: "register_with_unpermitted_op_stored",
                        why: "unpermitted_signer".into(),
                    }
                } else {
                    let merged_ops: BTreeSet<RegisterOp> = match &prior {
                        Some(Stored::Reg(r)) => r.ops().iter().cloned().chain(ops.iter().cloned()).collect(),
                        _ => ops.iter().cloned().collect(),
                    };
                    let unchanged = matches!(&prior, Some(Stored::Reg(r)) if *r.ops() == merged_ops);
                    if unchanged {
                        Decision::NoChange
                    } else {
                        let ops_vec: Vec<RegisterOp> = merged_ops.into_iter().collect();
                        Decision::Store(Stored::Reg(Box::new(data::register_with_ops(&base, &ops_vec))))
                    }
                };
                (v, rule)
            }
        };

        // ---- mangling (C04): unparseable / oversized values are refused
        let (value, mangled) = match d.mangle {
            1 => {
                let mut v = value;
                v.truncate(v.len().min(2));
                (v, true)
            }
            2 if d.entry == 1 => {
                let mut v = value;
                v.resize(ant_networking::MAX_PACKET_SIZE + 16, 0);
                (v, true)
            }
            4 if d.entry == 1 => {
                let mut v = value;
                v.resize(ant_networking::MAX_PACKET_SIZE, 0);
                (v, true)
            }
            3 if kind == 0 && proof.is_none() => {
                // the same chunk in another (valid) msgpack encoding: a 32-bit length prefix and a trailing byte;
                // the node must store its own canonical encoding, whatever the holder sent
                let canon = value;
                let body = &canon[2..];
                let data: &[u8] = match body[0] {
                    0xc4 => &body[2..],
                    0xc5 => &body[3..],
                    0xc6 => &body[5..],
                    _ => &body[0..0],
                };
                if data.is_empty() {
                    (canon, false)
                } else {
                    let mut v = canon[..2].to_vec();
                    v.push(0xc6);
                    v.extend_from_slice(&(data.len() as u32).to_be_bytes());
                    v.extend_from_slice(data);
                    v.push(0x00);
                    self.rep.fault("chunk_in_non_canonical_encoding");
                    (v, false)
                }
            }
            _ => (value, false),
        };

        // ---- the entry / payment / key rules of the statement wrap the content rule
        let kindn = kind_name(kind).to_string();
        let decision = if mangled {
            Decision::Reject { prop: "C04", rule: "unparseable_or_oversized_accepted", why: format!("mangle={}", d.mangle) }
        } else if mismatch {
            Decision::Reject { prop: "C04", rule: "record_accepted_under_foreign_key", why: format!("key_mode={} kind={kindn}", d.key_mode) }
        } else if replicated {
            content_rule
        } else if let Some(pay_ok) = &pay_ok {
            match (pay_ok, prior.is_some(), kind) {
                (Ok(()), _, _) => content_rule,
                (Err(_), true, 0) => Decision::NoChange,
                (Err(_), true, _) => match content_rule {
                    Decision::Store(s) => Decision::Either(s),
                    other => other,
                },
                (Err(why), false, _) => Decision::Reject {
                    prop: "C03",
                    rule: "stored_without_valid_payment",
                    why: why.to_string(),
                },
            }
        } else {
            // unpaid client upload
            match (kind, prior.is_some()) {
                (1, true) | (3, true) => content_rule,
                (_, true) => Decision::NoChange,
                (_, false) => Decision::Reject {
                    prop: "C03",
                    rule: "unpaid_new_data_stored",
                    why: format!("kind={kindn}"),
                },
            }
        };
        // a record of another kind held at the same key is never replaced
        let prior_kind = prior.as_ref().map(|p| match p {
            Stored::Chunk(_) => 0u8,
            Stored::Pad(_) => 1,
            Stored::Txs(_) => 2,
            Stored::Reg(_) => 3,
        });
        let decision = match prior_kind {
            Some(pk) if pk != kind && !mangled && !mismatch => Decision::KeepOtherKind { held: kind_name(pk) },
            _ => decision,
        };
        // concurrent scratchpad deliveries: any valid pad with the highest counter may win
        let decision = match (&decision, kind) {
            (Decision::Store(Stored::Pad(p)), 1) if !concurrent_peers.is_empty() => {
                let mut cands: Vec<Stored> = concurrent_peers.to_vec();
                cands.push(Stored::Pad(p.clone()));
                Decision::AnyOf(cands)
            }
            _ => decision,
        };
        let record = data::rec(&presented, value);
        (record, decision, pay_ok.map(|r| r.is_ok()))
    }

    // ------------------------------------------------------------------ running things

    fn serve_outbound(&mut self, idx: usize) {
        let out = self.host.outbox.remove(idx);
        match &out.req {
            Request::Query(Query::GetReplicatedRecord { key, .. }) => {
                let k = key.to_record_key().to_vec();
                let resp = match self.holder_data.get(&(out.to, k)) {
                    Some(v) => QueryResponse::GetReplicatedRecord(Ok((
                        NetworkAddress::from_peer(out.to),
                        Bytes::from(v.clone()),
                    ))),
                    None => QueryResponse::GetReplicatedRecord(Err(
                        ant_protocol::error::Error::ReplicatedRecordNotFound {
                            holder: Box::new(NetworkAddress::from_peer(out.to)),
                            key: Box::new(key.clone()),
                        },
                    )),
                };
                self.rep.log(format!("  transport: holder answers #{}", out.id));
                if let Some(tx) = out.reply {
                    let _ = tx.send(Ok(Response::Query(resp)));
                }
            }
            other => {
                let text: String = format!("{other:?}").chars().take(100).collect();
                self.rep.log(format!("  transport: dropped #{} {text}", out.id));
                self.rep.probe("outbound_request_dropped");
            }
        }
    }

    fn serve_ledger(&mut self, req: &ledger::LedgerRequest) {
        // "the payment is confirmed by the payment contract": the contract must be asked about the proof's
        // payments, all of them, not about a part of them
        let asked: Vec<QuoteHash> = req.payments.iter().map(|(h, _)| *h).collect();
        if !self.proof_hashes.iter().any(|p| *p == asked) && !self.rep.violations.iter().any(|v| v.rule == "contract_asked_about_other_payments_than_the_proof") {
            let part_of = self.proof_hashes.iter().find(|p| asked.iter().all(|h| p.contains(h))).map(|p| p.len());
            self.rep.violate(
                "C03",
                "contract_asked_about_other_payments_than_the_proof",
                &[("asked", asked.len().to_string()), ("proof", part_of.map(|n| n.to_string()).unwrap_or("none".into()))],
                format!("the node asked the payment contract about {} quote(s) while the proof it was given holds {:?}", asked.len(), part_of),
            );
        }
        let rpc_fail = req.payments.iter().any(|(h, _)| self.rpc_fail.contains(h));
        let reply = if rpc_fail {
            self.rep.fault("ledger_rpc_error");
            ledger::LedgerReply::RpcError
        } else {
            let mut res = [(QuoteHash::default(), ant_evm::Amount::ZERO, true); 3];
            for (i, (h, _)) in req.payments.iter().take(3).enumerate() {
                let paid = self.chain.get(h).copied().unwrap_or(false);
                if !paid {
                    self.rep.fault("ledger_says_not_paid");
                }
                res[i] = (*h, ant_evm::Amount::from(if paid { 1u64 } else { 0 }), paid);
            }
            ledger::LedgerReply::Results(res)
        };
        self.rep.log(format!("  ledger: reply to request #{}", req.id));
        ledger::ledger_reply(req.id, reply);
    }

    /// kad queries started by the node (replication fall-back) find nothing
    fn fail_pending_kad_queries(&mut self) {
        for p in self.host.driver.verif_pending_get_record() {
            let ev = kad::Event::OutboundQueryProgressed {
                id: p.query_id,
                result: kad::QueryResult::GetRecord(Err(kad::GetRecordError::NotFound {
                    key: p.key.clone(),
                    closest_peers: vec![],
                })),
                stats: kad::QueryStats::empty(),
                step: kad::ProgressStep {
                    count: std::num::NonZeroUsize::new(1).unwrap(),
                    last: true,
                },
            };
            let _ = self.host.driver.verif_handle_kad_event(ev);
            self.rep.probe("kad_get_answered_not_found");
        }
    }

    async fn drain(&mut self) {
        for _ in 0..1000 {
            settle().await;
            let mut log = vec![];
            let n = self.host.drain(&mut log);
            for l in log {
                self.rep.log(simnode::host::scrub(&l));
            }
            self.fail_pending_kad_queries();
            if n == 0 {
                break;
            }
        }
    }

    /// number of pending items of all kinds
    fn pending(&self) -> (Vec<nhooks::GateInfo>, Vec<ledger::LedgerRequest>, usize) {
        (nhooks::gates_pending(), ledger::ledger_pending(), self.host.outbox.len())
    }

    async fn run_item(&mut self, sel: u32) -> bool {
        let (gates, led, nout) = self.pending();
        let total = gates.len() + led.len() + nout;
        if total == 0 {
            return false;
        }
        let idx = if sel == u32::MAX { total - 1 } else { sel as usize % total };
        if idx != 0 {
            self.rep.nonfifo += 1;
        }
        self.rep.sched.write_u64(idx as u64);
        if idx < gates.len() {
            let g = &gates[idx];
            let detail: String = g.detail.replace(self.host.root.to_str().unwrap_or(""), "<root>").chars().take(140).collect();
            self.rep.log(simnode::host::scrub(&format!("run {} {detail}", g.site)));
            self.rep.sched.write_str(g.site);
            nhooks::gate_open(g.id);
        } else if idx < gates.len() + led.len() {
            let r = led[idx - gates.len()].clone();
            if r.payments.iter().any(|(h, _)| self.slow_quotes.contains(h)) {
                // a slow RPC endpoint: the answer arrives 15 simulated seconds after the question
                self.rep.fault("ledger_reply_delayed_15s");
                self.rep.log(format!("  ledger: request #{} answered after 15 s", r.id));
                simkit::rt::advance(Duration::from_secs(15)).await;
                self.rep.sim_time_ms += 15_000;
                self.drain().await;
            }
            if ledger::ledger_pending().iter().any(|p| p.id == r.id) {
                self.serve_ledger(&r);
            } else {
                self.rep.probe("ledger_request_abandoned_by_the_node");
            }
        } else {
            self.serve_outbound(idx - gates.len() - led.len());
        }
        self.drain().await;
        true
    }

    /// index of the first pending item that is not a held-back disk write
    fn first_runnable(&self, hold_writes: bool) -> Option<u32> {
        let (gates, led, nout) = self.pending();
        if !hold_writes {
            return if gates.len() + led.len() + nout > 0 { Some(0) } else { None };
        }
        for (i, g) in gates.iter().enumerate() {
            if g.site != "store.write" {
                return Some(i as u32);
            }
        }
        if led.len() + nout > 0 {
            return Some(gates.len() as u32);
        }
        None
    }

    async fn pump_fifo(&mut self) {
        self.pump(false).await
    }

    async fn pump(&mut self, hold_writes: bool) {
        for round in 0..40 {
            for _ in 0..100_000 {
                self.drain().await;
                let Some(sel) = self.first_runnable(hold_writes) else { break };
                if hold_writes && sel != 0 {
                    self.rep.probe("disk_write_held_back");
                }
                if !self.run_item(sel).await {
                    break;
                }
                self.check_reads_mid_flight();
            }
            // timers (the fresh-replication wait loop) fire only when the clock moves
            let alive = tokio::runtime::Handle::current().metrics().num_alive_tasks();
            if alive == 0 || round >= 14 {
                break;
            }
            simkit::rt::advance(Duration::from_millis(100)).await;
            self.rep.sim_time_ms += 100;
        }
    }

    // ------------------------------------------------------------------ oracles

    fn stored_equals(&self, got: &Record, want: &Stored) -> bool {
        match want {
            Stored::Chunk(c) => got.value == data::chunk_value(c),
            Stored::Pad(p) => got.value == data::scratchpad_value(p),
            Stored::Txs(set) => match try_deserialize_record::<Vec<Transaction>>(got) {
                Ok(v) => {
                    let is_kind = RecordHeader::from_record(got).map(|h| h.kind == RecordKind::Transaction).unwrap_or(false);
                    is_kind && v.iter().cloned().collect::<BTreeSet<_>>() == *set && v.len() == set.len()
                }
                Err(_) => false,
            },
            Stored::Reg(r) => match try_deserialize_record::<SignedRegister>(got) {
                Ok(g) => g.base_register() == r.base_register() && g.ops() == r.ops(),
                Err(_) => false,
            },
        }
    }

    fn read(&mut self, key: &[u8]) -> Option<Record> {
        self.host
            .store()
            .get(&RecordKey::new(&key))
            .map(|c| c.into_owned())
    }

    /// C04: between presentation and acceptance nothing unvalidated is readable.
    fn check_reads_mid_flight(&mut self) {
        if self.plan.mode != "sequential" {
            return;
        }
        let flights: Vec<(Vec<u8>, Vec<u8>, Decision, usize)> = self
            .inflight
            .iter()
            .map(|f| (f.presented_key.clone(), f.true_key.clone(), f.decision.clone(), f.n))
            .collect();
        for (pk, tk, dec, n) in flights {
            for key in [pk, tk] {
                if let Some(got) = self.read(&key) {
                    let prior_ok = self.model.get(&key).map(|s| self.stored_equals(&got, s)).unwrap_or(false);
                    let new_ok = match &dec {
                        Decision::Store(s) | Decision::Either(s) => self.stored_equals(&got, s),
                        Decision::AnyOf(v) => v.iter().any(|s| self.stored_equals(&got, s)),
                        _ => false,
                    };
                    if !prior_ok && !new_ok && !self.rep.violations.iter().any(|v| v.rule == "unvalidated_bytes_readable") {
                        self.rep.violate(
                            "C04",
                            "unvalidated_bytes_readable",
                            &[("delivery", format!("{n}"))],
                            format!("while delivery {n} was being processed a read returned {} bytes that are neither the prior nor the accepted state", got.value.len()),
                        );
                    }
                }
            }
        }
    }

    fn evaluate(&mut self, ctx: &str) {
        let flights: Vec<InFlight> = std::mem::take(&mut self.inflight);
        let concurrent = self.plan.mode == "concurrent";
        // 1. per delivery: result and store effect
        for f in &flights {
            let key = f.true_key.clone();
            let got = self.read(&key);
            let prior = self.model.get(&key).cloned();
            let result = f.result.lock().unwrap().clone();
            let kindn = kind_name(f.d.kind).to_string();
            let entry = f.d.entry.to_string();
            let same_as = |w: &World, s: &Option<Stored>| -> bool {
                match (s, &got) {
                    (None, None) => true,
                    (Some(s), Some(g)) => w.stored_equals(g, s),
                    _ => false,
                }
            };
            match &f.decision {
                Decision::Reject { prop, rule, why } => {
                    if !same_as(self, &prior) && !concurrent {
                        self.rep.violate(
                            prop,
                            rule,
                            &[("failed", why.clone()), ("kind", kindn.clone()), ("entry", entry.clone())],
                            format!("delivery {} ({kindn}, entry {entry}) must be refused ({why}) but the store changed at its address", f.n),
                        );
                    }
                    if let Some(Ok(())) = &result {
                        if *prop != "C07" && !concurrent {
                            // a refused presentation must be reported as an error to the uploader
                            self.rep.violate(
                                prop,
                                if *prop == "C04" { "mismatched_presentation_reported_ok" } else { "invalid_upload_reported_ok" },
                                &[("failed", why.clone()), ("kind", kindn.clone()), ("entry", entry.clone())],
                                format!("delivery {} ({kindn}) must be refused ({why}) but validate_and_store_record returned Ok", f.n),
                            );
                        }
                    }
                    // presented foreign key must stay untouched as well
                    if f.presented_key != f.true_key {
                        let gp = self.read(&f.presented_key);
                        let pp = self.model.get(&f.presented_key).cloned();
                        let okp = match (&pp, &gp) {
                            (None, None) => true,
                            (Some(s), Some(g)) => self.stored_equals(g, s),
                            _ => false,
                        };
                        if !okp {
                            self.rep.violate(
                                "C04",
                                "stored_under_presented_foreign_key",
                                &[("kind", kindn.clone()), ("entry", entry.clone())],
                                format!("delivery {} changed the record under the foreign key it was presented with", f.n),
                            );
                        }
                    }
                }
                Decision::NoChange => {
                    if !same_as(self, &prior) && !concurrent {
                        self.rep.violate(
                            "C07",
                            "state_changed_by_noop_delivery",
                            &[("kind", kindn.clone()), ("entry", entry.clone()), ("config", self.plan.mode.clone())],
                            format!("delivery {} ({kindn}) carries nothing new/valid but the stored record changed", f.n),
                        );
                    }
                }
                Decision::Store(s) => {
                    if concurrent {
                        self.model.insert(key.clone(), s.clone());
                    } else if same_as(self, &Some(s.clone())) {
                        self.model.insert(key.clone(), s.clone());
                        self.rep.probe("accepted_and_stored");
                    } else if same_as(self, &prior) && matches!(result, Some(Ok(()))) {
                        // the upload was acknowledged as stored, so it must be what the node now serves
                        self.rep.violate(
                            "C07",
                            "accepted_delivery_not_readable",
                            &[("kind", kindn.clone()), ("entry", entry.clone()), ("config", self.plan.mode.clone())],
                            format!("delivery {} ({kindn}) was accepted (Ok) and carries the newest valid version, but the node still serves the previous state", f.n),
                        );
                    } else if same_as(self, &prior) {
                        // C07: the stored set is the union of ALL validly signed items delivered, the stored pad the
                        // highest validly signed version delivered: a valid delivery of a mutable record that changes
                        // nothing breaks that clause. (C03/C04 do not oblige a node to take a chunk.)
                        self.rep.probe("valid_delivery_not_stored");
                        self.rep.log(format!("  note: delivery {} expected to be stored but the store is unchanged (result {result:?})", f.n));
                        if f.d.kind != 0 {
                            self.rep.violate(
                                "C07",
                                "valid_delivery_not_stored",
                                &[("kind", kindn.clone()), ("entry", entry.clone()), ("config", self.plan.mode.clone())],
                                format!("delivery {} ({kindn}, entry {entry}) carries validly signed content the node does not hold, but the stored record is unchanged (result {result:?})", f.n),
                            );
                        }
                    } else {
                        self.rep.violate(
                            "C07",
                            "stored_content_differs_from_model",
                            &[("kind", kindn.clone()), ("entry", entry.clone()), ("config", self.plan.mode.clone())],
                            format!("delivery {} ({kindn}): stored record is neither the previous state nor the expected merge", f.n),
                        );
                    }
                }
                Decision::KeepOtherKind { held } => {
                    if same_as(self, &prior) {
                        self.rep.probe("delivery_to_key_held_by_another_kind_changed_nothing");
                    } else {
                        let prop: &'static str = match self.plan.property.as_str() {
                            "C03" => "C03",
                            "C04" => "C04",
                            _ => "C07",
                        };
                        self.rep.violate(
                            prop,
                            "record_of_another_kind_replaced",
                            &[("kind", kindn.clone()), ("held", held.to_string()), ("entry", entry.clone())],
                            format!("delivery {} ({kindn}, entry {entry}) arrived at a key that holds a {held}; the held record must stay but the store changed", f.n),
                        );
                    }
                }
                Decision::Either(s) => {
                    if same_as(self, &Some(s.clone())) {
                        self.model.insert(key.clone(), s.clone());
                    } else if !same_as(self, &prior) && !concurrent {
                        self.rep.violate(
                            "C07",
                            "stored_content_differs_from_model",
                            &[("kind", kindn.clone()), ("entry", entry.clone()), ("config", self.plan.mode.clone())],
                            format!("delivery {} ({kindn}): stored record is neither the previous state nor the expected merge", f.n),
                        );
                    }
                }
                Decision::AnyOf(v) => {
                    // resolved below for the concurrent configuration
                    if let Some(s) = v.iter().find(|s| same_as(self, &Some((*s).clone()))) {
                        self.model.insert(key.clone(), s.clone());
                    }
                }
            }
            // payment notification only for fully valid payments
            if let Some(ok) = f.pay_ok {
                let notified = self.host.payments_notified > f.notified_before;
                if notified && !ok && !concurrent && flights.len() == 1 {
                    let why = f.d.pay.as_ref().and_then(|p| self.pay_conditions(p).err()).unwrap_or("?");
                    self.rep.violate(
                        "C03",
                        "invalid_payment_counted_as_received",
                        &[("failed", why.to_string()), ("kind", kindn.clone())],
                        format!("delivery {}: payment is not valid ({why}) but the node recorded a received payment", f.n),
                    );
                }
                if notified && ok {
                    self.rep.probe("payment_received_notified");
                    if let Some(p) = &f.proof {
                        self.last_good_proof = Some((p.clone(), f.true_key.clone()));
                    }
                }
            }
        }
        // 2. concurrent configuration: the final state is the order-independent merge
        if concurrent {
            let keys: BTreeSet<Vec<u8>> = flights.iter().map(|f| f.true_key.clone()).collect();
            for key in keys {
                let got = self.read(&key);
                let want = self.model.get(&key).cloned();
                let pads: Vec<Stored> = flights
                    .iter()
                    .filter(|f| f.true_key == key)
                    .filter_map(|f| match &f.decision {
                        Decision::AnyOf(v) => Some(v.clone()),
                        Decision::Store(s @ Stored::Pad(_)) => Some(vec![s.clone()]),
                        _ => None,
                    })
                    .flatten()
                    .collect();
                let ok = match (&want, &got) {
                    (None, None) => true,
                    (Some(s), Some(g)) => {
                        if let Stored::Pad(_) = s {
                            // highest valid counter among everything delivered (ties: any)
                            let mut best: u64 = match self.model.get(&key) { Some(Stored::Pad(p)) => p.count(), _ => 0 };
                            for p in &pads {
                                if let Stored::Pad(p) = p {
                                    best = best.max(p.count());
                                }
                            }
                            let cands: Vec<&Stored> = pads.iter().chain(std::iter::once(s)).filter(|c| matches!(c, Stored::Pad(p) if p.count() == best)).collect();
                            cands.iter().any(|c| self.stored_equals(g, c))
                        } else {
                            self.stored_equals(g, s)
                        }
                    }
                    _ => false,
                };
                if !ok {
                    let kindn = flights.iter().find(|f| f.true_key == key).map(|f| kind_name(f.d.kind)).unwrap_or("?");
                    let rule = match kindn {
                        "scratchpad" => "scratchpad.not_highest_valid_counter",
                        "transaction" => "transactions.not_union_of_delivered",
                        _ => "register.not_union_of_delivered_ops",
                    };
                    self.rep.violate(
                        "C07",
                        rule,
                        &[("config", "concurrent".into()), ("kind", kindn.to_string()), ("overlap", "same-key".into())],
                        format!("after overlapping deliveries to one {kindn} key the stored record is not the merge of everything validly delivered"),
                    );
                    // resynchronise the model with the store so the run can go on
                    if let Some(g) = &got {
                        match kindn {
                            "scratchpad" => {
                                if let Ok(p) = try_deserialize_record::<Scratchpad>(g) {
                                    self.model.insert(key.clone(), Stored::Pad(Box::new(p)));
                                }
                            }
                            "transaction" => {
                                if let Ok(v) = try_deserialize_record::<Vec<Transaction>>(g) {
                                    self.model.insert(key.clone(), Stored::Txs(v.into_iter().collect()));
                                }
                            }
                            _ => {
                                if let Ok(r) = try_deserialize_record::<SignedRegister>(g) {
                                    self.model.insert(key.clone(), Stored::Reg(Box::new(r)));
                                }
                            }
                        }
                    }
                }
            }
        }
        // 3. scratchpad counters never decrease, stored pads are valid and owned
        let pad_keys: Vec<Vec<u8>> = self.pad_owners.iter().map(|o| data::expected_owner_key(&o.public_key())).collect();
        for key in pad_keys {
            if let Some(g) = self.read(&key) {
                if let Ok(p) = try_deserialize_record::<Scratchpad>(&g) {
                    let high = self.pad_high.get(&key).copied().unwrap_or(0);
                    if p.count() < high {
                        self.rep.violate(
                            "C07",
                            "scratchpad.counter_regressed",
                            &[("config", self.plan.mode.clone())],
                            format!("stored scratchpad counter went from {high} to {}", p.count()),
                        );
                    }
                    self.pad_high.insert(key.clone(), p.count().max(high));
                    if !p.is_valid() {
                        self.rep.violate("C07", "scratchpad.invalid_signature_stored", &[("config", self.plan.mode.clone())], "a stored scratchpad does not verify".to_string());
                    }
                }
            }
        }
        // 4. C04: every key in the index is a key the model derived independently
        let index: Vec<Vec<u8>> = self.host.store().verif_index().into_iter().map(|(k, _, _)| k.to_vec()).collect();
        for k in index {
            if !self.model.contains_key(&k) {
                // only a violation if it is not explained by a violation already reported for this delivery
                if self.rep.violations.is_empty() {
                    self.rep.violate(
                        "C04",
                        "unexpected_key_in_store",
                        &[("ctx", ctx.into())],
                        format!("the store holds key {} which no accepted record derives", hex::encode(&k[..8.min(k.len())])),
                    );
                }
            }
        }
        for (k, s) in self.model.clone() {
            if let Some(g) = self.read(&k) {
                let _ = (g, s);
            }
        }
        let mut st = String::new();
        for (k, s) in &self.model {
            let tag = match s {
                Stored::Chunk(_) => "c".to_string(),
                Stored::Pad(p) => format!("p{}", p.count()),
                Stored::Txs(t) => format!("t{}", t.len()),
                Stored::Reg(r) => format!("r{}", r.ops().len()),
            };
            st.push_str(&hex::encode(&k[..4]));
            st.push_str(&tag);
        }
        self.rep.state.write_str(&st);
    }

    /// once everything has settled the store holds exactly the model's state for every key
    fn final_store_equals_model(&mut self) {
        if self.plan.mode == "concurrent" || !self.rep.violations.is_empty() {
            return;
        }
        for (k, want) in self.model.clone() {
            let got = self.read(&k);
            let ok = got.as_ref().map(|g| self.stored_equals(g, &want)).unwrap_or(false);
            if !ok {
                let kind = match want {
                    Stored::Chunk(_) => "chunk",
                    Stored::Pad(_) => "scratchpad",
                    Stored::Txs(_) => "transaction",
                    Stored::Reg(_) => "register",
                };
                self.rep.violate(
                    "C07",
                    "final_state_differs_from_model",
                    &[("kind", kind.into()), ("config", self.plan.mode.clone())],
                    format!("after everything settled the stored {kind} record is not what the accepted deliveries determine ({})", if got.is_some() { "other content" } else { "missing" }),
                );
                return;
            }
        }
    }

    async fn deliver(&mut self, d: &Delivery) {
        let n = self.delivered;
        self.delivered += 1;
        // pads already in flight to the same key (concurrent mode)
        let true_key = self.true_key(d);
        let peers: Vec<Stored> = self
            .inflight
            .iter()
            .filter(|f| f.true_key == true_key)
            .filter_map(|f| match &f.decision {
                Decision::Store(s @ Stored::Pad(_)) => Some(vec![s.clone()]),
                Decision::AnyOf(v) => Some(v.clone()),
                _ => None,
            })
            .flatten()
            .collect();
        let concurrent_peers = if self.plan.mode == "concurrent" { peers } else { vec![] };
        // in the concurrent configuration the content rule is evaluated against the model *including*
        // earlier in-flight deliveries (merges are order independent)
        if self.plan.mode == "concurrent" {
            let pending: Vec<(Vec<u8>, Decision)> = self.inflight.iter().map(|f| (f.true_key.clone(), f.decision.clone())).collect();
            for (k, dec) in pending {
                if let Decision::Store(s) = dec {
                    if !matches!(s, Stored::Pad(_)) {
                        self.model.insert(k, s);
                    }
                }
            }
        }
        let (record, decision, pay_ok) = self.build(d, &concurrent_peers);
        let presented_key = record.key.to_vec();
        let faulty = !matches!(decision, Decision::Store(_) | Decision::AnyOf(_));
        if let Some(p) = &d.pay {
            if let Err(c) = self.pay_conditions(p) {
                self.rep.fault(&format!("payment_condition_broken:{c}"));
            }
        }
        if d.key_mode != 0 {
            self.rep.fault("mismatched_key_presented");
        }
        if d.mangle != 0 {
            self.rep.fault(match d.mangle { 1 => "unparseable_value", 4 => "value_of_exactly_the_maximum_packet_size", _ => "oversized_value" });
        }
        if faulty && d.pay.is_none() && d.key_mode == 0 && d.mangle == 0 {
            self.rep.fault("stale_or_invalid_or_unpaid_delivery");
        }
        self.rep.sched.write_str(&format!("{:?}", (d.entry, d.kind, d.who, d.key_mode, d.mangle, d.form, d.counter)));
        self.rep.ops += 1;
        let result = Arc::new(Mutex::new(None));
        let summary = match &decision {
            Decision::Reject { prop, rule, why } => format!("must be refused [{prop} {rule}: {why}]"),
            Decision::NoChange => "no change expected".into(),
            Decision::Store(_) => "expected to be stored/merged".into(),
            Decision::Either(_) => "update of a held record with invalid payment: unchanged or merged".into(),
            Decision::AnyOf(v) => format!("one of {} concurrent pads", v.len()),
            Decision::KeepOtherKind { held } => format!("key holds a {held}: no change expected"),
        };
        self.rep.log(format!(
            "deliver #{n}: entry={} kind={} who={} paid={} key_mode={} mangle={} counter={} form={} items={:?} -> {summary}",
            d.entry, kind_name(d.kind), d.who, d.pay.is_some(), d.key_mode, d.mangle, d.counter, d.form, d.items
        ));
        self.inflight.push(InFlight {
            n,
            d: d.clone(),
            presented_key: presented_key.clone(),
            true_key,
            decision,
            result: result.clone(),
            pay_ok,
            notified_before: self.host.payments_notified,
            proof: self.last_built_proof.take(),
        });
        match d.entry {
            0 => {
                let node = self.host.node.clone();
                let res = result.clone();
                tokio::spawn(async move {
                    let r = node.validate_and_store_record(record).await;
                    *res.lock().unwrap() = Some(r.map_err(|e| e.to_string()));
                });
            }
            1 => {
                let oversized = record.value.len() >= ant_networking::MAX_PACKET_SIZE;
                let r = self.host.driver.verif_store_mut().put(record);
                self.rep.log(format!("  RecordStore::put -> {r:?}"));
                if oversized && r.is_ok() {
                    // "oversized ... ones are refused": a value that does not fit the network's maximum packet is
                    // turned away at the door, it is not handed on for validation
                    self.rep.violate("C04", "oversized_value_not_refused", &[("size", if d.mangle == 4 { "exactly_max_packet_size".into() } else { "above_max_packet_size".to_string() })], format!("RecordStore::put accepted a value of {} bytes (maximum packet size {})", if d.mangle == 4 { ant_networking::MAX_PACKET_SIZE } else { ant_networking::MAX_PACKET_SIZE + 16 }, ant_networking::MAX_PACKET_SIZE));
                }
            }
            _ => {
                let holder = self.peers[self.close[n % self.close.len().max(1)]].1;
                self.holder_data.insert((holder, presented_key.clone()), record.value.clone());
                self.host.node.handle_network_event(NetworkEvent::KeysToFetchForReplication(vec![(
                    holder,
                    RecordKey::new(&presented_key),
                )]));
            }
        }
        settle().await;
    }

    async fn run(&mut self) {
        self.setup_peers();
        if self.close.len() < 6 {
            self.rep.harness_error = Some("routing table too small".into());
            return;
        }
        self.drain().await;
        self.rep.log(format!("node sim: property={} mode={} peers={} close={} far={}", self.plan.property, self.plan.mode, self.peers.len(), self.close.len(), self.far.len()));
        let steps = self.plan.steps.clone();
        for step in &steps {
            if self.rep.harness_error.is_some() {
                break;
            }
            // stop at the first violation, except the recorded concurrent-update shapes after which the
            // model is resynchronised with the store
            let stop = self.rep.violations.iter().any(|v| v.signature.get("config").map(|c| c != "concurrent").unwrap_or(true));
            if stop {
                break;
            }
            self.rep.steps += 1;
            match step {
                Step::Deliver { d } => {
                    // sequential configuration: a delivery is fully processed before the next one
                    if self.plan.mode != "concurrent" && !self.inflight.is_empty() {
                        self.pump_fifo().await;
                        self.evaluate("implicit-settle");
                        if !self.rep.violations.is_empty() {
                            continue;
                        }
                    }
                    self.deliver(d).await
                }
                Step::Run { sel } => {
                    if !self.run_item(*sel).await {
                        self.rep.log("run: nothing pending");
                    }
                }
                Step::Restart => {
                    // C07, sequential configuration: a clean stop and restart from the node's directory; the stored
                    // mutable records must be exactly what the accepted deliveries determine (nothing regresses)
                    if self.plan.mode != "sequential" {
                        continue;
                    }
                    self.pump_fifo().await;
                    self.evaluate("before-restart");
                    if !self.rep.violations.is_empty() || !nhooks::gates_pending().is_empty() {
                        continue;
                    }
                    let (root, kp) = (self.host.root.clone(), self.host.keypair.clone());
                    match NodeHost::build(0, root, kp, if self.plan.capacity == 0 { None } else { Some(self.plan.capacity) }, if self.plan.cache == 0 { None } else { Some(self.plan.cache) }, self.rewards_addr) {
                        Ok(h) => {
                            let old = std::mem::replace(&mut self.host, h);
                            self.zombies.push(old);
                            for i in self.members.clone() {
                                let pid = self.peers[i].1;
                                self.host.driver.verif_add_peer(pid, peer_addr(i, &pid));
                            }
                            self.rep.fault("node_restarted");
                            self.rep.ops += 1;
                            self.rep.log("node restarted from its directory");
                            self.drain().await;
                            for (k, want) in self.model.clone() {
                                let got = self.read(&k);
                                let ok = got.as_ref().map(|g| self.stored_equals(g, &want)).unwrap_or(false);
                                if !ok {
                                    let kind = match want {
                                        Stored::Chunk(_) => "chunk",
                                        Stored::Pad(_) => "scratchpad",
                                        Stored::Txs(_) => "transaction",
                                        Stored::Reg(_) => "register",
                                    };
                                    self.rep.violate(
                                        "C07",
                                        "stored_state_regressed_over_restart",
                                        &[("kind", kind.into())],
                                        format!("after a clean restart the stored {kind} record is not what the accepted deliveries had determined ({})", if got.is_some() { "other content" } else { "missing" }),
                                    );
                                    break;
                                }
                            }
                        }
                        Err(e) => self.rep.harness_error = Some(format!("restart: {e}")),
                    }
                }
                Step::PeerLeaves { which } => {
                    if !self.inflight.is_empty() {
                        self.pump_fifo().await;
                        self.evaluate("implicit-settle");
                        if !self.rep.violations.is_empty() {
                            continue;
                        }
                    }
                    if self.close.len() <= 7 {
                        self.rep.log("peer leaves: too few close peers left");
                        continue;
                    }
                    let i = self.close[*which as usize % self.close.len()];
                    let pid = self.peers[i].1;
                    if !self.host.driver.verif_remove_peer(&pid) {
                        self.rep.harness_error = Some("peer to remove is not in the routing table".into());
                        continue;
                    }
                    self.members.retain(|m| *m != i);
                    self.gone.push(i);
                    self.classify_peers();
                    self.rep.fault("close_peer_left_the_routing_table");
                    self.rep.ops += 1;
                    self.rep.log(format!("peer #{i} leaves the routing table ({} close, {} far remain)", self.close.len(), self.far.len()));
                    self.drain().await;
                }
                Step::Settle => {
                    let hold = self.plan.mode == "lagging_writes";
                    self.pump(hold).await;
                    self.rep.log(if hold { "settle (disk writes held back)" } else { "settle" });
                    self.evaluate("settle");
                }
            }
        }
        if self.rep.violations.is_empty() && self.rep.harness_error.is_none() && (!self.inflight.is_empty() || self.plan.mode == "lagging_writes") {
            self.pump_fifo().await;
            self.evaluate("end");
            self.final_store_equals_model();
        }
    }
}
