//! sim `node`: one real Node + SwarmDriver + NodeRecordStore + routing table; the simulator plays the
//! clients, the holders, the payment contract, the transport and the task scheduler.
//! Serves C03 (payment conditions), C04 (address derived from content on every entry path) and
//! C07 (mutable records never regress; sequential and concurrent deliveries).

mod world;

use serde::{Deserialize, Serialize};
use simkit::{GenCtx, PropertySpec, Rng, RunReport, Sim, Tier};

/// The payment condition vector of a paid upload.
#[derive(Serialize, Deserialize, Clone, Debug, PartialEq)]
pub struct Pay {
    /// number of quotes (3 or 5)
    pub n: u8,
    /// position of this node among the payees; None = this node is not a payee
    pub self_pos: Option<u8>,
    /// per quote: 0 genuine signature, 1 forged bytes, 2 signed by another node's key
    pub sigs: Vec<u8>,
    /// a payee that is not among the node's K closest: (quote index, 0 = far routing-table peer, 1 = unknown peer)
    pub far: Option<(u8, u8)>,
    /// (quote index, 1 = expired, 2 = dated in the future)
    pub age: Option<(u8, u8)>,
    /// on-chain result of the first three quotes: 0 paid, 1 not paid
    pub chain: [u8; 3],
    pub rpc_error: bool,
    /// this node's own quote was issued for another address
    pub other_addr: bool,
    /// index of a quote whose claimed payee id does not decode to a peer id (and that nobody signed)
    #[serde(default)]
    pub bogus_payee: Option<u8>,
    /// the payment contract answers only after 15 simulated seconds (a slow RPC endpoint)
    #[serde(default)]
    pub slow: bool,
    /// this node's own quote was issued for the all-zero address (what a node signs when asked to quote for
    /// an address that is no data address)
    #[serde(default)]
    pub zero_content: bool,
    /// the upload carries, unchanged, the proof of payment of the last fully valid paid upload of this run that was
    /// for ANOTHER address (ignored when there is none): paid for, verified and credited once - for other data
    #[serde(default)]
    pub reuse: bool,
}

#[derive(Serialize, Deserialize, Clone, Debug, PartialEq)]
pub struct Delivery {
    /// 0 = validate_and_store_record called directly (result observable), 1 = RecordStore::put on the real
    /// store (kad inbound path), 2 = replication fetch from a simulated holder
    pub entry: u8,
    /// 0 chunk, 1 scratchpad, 2 transaction(s), 3 register
    pub kind: u8,
    /// content id (chunks) or owner index
    pub who: u8,
    pub pay: Option<Pay>,
    /// scratchpad: counter; others unused
    pub counter: u64,
    /// scratchpad form: 0 valid, 1 unsigned, 2 foreign signer, 3 inflated counter, 4 content substituted under the genuine signature
    pub form: u8,
    /// transactions: (id, valid?1:0); register ops: (id, signer: 0 owner, 1 listed writer, 2 stranger, 3 forged in the owner's name, 4 forged in the writer's name)
    pub items: Vec<(u32, u8)>,
    /// 0 honest key, 1 key of another record of the same kind, 2 random key
    pub key_mode: u8,
    /// 0 none, 1 unparseable value, 2 oversized value
    pub mangle: u8,
}

#[derive(Serialize, Deserialize, Clone, Debug, PartialEq)]
#[serde(tag = "t")]
pub enum Step {
    Deliver { d: Delivery },
    /// process the `sel`-th pending item (parked task, ledger request, outbound request)
    Run { sel: u32 },
    /// process everything in FIFO order, let timers fire, then compare the store with the model
    Settle,
    /// C07 sequential: clean stop and restart of the node from its directory
    Restart,
    /// routing-table churn: the `which`-th of the node's close peers leaves its routing table (the node no longer
    /// knows it); proofs naming it as payee afterwards name a peer the node does not know as close
    PeerLeaves { which: u8 },
}

#[derive(Serialize, Deserialize, Clone, Debug)]
pub struct Plan {
    pub property: String,
    pub mode: String,
    pub seed: u64,
    pub n_peers: usize,
    /// swarm knob: size of the record store's in-memory cache (0 = the default of 25); with 1 or 2 most reads come from disk
    #[serde(default)]
    pub cache: usize,
    /// swarm knob: record kinds collide on keys (transaction sets of the scratchpad owners; a chunk whose content
    /// is register 0's meta ++ owner key)
    #[serde(default)]
    pub collide: bool,
    /// swarm knob: the registers of this run are open to any writer (Permissions::AnyoneCanWrite)
    #[serde(default)]
    pub open_registers: bool,
    /// swarm knob: scratchpads carry more than 1 MiB of content
    #[serde(default)]
    pub big_pads: bool,
    /// swarm knob: register 0 belongs to the fixed big-register owner and every delivery of it carries a share of
    /// that owner's pre-signed block of ops (two deliveries together hold more than MAX_REG_NUM_ENTRIES/2 each)
    #[serde(default)]
    pub big_registers: bool,
    /// capacity of the node's record store (0 = the shipped default). 1 = a store that is full with its one record:
    /// every delivery of the run concerns that one record, so each update is an update of the farthest record held
    #[serde(default)]
    pub capacity: usize,
    pub steps: Vec<Step>,
}

pub struct NodeSim;

fn good_pay(rng: &mut Rng) -> Pay {
    let n = if rng.chance(1, 2) { 3 } else { 5 };
    Pay {
        n,
        self_pos: Some(rng.below(n as u64) as u8),
        sigs: vec![0; n as usize],
        far: None,
        age: None,
        chain: [0, 0, 0],
        rpc_error: false,
        other_addr: false,
        bogus_payee: None,
        slow: rng.chance(1, 6),
        zero_content: false,
        reuse: false,
    }
}

fn break_one(rng: &mut Rng, p: &mut Pay) {
    match rng.below(11) {
        9 => p.zero_content = true,
        8 => p.bogus_payee = Some(rng.below(p.n as u64) as u8),
        0 => {
            let i = rng.usize_below(p.n as usize);
            // 1 forged, 2 signed by another key, 3 a self-consistent quote of another node listed under this payee
            // 4 / 5: a genuine, paid quote with one field rewritten after signing - 4 the content address (signed for
            // another address, now naming the stored one; biased to this node's own quote), 5 the timestamp (signed two
            // hours ago, now dated recently)
            p.sigs[i] = 1 + rng.below(5) as u8;
            if p.sigs[i] == 4 && rng.chance(2, 3) {
                if let Some(sp) = p.self_pos {
                    p.sigs[i] = 0;
                    p.sigs[sp as usize] = 4;
                }
            }
        }
        1 => p.self_pos = None,
        // how: 0 a far routing-table peer, 1 an unknown peer, 2 a peer that has left the routing table (else unknown)
        2 => p.far = Some((rng.below(p.n as u64) as u8, rng.below(3) as u8)),
        3 => p.age = Some((rng.below(p.n as u64) as u8, 1)),
        4 => p.age = Some((rng.below(p.n as u64) as u8, 2)),
        5 => p.chain[rng.usize_below(3)] = 1,
        6 => p.rpc_error = true,
        7 => p.other_addr = true,
        _ => p.reuse = true,
    }
}

fn gen_delivery(rng: &mut Rng, prop: &str, mutable_only: bool, unpaid_bias: bool) -> Delivery {
    let kind = if mutable_only { 1 + rng.below(3) as u8 } else { rng.below(4) as u8 };
    let who = rng.below(2) as u8;
    let paid = if unpaid_bias { rng.chance(1, 5) } else { rng.chance(4, 5) };
    let pay = if paid {
        let mut p = good_pay(rng);
        if prop == "C03" {
            match rng.below(6) {
                0 => {}
                1..=4 => break_one(rng, &mut p),
                _ => {
                    break_one(rng, &mut p);
                    break_one(rng, &mut p);
                }
            }
        } else if rng.chance(1, 10) {
            break_one(rng, &mut p);
        }
        Some(p)
    } else {
        None
    };
    let entry = if pay.is_some() {
        if rng.chance(1, 4) { 1 } else { 0 }
    } else {
        *rng.pick(&[0u8, 0, 1, 2, 2])
    };
    let n_items = rng.urange(1, 3);
    let mut items: Vec<(u32, u8)> = vec![];
    for _ in 0..n_items {
        let id = rng.below(6) as u32;
        let flag = match kind {
            // transactions: 0 = invalid signature, 1 = valid, 2 = validly signed transaction of ANOTHER owner,
            // 3 = validly signed, then one signed field (output content / output key / parent / content) altered
            2 => match rng.below(12) { 0 => 0, 1 => 3, 2 | 3 => 2, _ => 1 },
            // register ops: 0 owner, 1 listed writer, 2 stranger, 3 / 4 = op NAMING the owner / the listed writer
            // as its source but signed by the stranger's key
            // 5 = validly signed op of the owner written for ANOTHER register (foreign address)
            // 6 = the whole delivery is a register on ANOTHER owner-signed base for the same address (its permissions
            // list the stranger as writer) carrying ops of the stranger: valid on its own, foreign to the held register
            // 7 = an op the owner signed for ANOTHER register, its address field rewritten to this one
            // 8 = the whole delivery sits on a base the owner signed for ANOTHER label, its address rewritten to this
            // register's (the owner never signed this label); the ops are the owner's genuine ops for this address
            _ => if rng.chance(1, 5) { 2 + rng.below(7) as u8 } else { rng.below(2) as u8 },
        };
        items.push((id, flag));
    }
    let key_mode = if prop == "C04" {
        *rng.pick(&[0u8, 0, 0, 1, 1, 2])
    } else if rng.chance(1, 25) {
        1 + rng.below(2) as u8
    } else {
        0
    };
    let mangle = if prop == "C04" && rng.chance(1, 10) {
        // 1 truncated, 2 oversized (kad put path), 3 the right content in a non-canonical encoding,
        // 4 a value of exactly the maximum packet size (kad put path): it cannot travel in one packet, the store's limit is exclusive
        match rng.below(8) { 0 => 2, 7 => 4, 1 | 2 => 3, _ => 1 }
    } else {
        0
    };
    // a transaction of the other owner presented under the other owner's key is not a mismatch:
    // keep foreign transactions for honest-key presentations only
    if kind == 2 && key_mode != 0 {
        for it in items.iter_mut() {
            if it.1 == 2 {
                it.1 = 1;
            }
        }
    }
    // the size limit is enforced where records arrive from the kad network: RecordStore::put
    let entry = if mangle == 2 || mangle == 4 { 1 } else { entry };
    let form = if rng.chance(1, 4) { 1 + rng.below(4) as u8 } else { 0 };
    Delivery {
        entry,
        kind,
        who,
        pay,
        // an unsigned pad also comes with counter 0: what Scratchpad::new yields before anything was signed
        counter: if form == 1 && rng.chance(1, 2) { 0 } else { rng.range(1, 6) },
        form,
        items,
        key_mode,
        mangle,
    }
}

impl Sim for NodeSim {
    type Plan = Plan;
    const NAME: &'static str = "node";

    fn properties() -> Vec<PropertySpec> {
        let assumptions = vec![
            "the simulator replaces SwarmDriver::run / Node::run as event loops and calls the real handlers; every Network call of the node is a parked task the simulator releases",
            "libp2p transport, kad query engine and the EVM JSON-RPC are stubs: the simulator delivers Request/Response values and answers verifyPayment through the guarded ledger shim",
            "quote timestamps are placed at least 10 minutes away from the expiry boundary, so the wall clock never decides",
            "the node runs with the shipped record cache size (25) and default capacity",
        ];
        vec![
            PropertySpec {
                id: "C03",
                level: "exploration",
                modes: vec!["sequential"],
                quick_runs: 2_500,
                thorough_runs: 60_000,
                rule: "One run = a seeded sequence of client uploads (all four kinds, paid and unpaid) to one real node with 24 simulated neighbours; each paid upload carries a payment condition vector (per-quote signature genuine/forged/other key, this node payee or not, a payee outside the K closest, a quote expired or future-dated, per-quote on-chain result, RPC failure, own quote issued for another address), mostly with exactly one condition broken. After each upload has been fully processed the store delta is compared with the statement. Non-trivial = >=3 operations and >=1 broken condition (counted as fault) or non-FIFO decision; distinct = distinct fingerprint of condition vectors and scheduling decisions.",
                assumptions: assumptions.clone(),
            },
            PropertySpec {
                id: "C04",
                level: "exploration",
                modes: vec!["sequential"],
                quick_runs: 2_500,
                thorough_runs: 60_000,
                rule: "One run = a seeded sequence of record presentations (honest key, key of another record of the same kind, random key; unparseable and oversized values) through the three entry paths (validate_and_store_record, RecordStore::put on the real store, replication fetch from a simulated holder). After each presentation the store is compared with a model that only ever holds records under independently derived keys (sha3-256 over content / owner / label+owner); reads between presentation and acceptance must not return unvalidated bytes. Non-trivial/distinct as C03 (a mismatched or mangled presentation counts as fault).",
                assumptions: assumptions.clone(),
            },
            PropertySpec {
                id: "C07",
                level: "exploration",
                modes: vec!["sequential", "concurrent", "lagging_writes"],
                quick_runs: 2_500,
                thorough_runs: 60_000,
                rule: "One run = a seeded sequence of paid uploads, unpaid updates and replicated copies of scratchpads (chosen counters, signers, signature validity), transaction sets and registers (chosen op sets and signers) to 1..2 owners per kind. Mode sequential: each delivery fully processed before the next, store compared with the monotone/union model after each. Mode concurrent: 2..3 deliveries to one key are in flight and the simulator interleaves the handling of their GetLocalRecord / RecordStoreHasKey / PutLocalRecord commands and disk writes in seeded order; the final state must equal the order-independent merge. Non-trivial = >=3 operations and (>=1 non-FIFO decision or >=1 invalid/stale delivery).",
                assumptions,
            },
        ]
    }

    fn generate(rng: &mut Rng, ctx: &GenCtx) -> Plan {
        let prop = ctx.property.as_str();
        let n_del = match ctx.tier {
            Tier::Quick => rng.urange(2, 8),
            Tier::Thorough => rng.urange(2, 14),
        };
        let mut steps = vec![];
        let mut collide = false;
        if ctx.mode == "concurrent" {
            // establish the records first (valid paid uploads), then overlapping updates
            let kind = 1 + rng.below(3) as u8;
            let who = rng.below(2) as u8;
            let mut first = gen_delivery(rng, prop, true, false);
            first.kind = kind;
            first.who = who;
            first.entry = 0;
            first.pay = Some(good_pay(rng));
            first.form = 0;
            first.key_mode = 0;
            first.mangle = 0;
            first.counter = rng.range(1, 3);
            for it in first.items.iter_mut() {
                it.1 = if kind == 2 { 1 } else { 0 };
            }
            steps.push(Step::Deliver { d: first });
            steps.push(Step::Settle);
            for _ in 0..rng.urange(1, 3) {
                let burst = rng.urange(2, 3);
                for _ in 0..burst {
                    let mut d = gen_delivery(rng, prop, true, true);
                    d.kind = kind;
                    d.who = who;
                    d.key_mode = 0;
                    d.mangle = 0;
                    d.pay = None;
                    d.entry = *rng.pick(&[0u8, 2]);
                    d.counter = rng.range(1, 9);
                    steps.push(Step::Deliver { d });
                    for _ in 0..rng.urange(0, 3) {
                        steps.push(Step::Run { sel: rng.below(1 << 16) as u32 });
                    }
                }
                for _ in 0..rng.urange(3, 25) {
                    steps.push(Step::Run { sel: rng.below(1 << 16) as u32 });
                }
                steps.push(Step::Settle);
            }
        } else if ctx.mode == "lagging_writes" {
            // deliveries are validated one after the other, but the disk writes (and their acknowledgements)
            // of earlier deliveries are still pending: reads must be served from what was accepted last
            let kind = 1 + rng.below(3) as u8;
            let who = rng.below(2) as u8;
            for i in 0..rng.urange(2, 6) {
                let mut d = gen_delivery(rng, prop, true, false);
                d.kind = kind;
                d.who = who;
                d.key_mode = 0;
                d.mangle = 0;
                d.entry = if i == 0 { 0 } else { *rng.pick(&[0u8, 2, 2]) };
                d.pay = if d.entry == 0 { Some(good_pay(rng)) } else { None };
                d.counter = rng.range(1, 9);
                steps.push(Step::Deliver { d });
                steps.push(Step::Settle);
            }
        } else {
            let mutable_only = prop == "C07";
            let with_restarts = rng.chance(1, 2);
            collide = rng.chance(1, 4);
            // colliding runs concentrate on one pair of kinds that share a key: chunk/register 0, or
            // scratchpad/transaction set of one owner
            let pair: (u8, u8) = if mutable_only || rng.chance(1, 2) { (1, 2) } else { (0, 3) };
            for _ in 0..n_del {
                let unpaid_bias = prop != "C03" && rng.chance(1, 2);
                let mut d = gen_delivery(rng, prop, mutable_only, unpaid_bias);
                if collide && rng.chance(2, 3) {
                    d.kind = if rng.chance(1, 2) { pair.0 } else { pair.1 };
                    d.who = 0;
                    // as in gen_delivery: foreign transactions only in honest-key presentations
                    if d.kind == 2 && d.key_mode != 0 {
                        for it in d.items.iter_mut() {
                            if it.1 == 2 {
                                it.1 = 1;
                            }
                        }
                    }
                }
                if d.kind == 1 && d.form == 1 && d.counter == 0 && rng.chance(1, 2) {
                    // the unsigned, never-updated pad arrives as a replicated copy (no payment needed on that path)
                    d.entry = 2;
                    d.pay = None;
                    d.key_mode = 0;
                    d.mangle = 0;
                }
                steps.push(Step::Deliver { d });
                steps.push(Step::Settle);
                if prop == "C07" && with_restarts && rng.chance(1, 4) {
                    steps.push(Step::Restart);
                }
            }
        }
        // C03, a third of the sequential runs: close peers leave the routing table between the uploads
        if prop == "C03" && ctx.mode != "concurrent" && rng.chance(1, 3) {
            for _ in 0..rng.urange(1, 3) {
                let at = rng.usize_below(steps.len().max(1));
                // only in front of a delivery (a Settle follows each delivery)
                let at = at - at % 2;
                steps.insert(at, Step::PeerLeaves { which: rng.below(32) as u8 });
                // make the step even-aligned again
                steps.insert(at + 1, Step::Settle);
            }
        }
        // big-register runs concentrate on register 0: replicated copies with the owner's ops and differing shares
        let big_registers = ctx.property == "C07" && ctx.mode != "concurrent" && rng.chance(1, 64);
        let mut steps = steps;
        if big_registers {
            for st in steps.iter_mut() {
                if let Step::Deliver { d } = st {
                    if rng.chance(4, 5) {
                        d.kind = 3;
                        d.who = 0;
                        d.pay = None;
                        d.entry = 2;
                        d.key_mode = 0;
                        d.mangle = 0;
                        for it in d.items.iter_mut() {
                            if rng.chance(5, 6) {
                                it.1 = 0;
                            }
                        }
                    }
                }
            }
        }
        // C07, a twelfth of the sequential runs: a store of capacity 1 and one mutable record; the store is full from the
        // first accepted upload on, every update meets a full store and concerns the farthest (only) record held
        let mut capacity = 0usize;
        if ctx.property == "C07" && ctx.mode == "sequential" && !big_registers && rng.chance(1, 12) {
            capacity = 1;
            collide = false;
            let kind = 1 + rng.below(3) as u8;
            let who = rng.below(2) as u8;
            for st in steps.iter_mut() {
                if let Step::Deliver { d } = st {
                    d.kind = kind;
                    d.who = who;
                }
            }
        }
        Plan {
            property: ctx.property.clone(),
            mode: ctx.mode.clone(),
            seed: rng.next_u64(),
            capacity,
            // swarm knob: a sparse routing table (fewer than K peers known) up to more than K
            cache: *rng.pick(&[0usize, 0, 1, 2]),
            collide,
            open_registers: rng.chance(1, 5),
            big_pads: ctx.property == "C07" && rng.chance(1, 25),
            big_registers,
            n_peers: match rng.below(4) { 0 => rng.urange(7, 18), 1 => rng.urange(19, 40), _ => 24 },
            steps,
        }
    }

    fn execute(plan: &Plan, entropy: u64) -> RunReport {
        world::execute(plan, entropy)
    }

    fn shrink(plan: &Plan) -> Vec<Plan> {
        let mut out = vec![];
        for steps in simkit::shrink::remove_chunks(&plan.steps) {
            let mut p = plan.clone();
            p.steps = steps;
            out.push(p);
        }
        for steps in simkit::shrink::simplify_each(&plan.steps, |s| match s {
            Step::Run { sel } if *sel != 0 => vec![Step::Run { sel: 0 }],
            Step::Deliver { d } => {
                let mut v = vec![];
                if d.items.len() > 1 {
                    let mut d2 = d.clone();
                    d2.items.truncate(1);
                    v.push(Step::Deliver { d: d2 });
                }
                if d.entry != 0 && d.pay.is_some() {
                    let mut d2 = d.clone();
                    d2.entry = 0;
                    v.push(Step::Deliver { d: d2 });
                }
                v
            }
            _ => vec![],
        }) {
            let mut p = plan.clone();
            p.steps = steps;
            out.push(p);
        }
        out
    }

    fn components() -> Vec<(&'static str, &'static str)> {
        vec![
            ("ant-node Node: handle_network_event, validate_and_store_record (all kinds), store_replicated_in_record, fetch_replication_keys_without_wait, replicate_valid_fresh_record, payment_for_us_exists_and_is_still_valid", "real (guarded VerifNode handle)"),
            ("ProofOfPayment / PaymentQuote verification (ant-evm), verify_data_payment result handling (evmlib)", "real"),
            ("SwarmDriver::handle_local_cmd / handle_network_cmd, NodeRecordStore, ReplicationFetcher, kad routing table (get_closest_local_peers)", "real; routing table populated by the simulator"),
            ("payment vault contract, alloy ABI, HTTP JSON-RPC", "stub: in-process ledger behind the guarded VaultShim"),
            ("libp2p transport / kad query engine / request-response codec, remote peers (clients, holders)", "stub: the simulator delivers Request/Response values and plays the remote side"),
            ("SwarmDriver::run, Node::run event loops, tokio multi-thread scheduler", "stub: the simulator is the event loop and decides task order through gates"),
        ]
    }
}

fn main() {
    simkit::check::main::<NodeSim>();
}
