//! Executor: every step is one antctl invocation mirrored from ant-node-manager/src/cmd/node.rs
//! (load registry -> refresh -> select -> operate through the real code -> save), against the simulated OS.

use crate::os::{OsState, SimControl, SimRpc};
use crate::{AddOpts, Plan, PortSpec, Sel, Step, ADD_VERSIONS, CONTACT_URLS, CUSTOM_EVM, ENV_SETS, OWNERS, REWARDS, UPGRADE_VERSIONS, USERS};
use ant_bootstrap::PeersArgs;
use ant_evm::{EvmNetwork, RewardsAddress};
use ant_logging::LogFormat;
use ant_node_manager::add_services::add_node;
use ant_node_manager::add_services::config::{AddNodeServiceOptions, PortRange};
use ant_node_manager::{config as nm_config, refresh_node_registry, ServiceManager, VerbosityLevel};
use ant_service_management::control::ServiceControl;
use ant_service_management::{
    NatDetectionStatus, NodeRegistry, NodeService, ServiceStatus, UpgradeOptions, UpgradeResult,
};
use serde_json::Value;
use simkit::RunReport;
use std::collections::{BTreeMap, BTreeSet};
use std::net::Ipv4Addr;
use std::path::PathBuf;
use std::str::FromStr;
use std::sync::atomic::{AtomicU64, Ordering};
use std::sync::{Arc, Mutex};
use std::time::Duration;

static RUN_COUNTER: AtomicU64 = AtomicU64::new(0);

pub struct RunDir(pub PathBuf);
impl Drop for RunDir {
    fn drop(&mut self) {
        let _ = std::fs::remove_dir_all(&self.0);
    }
}

/// What one mirrored antctl invocation did.
#[derive(Default, Debug)]
pub struct Outcome {
    /// the command's exit status (Err = antctl would have exited non-zero)
    pub overall: Option<String>,
    /// (service name, registry index, per-service result) for operations applied service by service
    pub per: Vec<(String, usize, Result<String, String>)>,
    /// the in-memory registry at the last successful `save()` of this invocation
    pub saved: Option<Value>,
    /// the same registry's nodes in Debug form (independent of the Serialize implementation)
    pub saved_debug: Option<String>,
    /// refresh_node_registry ran to completion in this invocation
    pub refreshed: bool,
    /// the registry as the refresh at the start of the invocation left it (before the operation proper)
    pub after_refresh: Option<Value>,
    /// number of OS/RPC calls made when the registry was last saved in this invocation
    pub last_save_seq: Option<u32>,
    /// names returned by add_node
    pub added: Vec<String>,
}

impl Outcome {
    fn fail(mut self, e: impl std::fmt::Display) -> Self {
        self.overall = Some(e.to_string());
        self
    }
    pub fn ok(&self) -> bool {
        self.overall.is_none()
    }
}

/// The configuration an add command intends for one of its services (harness's own derivation).
#[derive(Clone, Debug)]
pub struct Intended {
    pub opts: AddOpts,
    /// position of the service within its add command
    pub ordinal: u16,
    /// NAT status recorded when the add ran
    pub nat: Option<u8>,
    /// ports the OS handed out during that add
    pub os_ports: Vec<u16>,
    pub add_step: usize,
}

pub struct World<'a> {
    pub plan: &'a Plan,
    pub rep: &'a mut RunReport,
    pub prefix: String,
    pub root: PathBuf,
    pub reg_path: PathBuf,
    pub os: SimControl,
    pub src_bin: PathBuf,
    /// registry file content (as JSON) after the previous step
    pub prev: Value,
    /// registry indices seen with status Removed
    pub removed_idx: BTreeSet<usize>,
    /// binaries whose process died by an external event while recorded Running, not re-recorded since
    pub stale: BTreeSet<String>,
    /// binaries whose process died in the middle of the current invocation -> call count right after the
    /// manager's first pid lookup that could see it (None: never looked up again)
    pub mid_deaths: BTreeMap<String, (Option<u32>, u32)>,
    pub intended: BTreeMap<String, Intended>,
    /// (step index, env set) of every add command that carried --env
    pub env_adds: Vec<(usize, u8)>,
    pub checked_installs: usize,
    pub first_install: BTreeMap<String, crate::os::InstallRecord>,
    pub nat: Option<u8>,
    pub stop_run: bool,
    pub fired_per_step: Vec<bool>,
    pub step_idx: usize,
}

pub fn execute(plan: &Plan, entropy: u64) -> RunReport {
    let mut rep = RunReport::default();
    if plan.property == "C20" && !crate::parse::antnode_bin().is_file() {
        rep.harness_error = Some(format!(
            "hooked antnode binary {:?} not found (set ANTNODE_VERIF_BIN or run the setup build)",
            crate::parse::antnode_bin()
        ));
        return rep;
    }
    let fired = run_once(plan, entropy, &mut rep, "");
    if let Some(s) = plan.enumerate {
        let _ = fired;
        for i in 0..48u32 {
            let mut p = plan.clone();
            p.enumerate = None;
            p.all_prefixes = false;
            if let Some(d) = p.steps.get_mut(s).and_then(|st| st.die_at_mut()) {
                *d = None;
            }
            match p.steps.get_mut(s).and_then(|st| st.fail_mut()) {
                Some(f) => *f = vec![i],
                None => break,
            }
            let mut r = RunReport::default();
            let fired = run_once(&p, entropy, &mut r, &format!("[fail#{i}@{s}] "));
            rep.inner_evaluations += 1 + r.inner_evaluations;
            rep.log.extend(r.log);
            rep.violations.extend(r.violations);
            for (k, v) in r.faults {
                *rep.faults.entry(k).or_insert(0) += v;
            }
            for (k, v) in r.probes {
                *rep.probes.entry(k).or_insert(0) += v;
            }
            rep.ops += r.ops;
            rep.steps += r.steps;
            rep.sched.write_u64(r.sched.finish());
            rep.state.write_u64(r.state.finish());
            if r.harness_error.is_some() && rep.harness_error.is_none() {
                rep.harness_error = r.harness_error;
            }
            if !fired.get(s).copied().unwrap_or(false) {
                break;
            }
            rep.probe("enumerated_failing_call");
        }
    }
    rep
}

fn run_once(plan: &Plan, entropy: u64, rep: &mut RunReport, prefix: &str) -> Vec<bool> {
    simkit::rt::block_on(entropy, async move {
        let n = RUN_COUNTER.fetch_add(1, Ordering::SeqCst);
        let root = PathBuf::from(format!("/dev/shm/antsim/{:07}/services-{n:09}", std::process::id()));
        let _guard = RunDir(root.clone());
        let _ = std::fs::remove_dir_all(&root);
        if let Err(e) = std::fs::create_dir_all(root.join("downloads")) {
            rep.harness_error = Some(format!("cannot create run directory: {e}"));
            return vec![];
        }
        let src_bin = root.join("downloads").join("antnode");
        if let Err(e) = std::fs::write(&src_bin, b"#!/bin/sh\n# antnode stand-in\n") {
            rep.harness_error = Some(format!("cannot create binary stand-in: {e}"));
            return vec![];
        }
        let mut w = World {
            plan,
            rep,
            prefix: prefix.to_string(),
            reg_path: root.join("registry").join("node_registry.json"),
            root,
            os: SimControl(Arc::new(Mutex::new(OsState {
                pid_lookup_faults: plan.pid_lookup_faults,
                rpc_pid_offset: if plan.pid_namespace { 70_000 } else { 0 },
                respawn_on_death: plan.respawn,
                ..OsState::new()
            }))),
            src_bin,
            prev: serde_json::json!({"nodes": []}),
            removed_idx: BTreeSet::new(),
            stale: BTreeSet::new(),
            mid_deaths: BTreeMap::new(),
            intended: BTreeMap::new(),
            env_adds: vec![],
            checked_installs: 0,
            first_install: BTreeMap::new(),
            nat: None,
            stop_run: false,
            fired_per_step: vec![false; plan.steps.len()],
            step_idx: 0,
        };
        w.run().await;
        w.fired_per_step
    })
}

pub fn env_set(k: u8) -> Vec<(String, String)> {
    ENV_SETS[k as usize % ENV_SETS.len()]
        .iter()
        .map(|(a, b)| (a.to_string(), b.to_string()))
        .collect()
}

fn port_range(p: &PortSpec) -> PortRange {
    match p {
        PortSpec::Single(a) => PortRange::Single(*a),
        PortSpec::Range(a, b) => PortRange::Range(*a, *b),
    }
}

pub fn evm_of(k: u8) -> EvmNetwork {
    match k {
        0 => EvmNetwork::ArbitrumOne,
        1 => EvmNetwork::ArbitrumSepolia,
        n => {
            let (u, p, d) = CUSTOM_EVM[(n as usize - 2) % CUSTOM_EVM.len()];
            EvmNetwork::new_custom(u, p, d)
        }
    }
}

pub fn rewards_of(k: u8) -> RewardsAddress {
    RewardsAddress::from_str(REWARDS[k as usize % REWARDS.len()]).expect("rewards address")
}

pub fn peer_addrs(n: u8) -> Vec<libp2p::Multiaddr> {
    (0..n as usize)
        .map(|i| {
            format!(
                "/ip4/10.1.2.{}/udp/{}/quic-v1/p2p/{}",
                3 + i,
                1200 + i,
                crate::os::peer_id_for(&format!("bootstrap-{i}"))
            )
            .parse()
            .expect("multiaddr")
        })
        .collect()
}

pub fn contact_urls(n: u8) -> Vec<String> {
    CONTACT_URLS.iter().take(n as usize).map(|s| s.to_string()).collect()
}

/// The process-wide XDG_DATA_HOME set in main().
pub fn xdg_dir() -> String {
    std::env::var("XDG_DATA_HOME").unwrap_or_else(|_| "/nonexistent-xdg".into())
}

impl<'a> World<'a> {
    pub fn log(&mut self, s: impl AsRef<str>) {
        let root = self.root.to_string_lossy().to_string();
        let line = format!("{}{}", self.prefix, s.as_ref().replace(&root, "<root>"));
        self.rep.log(line);
    }

    pub fn san(&self, s: &str) -> String {
        s.replace(self.root.to_string_lossy().as_ref(), "<root>").replace(xdg_dir().as_str(), "<xdg>")
    }

    pub fn data_base(&self, o: &AddOpts) -> PathBuf {
        if o.same_dir {
            self.root.join("Shared")
        } else {
            self.root.join("Data")
        }
    }

    pub fn log_base(&self, o: &AddOpts) -> PathBuf {
        if o.user_mode && o.default_log {
            // what antctl uses when no --log-dir-path is given in user mode
            return nm_config::get_user_antnode_data_dir().expect("user data dir");
        }
        if o.same_dir {
            self.root.join("Shared")
        } else {
            self.root.join("Node Logs")
        }
    }

    pub fn bootstrap_cache_dir(&self) -> PathBuf {
        self.root.join("var").join("bootstrap_cache")
    }

    /// Registry file as plain JSON (the harness's own reading, independent of NodeRegistry).
    pub fn read_registry_value(&self) -> Result<Value, String> {
        if !self.reg_path.exists() {
            return Ok(serde_json::json!({"nodes": []}));
        }
        let s = std::fs::read_to_string(&self.reg_path).map_err(|e| e.to_string())?;
        if s.is_empty() {
            return Ok(serde_json::json!({"nodes": []}));
        }
        serde_json::from_str(&s).map_err(|e| e.to_string())
    }

    async fn run(&mut self) {
        let steps = self.plan.steps.clone();
        for (i, step) in steps.iter().enumerate() {
            if self.stop_run || self.rep.harness_error.is_some() {
                break;
            }
            self.step_idx = i;
            self.rep.steps += 1;
            self.step(i, step).await;
        }
        // final state fingerprint
        let v = self.prev.clone();
        let txt = self.san(&v.to_string());
        self.rep.state.write_str(&txt);
        let os = self.os.lock();
        self.rep.sim_time_ms += os.waits_ms;
        let procs: Vec<String> = os.procs.values().map(|p| format!("{}:{}", p.label, p.pid)).collect();
        let inst: Vec<String> = os.installed.keys().cloned().collect();
        drop(os);
        self.rep.state.write_str(&procs.join(","));
        self.rep.state.write_str(&inst.join(","));
    }

    fn begin_op(&mut self, i: usize, fail: &[u32], silent: bool) {
        self.os.lock().begin_op(i, fail, silent);
    }

    /// Log the calls of the finished operation, count fired faults.
    fn end_op(&mut self, i: usize) -> Vec<(u32, &'static str)> {
        let (calls, fired, died) = {
            let os = self.os.lock();
            (os.calls.clone(), os.fired.clone(), os.mid_op_killed.clone())
        };
        self.mid_deaths.clear();
        for (bin, _label, observed, pid) in died {
            self.mid_deaths.insert(bin.to_string_lossy().to_string(), (observed, pid));
            // an external death, like Step::Kill, only in the middle of the invocation
            self.rep.fault("external:process_dies_mid_operation");
            self.stale.insert(bin.to_string_lossy().to_string());
        }
        for c in calls {
            self.log(format!("    os: {c}"));
        }
        for (_n, m) in &fired {
            self.rep.fault(&format!("fail:{m}"));
            self.fired_per_step[i] = true;
        }
        fired
    }

    async fn step(&mut self, i: usize, step: &Step) {
        let pre = self.prev.clone();
        match step {
            Step::Add { opts, fail } => {
                self.begin_op(i, fail, false);
                let pre_len = pre["nodes"].as_array().map(|a| a.len()).unwrap_or(0);
                let out = self.glue_add(opts).await;
                let fired = self.end_op(i);
                self.rep.ops += 1;
                self.log(format!(
                    "#{i} add count={:?} -> {} added={:?}",
                    opts.count,
                    out.overall.clone().map(|e| format!("ERR {e}")).unwrap_or("ok".into()),
                    out.added
                ));
                self.rep.sched.write_str(if out.ok() { "add:ok" } else { "add:err" });
                if opts.env.is_some() && out.saved.is_some() {
                    // add_node stores --env registry-wide before anything else
                    self.env_adds.push((i, opts.env.unwrap_or(0)));
                }
                self.check_after_op(i, step, &out, &pre, &fired);
                // new services are numbered after the highest recorded number (or the count, if larger)
                let pre_base = crate::oracle::entries(&pre)
                    .iter()
                    .filter_map(|e| e.name.strip_prefix("antnode").and_then(|n| n.parse::<usize>().ok()))
                    .max()
                    .unwrap_or(0)
                    .max(pre_len);
                self.record_intended(i, opts, pre_len, pre_base);
                self.check_add(i, opts, &out, &pre, &fired);
                self.check_installs(i, step, &pre, &fired);
            }
            Step::Start { sel, interval, fail, silent, die_at } => {
                self.begin_op(i, fail, *silent);
                self.os.lock().die_at = *die_at;
                let out = self.glue_start(sel, *interval).await;
                let fired = self.end_op(i);
                self.finish_service_op(i, step, out, &pre, &fired);
            }
            Step::Stop { sel, fail, die_at } => {
                self.begin_op(i, fail, false);
                self.os.lock().die_at = *die_at;
                let out = self.glue_stop(sel).await;
                let fired = self.end_op(i);
                self.finish_service_op(i, step, out, &pre, &fired);
            }
            Step::Remove { sel, keep_dirs, fail, die_at } => {
                self.begin_op(i, fail, false);
                self.os.lock().die_at = *die_at;
                let out = self.glue_remove(sel, *keep_dirs).await;
                let fired = self.end_op(i);
                self.finish_service_op(i, step, out, &pre, &fired);
            }
            Step::Upgrade { sel, force, do_not_start, ver, env, interval, fail, silent, die_at } => {
                self.begin_op(i, fail, *silent);
                self.os.lock().die_at = *die_at;
                let out = self.glue_upgrade(sel, *force, *do_not_start, *ver, *env, *interval).await;
                let fired = self.end_op(i);
                self.finish_service_op(i, step, out, &pre, &fired);
                self.check_installs(i, step, &pre, &fired);
            }
            Step::Status { fail } => {
                self.begin_op(i, fail, false);
                let out = self.glue_status().await;
                let fired = self.end_op(i);
                self.finish_service_op(i, step, out, &pre, &fired);
            }
            Step::NatDetect { status } => {
                // cmd/nat_detection.rs: load, set nat_status, save
                match NodeRegistry::load(&self.reg_path) {
                    Ok(mut reg) => {
                        reg.nat_status = Some(match status % 3 {
                            0 => NatDetectionStatus::Public,
                            1 => NatDetectionStatus::UPnP,
                            _ => NatDetectionStatus::Private,
                        });
                        let r = reg.save();
                        self.nat = Some(status % 3);
                        self.log(format!("#{i} nat-detection records {} -> {:?}", status % 3, r.map_err(|e| e.to_string())));
                    }
                    Err(e) => self.log(format!("#{i} nat-detection: registry load failed: {e}")),
                }
                match self.read_registry_value() {
                    Ok(v) => self.prev = v,
                    Err(e) => self.rep.harness_error = Some(format!("registry unreadable after nat-detect: {e}")),
                }
            }
            Step::Kill { sel } => self.external_kill(i, *sel),
            Step::ManualUninstall { sel } => self.external_uninstall(i, *sel),
            Step::Corrupt { how } => self.corrupt(i, *how),
        }
    }

    fn finish_service_op(&mut self, i: usize, step: &Step, out: Outcome, pre: &Value, fired: &[(u32, &'static str)]) {
        self.rep.ops += 1;
        let per: Vec<String> = out
            .per
            .iter()
            .map(|(n, _, r)| match r {
                Ok(s) => format!("{n}:{s}"),
                Err(e) => format!("{n}:ERR({e})"),
            })
            .collect();
        let line = format!(
            "#{i} {} {} -> {} [{}]",
            step.kind(),
            describe(step),
            out.overall.clone().map(|e| format!("ERR {e}")).unwrap_or("ok".into()),
            per.join(", ")
        );
        self.log(line);
        self.rep.sched.write_str(&format!("{}:{}", step.kind(), if out.ok() { "ok" } else { "err" }));
        for (_, _, r) in &out.per {
            self.rep.sched.write_str(if r.is_ok() { "s+" } else { "s-" });
        }
        self.check_after_op(i, step, &out, pre, fired);
    }

    // ------------------------------------------------------------------------------------------
    // external events

    fn nth_entry(&self, sel: u32) -> Option<(String, String)> {
        let nodes = self.prev["nodes"].as_array()?;
        if nodes.is_empty() {
            return None;
        }
        let n = &nodes[sel as usize % nodes.len()];
        Some((
            n["service_name"].as_str()?.to_string(),
            n["antnode_path"].as_str()?.to_string(),
        ))
    }

    fn external_kill(&mut self, i: usize, sel: u32) {
        if let Some((name, bin)) = self.nth_entry(sel) {
            let killed = self.os.lock().kill(&PathBuf::from(&bin));
            if killed {
                self.rep.fault("external:process_dies");
                self.stale.insert(bin);
            }
            self.log(format!("#{i} external: process of {name} dies (was alive: {killed})"));
        } else {
            self.log(format!("#{i} external: kill (no services)"));
        }
    }

    fn external_uninstall(&mut self, i: usize, sel: u32) {
        if let Some((name, _)) = self.nth_entry(sel) {
            let had = self.os.lock().manual_uninstall(&name);
            if had {
                self.rep.fault("external:manual_uninstall");
            }
            self.log(format!("#{i} external: user deletes the service definition of {name} (existed: {had})"));
        } else {
            self.log(format!("#{i} external: manual uninstall (no services)"));
        }
    }

    fn corrupt(&mut self, i: usize, how: u32) {
        let orig = match std::fs::read(&self.reg_path) {
            Ok(b) if !b.is_empty() => b,
            _ => {
                self.log(format!("#{i} corrupt: no registry file yet"));
                return;
            }
        };
        let mut variants: Vec<(String, Vec<u8>, bool)> = vec![]; // (name, bytes, must be an error)
        let n = orig.len();
        if self.plan.all_prefixes {
            for cut in 1..n {
                variants.push((format!("prefix {cut}/{n}"), orig[..cut].to_vec(), true));
            }
        } else {
            for k in 0..12u64 {
                let cut = 1 + (simkit::mix(how as u64, k) % (n as u64 - 1)) as usize;
                variants.push((format!("prefix {cut}/{n}"), orig[..cut].to_vec(), true));
            }
            variants.push((format!("prefix {}/{n}", n - 1), orig[..n - 1].to_vec(), true));
        }
        let pos = (simkit::mix(how as u64, 99) % n as u64) as usize;
        let mut flipped = orig.clone();
        flipped[pos] ^= 1 << (how % 8);
        variants.push((format!("bitflip at {pos}"), flipped, false));
        let mut zeroed = orig.clone();
        for b in zeroed.iter_mut().skip(n / 2) {
            *b = 0;
        }
        variants.push(("zero-filled tail".into(), zeroed, true));
        variants.push(("garbage".into(), b"\x00\xff\xfenot json at all".to_vec(), true));
        variants.push(("wrong schema".into(), br#"{"nodes":[{"service_name":17}],"save_path":3}"#.to_vec(), true));
        variants.push(("json null".into(), b"null".to_vec(), true));
        let path = self.reg_path.clone();
        let mut errs = 0u32;
        let mut oks = 0u32;
        for (name, bytes, must_err) in &variants {
            if std::fs::write(&path, bytes).is_err() {
                self.rep.harness_error = Some("cannot write corrupted registry".into());
                return;
            }
            self.rep.inner_evaluations += 1;
            let p = path.clone();
            let r = std::panic::catch_unwind(move || NodeRegistry::load(&p).map(|_| ()).map_err(|e| e.to_string()));
            match r {
                Err(_) => {
                    self.rep.violate(
                        "C19",
                        "registry.load_panicked",
                        &[("corruption", name.split(' ').next().unwrap_or("").to_string())],
                        format!("NodeRegistry::load panicked on a corrupted file ({name})"),
                    );
                    self.stop_run = true;
                }
                Ok(Ok(())) => {
                    oks += 1;
                    if *must_err {
                        self.rep.violate(
                            "C19",
                            "registry.corrupt_loaded_ok",
                            &[("corruption", name.split(' ').next().unwrap_or("").to_string())],
                            format!("NodeRegistry::load accepted a damaged registry file ({name})"),
                        );
                        self.stop_run = true;
                    }
                }
                Ok(Err(_)) => errs += 1,
            }
        }
        self.rep.fault("external:registry_corrupted");
        self.rep.probe_n("corrupt_registry_load_is_error", errs as u64);
        let _ = std::fs::write(&path, &orig);
        self.rep.probe_n("corrupt_registry_variant_still_loads", oks as u64);
        self.log(format!("#{i} corrupt registry: {} variants probed, none panicked, restored", variants.len()));
    }

    // ------------------------------------------------------------------------------------------
    // mirrored glue (ant-node-manager/src/cmd/node.rs)

    fn control(&self) -> Box<dyn ServiceControl + Send> {
        Box::new(self.os.clone())
    }

    /// get_services_for_ops of cmd/node.rs
    fn services_for_ops(reg: &NodeRegistry, names: &[String]) -> Result<Vec<usize>, String> {
        let mut idx = vec![];
        if names.is_empty() {
            for node in reg.nodes.iter() {
                if let Some(i) = reg
                    .nodes
                    .iter()
                    .position(|x| x.service_name == node.service_name && x.status != ServiceStatus::Removed)
                {
                    idx.push(i);
                }
            }
        } else {
            for name in names {
                match reg
                    .nodes
                    .iter()
                    .position(|x| x.service_name == *name && x.status != ServiceStatus::Removed)
                {
                    Some(i) => idx.push(i),
                    None => return Err(format!("No service named '{name}'")),
                }
            }
        }
        Ok(idx)
    }

    fn sel_names(reg: &NodeRegistry, sel: &Sel) -> Vec<String> {
        match sel {
            Sel::All => vec![],
            Sel::Name(k) => {
                if reg.nodes.is_empty() {
                    vec!["antnode1".to_string()]
                } else {
                    vec![reg.nodes[*k as usize % reg.nodes.len()].service_name.clone()]
                }
            }
        }
    }

    fn snapshot(reg: &NodeRegistry) -> Option<Value> {
        serde_json::to_value(reg).ok()
    }

    async fn glue_add(&mut self, o: &AddOpts) -> Outcome {
        let mut out = Outcome::default();
        let ctl = self.os.clone();
        let user_mode = o.user_mode;
        let service_user = if user_mode {
            None
        } else {
            let u = USERS[o.user as usize % USERS.len()].to_string();
            if let Err(e) = ctl.create_service_user(&u) {
                return out.fail(e);
            }
            Some(u)
        };
        let data_base = match nm_config::get_service_data_dir_path(Some(self.data_base(o)), service_user.clone()) {
            Ok(p) => p,
            Err(e) => return out.fail(format!("data dir: {e}")),
        };
        let log_base = match nm_config::get_service_log_dir_path(
            ant_releases_type(),
            Some(self.log_base(o)),
            service_user.clone(),
        ) {
            Ok(p) => p,
            Err(e) => return out.fail(format!("log dir: {e}")),
        };
        let bootstrap_cache_dir = if let Some(u) = &service_user {
            let p = self.bootstrap_cache_dir();
            if let Err(e) = nm_config::create_owned_dir(p.clone(), u) {
                return out.fail(format!("bootstrap cache dir: {e}"));
            }
            Some(p)
        } else {
            None
        };
        let mut reg = match NodeRegistry::load(&self.reg_path) {
            Ok(r) => r,
            Err(e) => return out.fail(format!("registry load: {e}")),
        };
        let peers_args = PeersArgs {
            first: o.peers.first,
            addrs: peer_addrs(o.peers.addrs),
            network_contacts_url: contact_urls(o.peers.urls),
            local: o.peers.local,
            disable_mainnet_contacts: o.peers.testnet,
            ignore_cache: o.peers.ignore_cache,
            bootstrap_cache_dir,
        };
        let options = AddNodeServiceOptions {
            auto_restart: o.auto_restart,
            auto_set_nat_flags: o.auto_set_nat_flags,
            count: o.count,
            delete_antnode_src: false,
            enable_metrics_server: o.enable_metrics_server,
            evm_network: evm_of(o.evm),
            env_variables: o.env.map(env_set),
            home_network: o.home_network,
            log_format: o.log_format.map(|k| if k == 0 { LogFormat::Default } else { LogFormat::Json }),
            max_archived_log_files: o.max_archived_log_files.map(|v| v as usize),
            max_log_files: o.max_log_files.map(|v| v as usize),
            metrics_port: o.metrics_port.as_ref().map(port_range),
            network_id: o.network_id,
            node_ip: o.node_ip.map(|b| Ipv4Addr::new(b[0], b[1], b[2], b[3])),
            node_port: o.node_port.as_ref().map(port_range),
            owner: o.owner.map(|k| OWNERS[k as usize % OWNERS.len()].to_string()),
            peers_args,
            rewards_address: rewards_of(o.rewards),
            rpc_address: o.rpc_address.map(|b| Ipv4Addr::new(b[0], b[1], b[2], b[3])),
            rpc_port: o.rpc_port.as_ref().map(port_range),
            antnode_src_path: self.src_bin.clone(),
            antnode_dir_path: data_base.clone(),
            service_data_dir_path: data_base,
            service_log_dir_path: log_base,
            upnp: o.upnp,
            user: service_user,
            user_mode,
            version: ADD_VERSIONS[o.version as usize % ADD_VERSIONS.len()].to_string(),
        };
        let r = add_node(options, &mut reg, &ctl, VerbosityLevel::Minimal).await;
        // add_node saves by itself after each installed service (and once for --env)
        match r {
            Ok(names) => {
                out.added = names;
                if let Err(e) = reg.save() {
                    return out.fail(format!("registry save: {e}"));
                }
                out.saved = Self::snapshot(&reg);
                out.saved_debug = Some(format!("{:?}", reg.nodes));
            out.last_save_seq = Some(self.os.lock().seq_no);
            }
            Err(e) => {
                // `add_node(...).await?` in the glue: no final save; what add_node saved itself stays
                out.saved = None;
                out.saved_debug = None;
                out.overall = Some(format!("{e}"));
            }
        }
        out
    }

    async fn glue_start(&mut self, sel: &Sel, use_interval: bool) -> Outcome {
        let mut out = Outcome::default();
        let mut reg = match NodeRegistry::load(&self.reg_path) {
            Ok(r) => r,
            Err(e) => return out.fail(format!("registry load: {e}")),
        };
        if let Err(e) = refresh_node_registry(&mut reg, &self.os, false, false, false).await {
            return out.fail(format!("refresh: {e}"));
        }
        out.refreshed = true;
        out.after_refresh = Self::snapshot(&reg);
        let indices = match Self::services_for_ops(&reg, &Self::sel_names(&reg, sel)) {
            Ok(v) => v,
            Err(e) => return out.fail(e),
        };
        let mut failed = 0;
        for &index in &indices {
            let node = &mut reg.nodes[index];
            let name = node.service_name.clone();
            let rpc = SimRpc { os: self.os.clone(), addr: node.rpc_socket_addr };
            let service = NodeService::new(node, Box::new(rpc));
            let service = if !use_interval {
                service.with_connection_timeout(Duration::from_secs(300))
            } else {
                service
            };
            let mut mgr = ServiceManager::new(service, self.control(), VerbosityLevel::Minimal);
            // (the glue's std::thread::sleep(fixed_interval) before a not-running service is skipped)
            let r = mgr.start().await;
            drop(mgr);
            match r {
                Ok(()) => {
                    out.per.push((name, index, Ok("started".into())));
                    if let Err(e) = reg.save() {
                        return out.fail(format!("registry save: {e}"));
                    }
                    out.saved = Self::snapshot(&reg);
                out.saved_debug = Some(format!("{:?}", reg.nodes));
            out.last_save_seq = Some(self.os.lock().seq_no);
                }
                Err(e) => {
                    failed += 1;
                    out.per.push((name, index, Err(e.to_string())));
                }
            }
        }
        if failed > 0 {
            out.overall = Some("Failed to start one or more services".into());
        }
        out
    }

    async fn glue_stop(&mut self, sel: &Sel) -> Outcome {
        let mut out = Outcome::default();
        let mut reg = match NodeRegistry::load(&self.reg_path) {
            Ok(r) => r,
            Err(e) => return out.fail(format!("registry load: {e}")),
        };
        if let Err(e) = refresh_node_registry(&mut reg, &self.os, false, false, false).await {
            return out.fail(format!("refresh: {e}"));
        }
        out.refreshed = true;
        out.after_refresh = Self::snapshot(&reg);
        let indices = match Self::services_for_ops(&reg, &Self::sel_names(&reg, sel)) {
            Ok(v) => v,
            Err(e) => return out.fail(e),
        };
        let mut failed = 0;
        for &index in &indices {
            let node = &mut reg.nodes[index];
            let name = node.service_name.clone();
            let rpc = SimRpc { os: self.os.clone(), addr: node.rpc_socket_addr };
            let service = NodeService::new(node, Box::new(rpc));
            let mut mgr = ServiceManager::new(service, self.control(), VerbosityLevel::Minimal);
            let r = mgr.stop().await;
            drop(mgr);
            match r {
                Ok(()) => {
                    out.per.push((name, index, Ok("stopped".into())));
                    if let Err(e) = reg.save() {
                        return out.fail(format!("registry save: {e}"));
                    }
                    out.saved = Self::snapshot(&reg);
                out.saved_debug = Some(format!("{:?}", reg.nodes));
            out.last_save_seq = Some(self.os.lock().seq_no);
                }
                Err(e) => {
                    failed += 1;
                    out.per.push((name, index, Err(e.to_string())));
                }
            }
        }
        if failed > 0 {
            out.overall = Some("Failed to stop one or more services".into());
        }
        out
    }

    async fn glue_remove(&mut self, sel: &Sel, keep_dirs: bool) -> Outcome {
        let mut out = Outcome::default();
        let mut reg = match NodeRegistry::load(&self.reg_path) {
            Ok(r) => r,
            Err(e) => return out.fail(format!("registry load: {e}")),
        };
        if let Err(e) = refresh_node_registry(&mut reg, &self.os, false, false, false).await {
            return out.fail(format!("refresh: {e}"));
        }
        out.refreshed = true;
        out.after_refresh = Self::snapshot(&reg);
        let indices = match Self::services_for_ops(&reg, &Self::sel_names(&reg, sel)) {
            Ok(v) => v,
            Err(e) => return out.fail(e),
        };
        let mut failed = 0;
        for &index in &indices {
            let node = &mut reg.nodes[index];
            let name = node.service_name.clone();
            let rpc = SimRpc { os: self.os.clone(), addr: node.rpc_socket_addr };
            let service = NodeService::new(node, Box::new(rpc));
            let mut mgr = ServiceManager::new(service, self.control(), VerbosityLevel::Minimal);
            let r = mgr.remove(keep_dirs).await;
            drop(mgr);
            match r {
                Ok(()) => {
                    out.per.push((name, index, Ok("removed".into())));
                    if let Err(e) = reg.save() {
                        return out.fail(format!("registry save: {e}"));
                    }
                    out.saved = Self::snapshot(&reg);
                out.saved_debug = Some(format!("{:?}", reg.nodes));
            out.last_save_seq = Some(self.os.lock().seq_no);
                }
                Err(e) => {
                    failed += 1;
                    out.per.push((name, index, Err(e.to_string())));
                }
            }
        }
        if failed > 0 {
            out.overall = Some("Failed to remove one or more services".into());
        }
        out
    }

    async fn glue_upgrade(&mut self, sel: &Sel, force: bool, do_not_start: bool, ver: u8, env: Option<u8>, use_interval: bool) -> Outcome {
        let mut out = Outcome::default();
        // download_and_get_upgrade_bin_path: a local file stands in for the downloaded release
        let version_str = UPGRADE_VERSIONS[ver as usize % UPGRADE_VERSIONS.len()];
        let target_version = semver::Version::parse(version_str).expect("version");
        let upgrade_bin_path = self.root.join("downloads").join(format!("antnode-{version_str}"));
        if std::fs::write(&upgrade_bin_path, format!("#!/bin/sh\n# antnode {version_str}\n")).is_err() {
            self.rep.harness_error = Some("cannot write upgrade binary".into());
            return out;
        }
        let use_force = force; // no custom --path
        let mut reg = match NodeRegistry::load(&self.reg_path) {
            Ok(r) => r,
            Err(e) => return out.fail(format!("registry load: {e}")),
        };
        if let Err(e) = refresh_node_registry(&mut reg, &self.os, false, false, false).await {
            return out.fail(format!("refresh: {e}"));
        }
        out.refreshed = true;
        out.after_refresh = Self::snapshot(&reg);
        if reg.nodes.is_empty() {
            // the glue evaluates node_registry.nodes[0] inside a debug!() at this point
            self.rep.probe("upgrade_on_empty_registry(glue indexes nodes[0] in debug!)");
            return out;
        }
        if !use_force {
            let mut any = false;
            for n in &reg.nodes {
                match semver::Version::parse(&n.version) {
                    Ok(v) => any |= v < target_version,
                    Err(_) => return out.fail("Failed to parse Version"),
                }
            }
            if !any {
                self.rep.probe("upgrade_not_required_all_latest");
                return out;
            }
        }
        let indices = match Self::services_for_ops(&reg, &Self::sel_names(&reg, sel)) {
            Ok(v) => v,
            Err(e) => return out.fail(e),
        };
        let provided_env = env.map(env_set);
        let mut problem = false;
        for &index in &indices {
            let env_variables = if provided_env.is_some() {
                provided_env.clone()
            } else {
                reg.environment_variables.clone()
            };
            let node = &mut reg.nodes[index];
            let options = UpgradeOptions {
                // mirrors cmd/node.rs::upgrade (after the fix: the recorded setting, not `false`)
                auto_restart: node.auto_restart,
                env_variables,
                force: use_force,
                start_service: !do_not_start,
                target_bin_path: upgrade_bin_path.clone(),
                target_version: target_version.clone(),
            };
            let name = node.service_name.clone();
            let rpc = SimRpc { os: self.os.clone(), addr: node.rpc_socket_addr };
            let service = NodeService::new(node, Box::new(rpc));
            let service = if !use_interval {
                service.with_connection_timeout(Duration::from_secs(300))
            } else {
                service
            };
            let mut mgr = ServiceManager::new(service, self.control(), VerbosityLevel::Minimal);
            let r = mgr.upgrade(options).await;
            drop(mgr);
            match r {
                Ok(res) => {
                    let txt = match &res {
                        UpgradeResult::Forced(a, b) => format!("forced {a}->{b}"),
                        UpgradeResult::NotRequired => "not-required".to_string(),
                        UpgradeResult::Upgraded(a, b) => format!("upgraded {a}->{b}"),
                        UpgradeResult::UpgradedButNotStarted(a, b, e) => {
                            problem = true;
                            format!("upgraded-not-started {a}->{b} ({e})")
                        }
                        UpgradeResult::Error(e) => format!("error {e}"),
                    };
                    out.per.push((name, index, Ok(txt)));
                }
                Err(e) => {
                    problem = true;
                    out.per.push((name, index, Err(e.to_string())));
                }
            }
            // saved after every service, whatever the result
            if let Err(e) = reg.save() {
                return out.fail(format!("registry save: {e}"));
            }
            out.saved = Self::snapshot(&reg);
                out.saved_debug = Some(format!("{:?}", reg.nodes));
            out.last_save_seq = Some(self.os.lock().seq_no);
        }
        if problem {
            out.overall = Some("There was a problem upgrading one or more nodes".into());
        }
        out
    }

    async fn glue_status(&mut self) -> Outcome {
        let mut out = Outcome::default();
        let mut reg = match NodeRegistry::load(&self.reg_path) {
            Ok(r) => r,
            Err(e) => return out.fail(format!("registry load: {e}")),
        };
        if !reg.nodes.is_empty() {
            // status_report -> refresh_node_registry with full_refresh = true, as `antctl status` does; the RPC client
            // the refresh builds internally is the simulated one (guarded factory seam in ant-node-manager)
            let os = self.os.clone();
            ant_node_manager::verif::set_rpc_factory(Some(Box::new(move |addr| Box::new(SimRpc { os: os.clone(), addr }))));
            let r = refresh_node_registry(&mut reg, &self.os, false, true, false).await;
            ant_node_manager::verif::set_rpc_factory(None);
            if let Err(e) = r {
                return out.fail(format!("refresh: {e}"));
            }
            out.refreshed = true;
            out.after_refresh = Self::snapshot(&reg);
        out.after_refresh = Self::snapshot(&reg);
            if let Err(e) = reg.save() {
                return out.fail(format!("registry save: {e}"));
            }
            out.saved = Self::snapshot(&reg);
                out.saved_debug = Some(format!("{:?}", reg.nodes));
            out.last_save_seq = Some(self.os.lock().seq_no);
        }
        out
    }
}

fn ant_releases_type() -> ant_releases::ReleaseType {
    ant_releases::ReleaseType::AntNode
}

fn describe(step: &Step) -> String {
    let sel = |s: &Sel| match s {
        Sel::All => "all".to_string(),
        Sel::Name(k) => format!("name#{k}"),
    };
    match step {
        Step::Start { sel: s, interval, fail, silent, die_at } => format!("{} interval={interval} fail={fail:?} silent={silent} die_at={die_at:?}", sel(s)),
        Step::Stop { sel: s, fail, die_at } => format!("{} fail={fail:?} die_at={die_at:?}", sel(s)),
        Step::Remove { sel: s, keep_dirs, fail, die_at } => format!("{} keep_dirs={keep_dirs} fail={fail:?} die_at={die_at:?}", sel(s)),
        Step::Upgrade { sel: s, force, do_not_start, ver, env, fail, silent, die_at, .. } => format!(
            "{} force={force} do_not_start={do_not_start} to={} env={env:?} fail={fail:?} silent={silent} die_at={die_at:?}",
            sel(s),
            UPGRADE_VERSIONS[*ver as usize % UPGRADE_VERSIONS.len()]
        ),
        Step::Status { fail } => format!("fail={fail:?}"),
        _ => String::new(),
    }
}
