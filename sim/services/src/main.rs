//! sim `services`: the real `add_node`, `ServiceManager<NodeService>::{start,stop,remove,upgrade}`,
//! `refresh_node_registry` and `NodeRegistry::{save,load}` over a simulated OS (service manager, process
//! table, ports, users, node RPC). Each plan step is one antctl invocation: a fresh "process" that loads the
//! registry file, acts, saves. Serves C19 (recorded lifecycle state vs. the simulated OS under failing
//! OS/RPC calls and external events) and C20 (install definition vs. upgrade definition vs. what the real
//! `antnode` parser makes of both).

mod os;
mod parse;
mod oracle;
mod c20;
mod world;

use serde::{Deserialize, Serialize};
use simkit::{GenCtx, PropertySpec, Rng, RunReport, Sim, Tier};

#[derive(Serialize, Deserialize, Clone, Debug, PartialEq)]
pub enum PortSpec {
    Single(u16),
    /// inclusive range start..=end
    Range(u16, u16),
}

#[derive(Serialize, Deserialize, Clone, Debug, PartialEq, Default)]
pub struct PeersOpts {
    pub first: bool,
    pub local: bool,
    /// number of `--peer` multiaddrs (0..=2)
    pub addrs: u8,
    /// number of `--network-contacts-url` values (0..=2)
    pub urls: u8,
    pub testnet: bool,
    pub ignore_cache: bool,
}

/// One `antctl add` command line (only combinations antctl's own parser accepts).
#[derive(Serialize, Deserialize, Clone, Debug, PartialEq, Default)]
pub struct AddOpts {
    pub count: Option<u16>,
    pub auto_restart: bool,
    pub auto_set_nat_flags: bool,
    pub enable_metrics_server: bool,
    /// index into ENV_SETS
    pub env: Option<u8>,
    /// 0 arbitrum-one, 1 arbitrum-sepolia, 2.. custom networks
    pub evm: u8,
    pub home_network: bool,
    pub upnp: bool,
    /// 0 default, 1 json
    pub log_format: Option<u8>,
    pub max_archived_log_files: Option<u32>,
    pub max_log_files: Option<u32>,
    pub metrics_port: Option<PortSpec>,
    pub node_port: Option<PortSpec>,
    pub rpc_port: Option<PortSpec>,
    pub network_id: Option<u8>,
    pub node_ip: Option<[u8; 4]>,
    pub rpc_address: Option<[u8; 4]>,
    /// index into OWNERS
    pub owner: Option<u8>,
    pub peers: PeersOpts,
    /// antctl not running as root: user-level services, no service user
    pub user_mode: bool,
    /// index into USERS (root mode only)
    pub user: u8,
    /// `--data-dir-path` and `--log-dir-path` point to the same directory
    pub same_dir: bool,
    /// user mode only: no --log-dir-path is given, the per-user default log location is used
    #[serde(default)]
    pub default_log: bool,
    /// index into ADD_VERSIONS
    pub version: u8,
    /// index into REWARDS
    pub rewards: u8,
}

#[derive(Serialize, Deserialize, Clone, Debug, PartialEq)]
pub enum Sel {
    /// no --service-name: every service that is not Removed
    All,
    /// --service-name of the k-th registry entry (modulo the number of entries)
    Name(u32),
}

#[derive(Serialize, Deserialize, Clone, Debug, PartialEq)]
#[serde(tag = "t")]
pub enum Step {
    Add { opts: AddOpts, fail: Vec<u32> },
    /// `die_at`: the managed process the call is about dies right before OS/RPC call #n of this invocation
    /// (all calls are counted, pid lookups included)
    Start { sel: Sel, interval: bool, fail: Vec<u32>, silent: bool, #[serde(default)] die_at: Option<u32> },
    Stop { sel: Sel, fail: Vec<u32>, #[serde(default)] die_at: Option<u32> },
    Remove { sel: Sel, keep_dirs: bool, fail: Vec<u32>, #[serde(default)] die_at: Option<u32> },
    /// `ver` indexes UPGRADE_VERSIONS; `env`: `--env` given on the upgrade command line
    Upgrade { sel: Sel, force: bool, do_not_start: bool, ver: u8, env: Option<u8>, interval: bool, fail: Vec<u32>, silent: bool, #[serde(default)] die_at: Option<u32> },
    /// `antctl status`: refresh + save
    Status { fail: Vec<u32> },
    /// nat-detection result recorded in the registry (0 public, 1 upnp, 2 private)
    NatDetect { status: u8 },
    /// external: the process of a service dies
    Kill { sel: u32 },
    /// external: the user deletes the service definition by hand
    ManualUninstall { sel: u32 },
    /// external: the registry file is damaged; it must load as an error (never panic); then it is restored
    Corrupt { how: u32 },
}

impl Step {
    pub fn fail_mut(&mut self) -> Option<&mut Vec<u32>> {
        match self {
            Step::Add { fail, .. }
            | Step::Start { fail, .. }
            | Step::Stop { fail, .. }
            | Step::Remove { fail, .. }
            | Step::Upgrade { fail, .. }
            | Step::Status { fail } => Some(fail),
            _ => None,
        }
    }
    pub fn die_at_mut(&mut self) -> Option<&mut Option<u32>> {
        match self {
            Step::Start { die_at, .. } | Step::Stop { die_at, .. } | Step::Remove { die_at, .. } | Step::Upgrade { die_at, .. } => Some(die_at),
            _ => None,
        }
    }
    pub fn die_at(&self) -> Option<u32> {
        match self {
            Step::Start { die_at, .. } | Step::Stop { die_at, .. } | Step::Remove { die_at, .. } | Step::Upgrade { die_at, .. } => *die_at,
            _ => None,
        }
    }
    pub fn kind(&self) -> &'static str {
        match self {
            Step::Add { .. } => "add",
            Step::Start { .. } => "start",
            Step::Stop { .. } => "stop",
            Step::Remove { .. } => "remove",
            Step::Upgrade { .. } => "upgrade",
            Step::Status { .. } => "status",
            Step::NatDetect { .. } => "nat-detect",
            Step::Kill { .. } => "kill",
            Step::ManualUninstall { .. } => "manual-uninstall",
            Step::Corrupt { .. } => "corrupt",
        }
    }
}

#[derive(Serialize, Deserialize, Clone, Debug)]
pub struct Plan {
    pub property: String,
    pub mode: String,
    /// every prefix of the registry file is probed by Corrupt steps (thorough) instead of a sample
    pub all_prefixes: bool,
    /// re-run the plan with call #0, #1, #2 ... of this step failing until the index exceeds the calls made
    pub enumerate: Option<usize>,
    /// get_process_pid calls can be chosen as the failing call (else only the other OS/RPC calls are numbered)
    pub pid_lookup_faults: bool,
    /// a process that dies in the middle of an invocation (`die_at`) is restarted at once by the OS under a new pid
    #[serde(default)]
    pub respawn: bool,
    /// the nodes run in another PID namespace than the manager (a container): the pid a node reports about itself
    /// over RPC is not the pid the host's process table has for it
    #[serde(default)]
    pub pid_namespace: bool,
    pub steps: Vec<Step>,
}

pub const ENV_SETS: &[&[(&str, &str)]] = &[
    &[("RUST_LOG", "debug")],
    &[("A", "1"), ("B", "x y")],
    &[("ANT_LOG", "all"), ("TMPDIR", "/var/tmp")],
];
pub const OWNERS: &[&str] = &["alice", "Bob_Smith", "some one", "zo\u{eb}.k", "-dash"];
pub const USERS: &[&str] = &["root", "daemon", "nobody"];
pub const ADD_VERSIONS: &[&str] = &["0.1.0", "0.2.0"];
pub const UPGRADE_VERSIONS: &[&str] = &["0.0.9", "0.1.0", "0.2.0", "0.3.0"];
pub const REWARDS: &[&str] = &[
    "0x03B770D9cD32077cC0bF330c13C114a87643B124",
    "0x8464135c8F25Da09e49BC8782676a84730C318bC",
];
/// (rpc url, payment token address, data payments address)
pub const CUSTOM_EVM: &[(&str, &str, &str)] = &[
    (
        "http://localhost:8545",
        "0x5FbDB2315678afecb367f032d93F642f64180aa3",
        "0x8464135c8F25Da09e49BC8782676a84730C318bC",
    ),
    (
        "https://rpc.example.org/v1/key?x=1",
        "0xe7f1725E7734CE288F8367e1Bb143E90bb3F0512",
        "0x5FbDB2315678afecb367f032d93F642f64180aa3",
    ),
    (
        "http://10.0.0.1:61611/",
        "0x8464135c8F25Da09e49BC8782676a84730C318bC",
        "0xe7f1725E7734CE288F8367e1Bb143E90bb3F0512",
    ),
];
pub const PEER_ADDRS: &[&str] = &[
    "/ip4/10.1.2.3/udp/1200/quic-v1/p2p/12D3KooWRi6wF7yxWLuPSNskXc6kQ5cJ6eaymeMbCRdTnMesPgFx",
    "/ip4/192.168.7.7/udp/40123/quic-v1/p2p/12D3KooWSBTB1jzXPyBZQo6kTj2wfgFvHnvYMCsn4beqRNhk2t2v",
];
pub const CONTACT_URLS: &[&str] = &[
    "https://sn-testnet.example.org/contacts",
    "http://10.9.8.7/bootstrap_cache.json",
];

pub struct ServicesSim;

fn gen_port(rng: &mut Rng, base: u16, count: u16, exact: bool) -> PortSpec {
    let start = base + rng.below(6) as u16;
    // mostly a spec that matches the count (anything else is refused by validation before any work)
    let n = if exact || rng.chance(9, 10) { count } else { rng.range(1, 3) as u16 };
    if n <= 1 {
        PortSpec::Single(start)
    } else {
        PortSpec::Range(start, start + n - 1)
    }
}

/// A random `antctl add` command line. `rich`: C20 style (most options set, count small).
fn gen_add(rng: &mut Rng, rich: bool, swarm: &Swarm) -> AddOpts {
    let mut o = AddOpts::default();
    let p = |rng: &mut Rng, num: u64, den: u64| rng.chance(num, den);
    o.peers.first = swarm.first && p(rng, 1, 6);
    o.count = if o.peers.first {
        None // antctl: --count conflicts with --first
    } else {
        match rng.below(if rich { 6 } else { 5 }) {
            0 => None,
            1 | 4 | 5 => Some(1),
            2 => Some(2),
            _ => Some(3),
        }
    };
    let count = o.count.unwrap_or(1);
    o.auto_restart = p(rng, 1, 3);
    o.auto_set_nat_flags = swarm.nat && p(rng, 1, 3);
    o.enable_metrics_server = p(rng, 1, 4);
    o.env = if swarm.env && p(rng, 1, 2) { Some(rng.below(ENV_SETS.len() as u64) as u8) } else { None };
    o.evm = match rng.below(4) {
        0 | 1 => 0,
        2 => 1,
        _ => 2 + rng.below(CUSTOM_EVM.len() as u64) as u8,
    };
    o.home_network = p(rng, 1, 4);
    o.upnp = p(rng, 1, 4);
    let q = if rich { 2 } else { 4 };
    o.log_format = if p(rng, 1, q) { Some(rng.below(2) as u8) } else { None };
    o.max_archived_log_files = if p(rng, 1, q) { Some(rng.range(0, 9) as u32) } else { None };
    o.max_log_files = if p(rng, 1, q) { Some(rng.range(0, 9) as u32) } else { None };
    if swarm.ports {
        if p(rng, 1, 3) {
            o.metrics_port = Some(gen_port(rng, 13000, count, rich));
        }
        if p(rng, 1, 2) {
            o.node_port = Some(gen_port(rng, 12000, count, rich));
        }
        if p(rng, 1, 3) {
            o.rpc_port = Some(gen_port(rng, 14000, count, rich));
        }
    }
    o.network_id = if p(rng, 1, q) { Some(rng.range(1, 255) as u8) } else { None };
    o.node_ip = if p(rng, 1, q) { Some([10, 0, rng.below(3) as u8, rng.range(1, 9) as u8]) } else { None };
    o.rpc_address = if p(rng, 1, 5) { Some([127, 0, 0, rng.range(2, 4) as u8]) } else { None };
    o.owner = if p(rng, 1, q) {
        // the leading-hyphen owner only rarely: `antctl add --owner=-dash` is accepted by antctl
        let k = rng.below(21);
        Some(if k == 20 { 4 } else { (k % 4) as u8 })
    } else {
        None
    };
    if !o.peers.first {
        o.peers.addrs = if p(rng, 1, 3) { rng.range(1, 2) as u8 } else { 0 };
        o.peers.local = p(rng, 1, 5);
        // antctl: --local conflicts with --network-contacts-url
        o.peers.urls = if !o.peers.local && p(rng, 1, 4) { rng.range(1, 2) as u8 } else { 0 };
    } else {
        o.peers.local = p(rng, 1, 3);
    }
    o.peers.testnet = p(rng, 1, 4);
    o.peers.ignore_cache = p(rng, 1, 4);
    o.user_mode = swarm.user_mode;
    o.user = rng.below(USERS.len() as u64) as u8;
    o.same_dir = swarm.same_dir;
    o.default_log = swarm.user_mode && !swarm.same_dir && swarm.default_log;
    o.version = rng.below(ADD_VERSIONS.len() as u64) as u8;
    o.rewards = rng.below(REWARDS.len() as u64) as u8;
    o
}

/// Per-run knobs drawn first (swarm testing).
struct Swarm {
    first: bool,
    nat: bool,
    env: bool,
    ports: bool,
    user_mode: bool,
    same_dir: bool,
    default_log: bool,
}

fn gen_swarm(rng: &mut Rng) -> Swarm {
    Swarm {
        first: rng.chance(1, 3),
        nat: rng.chance(1, 3),
        env: rng.chance(2, 3),
        ports: rng.chance(3, 4),
        user_mode: rng.chance(1, 2),
        same_dir: rng.chance(1, 6),
        default_log: rng.chance(1, 3),
    }
}

fn gen_fail(rng: &mut Rng, fault: bool, p_num: u64, max_idx: u64) -> Vec<u32> {
    if !fault || !rng.chance(p_num, 10) {
        return vec![];
    }
    let a = rng.below(max_idx) as u32;
    if rng.chance(1, 5) {
        let b = rng.below(max_idx + 2) as u32;
        if b != a {
            return vec![a, b];
        }
    }
    vec![a]
}

fn gen_sel(rng: &mut Rng) -> Sel {
    if rng.chance(2, 5) {
        Sel::All
    } else {
        Sel::Name(rng.below(8) as u32)
    }
}

fn gen_c19(rng: &mut Rng, ctx: &GenCtx) -> Plan {
    let fault = ctx.mode == "fault";
    let swarm = gen_swarm(rng);
    let n_steps = match ctx.tier {
        Tier::Quick => rng.urange(4, 22),
        Tier::Thorough => rng.urange(4, 36),
    };
    let w_add = rng.range(4, 14);
    let w_start = rng.range(6, 20);
    let w_stop = rng.range(3, 14);
    let w_remove = if rng.chance(4, 5) { rng.range(1, 10) } else { 0 };
    let w_upgrade = if rng.chance(4, 5) { rng.range(2, 12) } else { 0 };
    let w_status = rng.range(0, 5);
    let w_nat = if swarm.nat { 2 } else { 0 };
    let w_kill = if fault { rng.range(0, 8) } else { 0 };
    let w_manual = if fault && rng.chance(1, 2) { rng.range(1, 4) } else { 0 };
    let w_corrupt = if fault && rng.chance(1, 2) { rng.range(1, 3) } else { 0 };
    let p_fail = if fault { rng.range(1, 6) } else { 0 };
    let pid_lookup_faults = fault && rng.chance(1, 3);
    let weights = [
        w_add, w_start, w_stop, w_remove, w_upgrade, w_status, w_nat, w_kill, w_manual, w_corrupt,
    ];
    let mut steps = vec![];
    if swarm.nat && rng.chance(2, 3) {
        steps.push(Step::NatDetect { status: rng.below(3) as u8 });
    }
    steps.push(Step::Add {
        opts: gen_add(rng, false, &swarm),
        fail: gen_fail(rng, fault, p_fail.min(3), 8),
    });
    for _ in 0..n_steps {
        let s = match rng.weighted(&weights) {
            0 => Step::Add {
                opts: gen_add(rng, false, &swarm),
                fail: gen_fail(rng, fault, p_fail, 9),
            },
            1 => Step::Start {
                sel: gen_sel(rng),
                interval: rng.chance(1, 3),
                fail: gen_fail(rng, fault, p_fail, 12),
                silent: fault && rng.chance(1, 12),
                die_at: None,
            },
            2 => Step::Stop {
                sel: gen_sel(rng),
                fail: gen_fail(rng, fault, p_fail, 8),
                die_at: None,
            },
            3 => Step::Remove {
                sel: gen_sel(rng),
                keep_dirs: rng.chance(1, 3),
                fail: gen_fail(rng, fault, p_fail, 8),
                die_at: None,
            },
            4 => Step::Upgrade {
                sel: gen_sel(rng),
                force: rng.chance(1, 3),
                do_not_start: rng.chance(1, 3),
                ver: rng.below(UPGRADE_VERSIONS.len() as u64) as u8,
                env: if rng.chance(1, 5) { Some(rng.below(ENV_SETS.len() as u64) as u8) } else { None },
                interval: rng.chance(1, 3),
                fail: gen_fail(rng, fault, p_fail, 14),
                silent: fault && rng.chance(1, 12),
                die_at: None,
            },
            5 => Step::Status {
                fail: gen_fail(rng, fault, p_fail, 4),
            },
            6 => Step::NatDetect { status: rng.below(3) as u8 },
            7 => Step::Kill { sel: rng.below(8) as u32 },
            8 => Step::ManualUninstall { sel: rng.below(8) as u32 },
            _ => Step::Corrupt { how: rng.below(1 << 16) as u32 },
        };
        steps.push(s);
    }
    // a managed process dies in the middle of an invocation (right before OS/RPC call #n)
    let p_die = if fault && rng.chance(2, 3) { rng.range(1, 4) } else { 0 };
    for st in steps.iter_mut() {
        // never combined with an injected call failure in the same invocation (see assumptions)
        let clean = match st {
            Step::Start { fail, silent, .. } | Step::Upgrade { fail, silent, .. } => fail.is_empty() && !*silent,
            Step::Stop { fail, .. } | Step::Remove { fail, .. } => fail.is_empty(),
            _ => false,
        };
        if let Some(d) = st.die_at_mut() {
            let _ = clean;
            if p_die > 0 && rng.chance(p_die, 10) {
                *d = Some(rng.below(12) as u32);
            }
        }
    }
    steps.push(Step::Status { fail: vec![] });
    // enumeration of the failing call index of one operation (all runs in thorough, a few in quick)
    let enumerate = if fault && (ctx.tier == Tier::Thorough || rng.chance(1, 8)) {
        let ops: Vec<usize> = steps
            .iter()
            .enumerate()
            .filter(|(_, s)| matches!(s, Step::Add { .. } | Step::Start { .. } | Step::Stop { .. } | Step::Remove { .. } | Step::Upgrade { .. }))
            .map(|(i, _)| i)
            .collect();
        if ops.is_empty() { None } else { Some(*rng.pick(&ops)) }
    } else {
        None
    };
    Plan {
        property: ctx.property.clone(),
        mode: ctx.mode.clone(),
        all_prefixes: ctx.tier == Tier::Thorough,
        enumerate,
        pid_lookup_faults,
        respawn: fault && rng.chance(1, 3),
        pid_namespace: rng.chance(1, 5),
        steps,
    }
}

fn gen_c20(rng: &mut Rng, ctx: &GenCtx) -> Plan {
    let faulty = ctx.mode == "faulty-lifecycle";
    let mut swarm = gen_swarm(rng);
    swarm.first = rng.chance(1, 4);
    swarm.ports = true;
    let mut steps = vec![];
    let a = gen_add(rng, true, &swarm);
    if a.auto_set_nat_flags || rng.chance(1, 6) {
        // auto-set-nat-flags without a recorded NAT status is refused by add_node; mostly record one first
        if rng.chance(9, 10) {
            steps.push(Step::NatDetect { status: rng.below(3) as u8 });
        }
    }
    let f = |rng: &mut Rng, max: u64| -> Vec<u32> {
        if faulty && rng.chance(1, 3) { vec![rng.below(max) as u32] } else { vec![] }
    };
    steps.push(Step::Add { opts: a, fail: f(rng, 6) });
    if rng.chance(1, 3) {
        // a second add command (other options, other environment) before anything is upgraded
        let mut b = gen_add(rng, true, &swarm);
        b.peers.first = false;
        steps.push(Step::Add { opts: b, fail: f(rng, 6) });
    }
    if rng.chance(2, 3) {
        steps.push(Step::Start {
            sel: gen_sel(rng),
            interval: rng.chance(1, 2),
            fail: f(rng, 8),
            silent: faulty && rng.chance(1, 10),
            die_at: None,
        });
        if faulty && rng.chance(1, 3) {
            steps.push(Step::Kill { sel: rng.below(4) as u32 });
        }
        if rng.chance(1, 2) {
            steps.push(Step::Stop { sel: gen_sel(rng), fail: f(rng, 6), die_at: None });
            if rng.chance(1, 2) {
                // started again (a node without a fixed port listens somewhere else this time)
                steps.push(Step::Start { sel: gen_sel(rng), interval: rng.chance(1, 2), fail: f(rng, 8), silent: false, die_at: None });
            }
        }
    }
    if rng.chance(1, 4) {
        steps.push(Step::Status { fail: vec![] });
    }
    if faulty && rng.chance(1, 2) {
        // an upgrade attempt that fails half way, before the one that goes through
        steps.push(Step::Upgrade {
            sel: Sel::All,
            force: true,
            do_not_start: rng.chance(1, 2),
            ver: rng.range(1, 3) as u8,
            env: None,
            interval: rng.chance(1, 2),
            fail: vec![rng.below(10) as u32],
            silent: false,
            die_at: None,
        });
    }
    let n_up = if rng.chance(1, 4) { 2 } else { 1 };
    for i in 0..n_up {
        steps.push(Step::Upgrade {
            sel: if rng.chance(3, 4) { Sel::All } else { Sel::Name(rng.below(4) as u32) },
            force: i > 0 || rng.chance(1, 2),
            do_not_start: rng.chance(1, 3),
            ver: 3,
            env: if rng.chance(1, 6) { Some(rng.below(ENV_SETS.len() as u64) as u8) } else { None },
            interval: rng.chance(1, 2),
            fail: vec![],
            silent: false,
            die_at: None,
        });
        if i == 0 && n_up == 2 && rng.chance(1, 2) {
            steps.push(Step::Stop { sel: Sel::All, fail: vec![], die_at: None });
        }
    }
    if faulty {
        for st in steps.iter_mut() {
            let clean = match st {
                Step::Start { fail, silent, .. } | Step::Upgrade { fail, silent, .. } => fail.is_empty() && !*silent,
                Step::Stop { fail, .. } | Step::Remove { fail, .. } => fail.is_empty(),
                _ => false,
            };
            if let Some(d) = st.die_at_mut() {
                let _ = clean;
                if rng.chance(1, 8) {
                    *d = Some(rng.below(10) as u32);
                }
            }
        }
    }
    Plan {
        property: ctx.property.clone(),
        mode: ctx.mode.clone(),
        all_prefixes: false,
        enumerate: None,
        pid_lookup_faults: faulty && rng.chance(1, 4),
        respawn: false,
        pid_namespace: false,
        steps,
    }
}

/// Simpler variants of an add command line: one non-default option reset at a time.
fn simpler_adds(o: &AddOpts) -> Vec<AddOpts> {
    let d = AddOpts {
        user_mode: o.user_mode,
        user: o.user,
        ..AddOpts::default()
    };
    let mut out = vec![];
    macro_rules! reset {
        ($($f:ident).+) => {
            if o.$($f).+ != d.$($f).+ {
                let mut c = o.clone();
                c.$($f).+ = d.$($f).+.clone();
                out.push(c);
            }
        };
    }
    if *o != d {
        out.push(d.clone());
    }
    reset!(count);
    reset!(auto_restart);
    reset!(auto_set_nat_flags);
    reset!(enable_metrics_server);
    reset!(env);
    reset!(evm);
    reset!(home_network);
    reset!(upnp);
    reset!(log_format);
    reset!(max_archived_log_files);
    reset!(max_log_files);
    reset!(metrics_port);
    reset!(node_port);
    reset!(rpc_port);
    reset!(network_id);
    reset!(node_ip);
    reset!(rpc_address);
    reset!(owner);
    reset!(peers.first);
    reset!(peers.local);
    reset!(peers.addrs);
    reset!(peers.urls);
    reset!(peers.testnet);
    reset!(peers.ignore_cache);
    reset!(same_dir);
    reset!(default_log);
    reset!(version);
    reset!(rewards);
    if o.user_mode {
        let mut c = o.clone();
        c.user_mode = false;
        c.user = 0;
        out.push(c);
    }
    out
}

impl Sim for ServicesSim {
    type Plan = Plan;
    const NAME: &'static str = "services";

    fn properties() -> Vec<PropertySpec> {
        vec![
            PropertySpec {
                id: "C19",
                level: "exploration",
                modes: vec!["nofault", "fault"],
                quick_runs: 20_000,
                thorough_runs: 40_000,
                rule: "One run = one seeded sequence of antctl invocations (add with random option vectors and counts 1..3, start, stop, remove, upgrade, status, by name or for all services), each executed as a fresh process: NodeRegistry::load from a real file, the real refresh_node_registry / add_node / ServiceManager<NodeService>::{start,stop,remove,upgrade}, save. All OS and RPC effects go to a simulated OS behind the repo's own ServiceControl / RpcActions traits. Mode fault adds: call #n (and sometimes #m) of an operation's ServiceControl/RpcActions calls fails with an error the real implementation returns, a launch that silently produces no process, external process death, manual removal of a service definition, and registry-file corruption between invocations; in the thorough tier (and 1/8 of quick fault runs) the failing call index of one operation per run is enumerated 0,1,2,... until it exceeds the calls made (inner evaluations). After every invocation the registry file is compared with the simulated OS. Non-trivial = >=3 operations and >=1 fault fired; distinct = distinct fingerprint of the executed operation kinds, results and fired faults.",
                assumptions: vec![
                    "the antctl glue in ant-node-manager/src/cmd/node.rs (load registry, refresh, select services, operate, save on the same conditions) is mirrored step for step by the harness because it hard-wires the real ServiceController and RpcClient; the fixed-interval std::thread::sleep of that glue is skipped",
                    "`antctl status` is mirrored with full_refresh=true as shipped; the RpcClient that refresh_node_registry constructs internally is replaced by the simulated RPC through a guarded factory seam (ant_node_manager::verif::set_rpc_factory)",
                    "ServiceControl::wait (std::thread::sleep of 3 s in the real implementation) is simulated time only",
                    "an injected get_process_pid failure is ServiceProcessNotFound for a live process (what the real sysinfo scan yields when the exe link is unreadable)",
                    "OS-assigned ports are never reused by the simulated OS; user-requested node/metrics/rpc ports come from disjoint small pools so collisions happen only between add commands",
                    "externally killed processes stay dead (no auto-restart by the simulated service manager)",
                    "a process death in the middle of an invocation happens right before an OS/RPC call and hits the process that call is about (pid lookup: that binary; start/stop/uninstall/install: that label; RPC: that endpoint)",
                ],
            },
            PropertySpec {
                id: "C20",
                level: "exploration",
                modes: vec!["plain", "faulty-lifecycle"],
                quick_runs: 4_000,
                thorough_runs: 60_000,
                rule: "One run = one seeded antctl add option vector (network selection incl. custom EVM, node/metrics/rpc ports and ranges, node ip, rpc address, peers arguments within antctl's own conflict rules, log format and retention, owner, home-network/UPnP/auto NAT flags, user mode or service user, environment, auto-restart, count 1..3), optionally a second add command, then [start -> (kill) -> stop], status, and one or two upgrades (forced or to a higher version, started or not, with or without --env), each as a fresh process from the saved registry; mode faulty-lifecycle injects failing OS/RPC calls into the steps before the final upgrade, including an upgrade attempt that fails half way. The simulated OS records every ServiceInstallCtx; program, user, label, working directory, contents, environment, autostart are compared field by field and both argument lists are given to the real antnode binary (guarded print-and-exit hook) whose parsed options and derived EVM network / socket address must be equal between install and upgrade (except the port pinned after a start) and equal to the configuration intended by the add command. Non-trivial = >=3 operations and >=1 fault fired (faulty-lifecycle); distinct = distinct fingerprint of operation kinds, results, fired faults and option vector.",
                assumptions: vec![
                    "option vectors are restricted to those antctl's command line accepts (--first excludes --peer/--network-contacts-url/--count, --local excludes --network-contacts-url, evm-local needs the local feature)",
                    "the antnode binary at $ANTNODE_VERIF_BIN is built from the same working tree with --cfg maidsafe_safe_network_verif; its hook prints after the real Opt::parse(), rewards-address and EVM-network derivation and exits before anything is started",
                    "upgrade environment: antctl passes --env if given, else the registry-wide environment_variables; auto_restart is taken from the recorded NodeServiceData as cmd/node.rs::upgrade does (mirrored)",
                    "the glue mirrored as for C19",
                ],
            },
        ]
    }

    fn generate(rng: &mut Rng, ctx: &GenCtx) -> Plan {
        match ctx.property.as_str() {
            "C20" => gen_c20(rng, ctx),
            _ => gen_c19(rng, ctx),
        }
    }

    fn execute(plan: &Plan, entropy: u64) -> RunReport {
        world::execute(plan, entropy)
    }

    fn shrink(plan: &Plan) -> Vec<Plan> {
        let mut out = vec![];
        if let Some(s) = plan.enumerate {
            // make the enumerated failing index explicit first
            for i in 0..24u32 {
                let mut p = plan.clone();
                p.enumerate = None;
                p.all_prefixes = false;
                if let Some(d) = p.steps.get_mut(s).and_then(|st| st.die_at_mut()) {
                    *d = None;
                }
                if let Some(f) = p.steps.get_mut(s).and_then(|st| st.fail_mut()) {
                    *f = vec![i];
                    out.push(p);
                }
            }
            let mut p = plan.clone();
            p.enumerate = None;
            out.push(p);
            return out;
        }
        for steps in simkit::shrink::remove_chunks(&plan.steps) {
            let mut p = plan.clone();
            p.steps = steps;
            out.push(p);
        }
        for steps in simkit::shrink::simplify_each(&plan.steps, |s| {
            let mut v = vec![];
            let mut c = s.clone();
            if let Some(f) = c.fail_mut() {
                if !f.is_empty() {
                    if f.len() > 1 {
                        for i in 0..f.len() {
                            let mut c2 = s.clone();
                            c2.fail_mut().expect("fail").remove(i);
                            v.push(c2);
                        }
                    }
                    f.clear();
                    v.push(c);
                }
            }
            if s.die_at().is_some() {
                let mut c3 = s.clone();
                if let Some(d) = c3.die_at_mut() {
                    *d = None;
                }
                v.push(c3);
            }
            match s {
                Step::Start { sel, interval, fail, silent: true, die_at } => v.push(Step::Start {
                    die_at: *die_at,
                    sel: sel.clone(),
                    interval: *interval,
                    fail: fail.clone(),
                    silent: false,
                }),
                Step::Upgrade { sel, force, do_not_start, ver, env, interval, fail, silent, die_at } => {
                    if *silent {
                        v.push(Step::Upgrade { sel: sel.clone(), force: *force, do_not_start: *do_not_start, ver: *ver, env: *env, interval: *interval, fail: fail.clone(), silent: false, die_at: *die_at });
                    }
                    if env.is_some() {
                        v.push(Step::Upgrade { sel: sel.clone(), force: *force, do_not_start: *do_not_start, ver: *ver, env: None, interval: *interval, fail: fail.clone(), silent: *silent, die_at: *die_at });
                    }
                    if !*do_not_start {
                        v.push(Step::Upgrade { sel: sel.clone(), force: *force, do_not_start: true, ver: *ver, env: *env, interval: *interval, fail: fail.clone(), silent: *silent, die_at: *die_at });
                    }
                }
                Step::Add { opts, fail } => {
                    for o in simpler_adds(opts) {
                        v.push(Step::Add { opts: o, fail: fail.clone() });
                    }
                }
                _ => {}
            }
            v
        }) {
            let mut p = plan.clone();
            p.steps = steps;
            out.push(p);
        }
        out
    }

    fn components() -> Vec<(&'static str, &'static str)> {
        vec![
            ("add_node, InstallNodeServiceCtxBuilder, port/count validation helpers", "real"),
            ("ServiceManager<NodeService>::{start, stop, remove, upgrade}, NodeService (on_start/on_stop/on_remove, build_upgrade_install_context)", "real"),
            ("refresh_node_registry (partial refresh), NodeRegistry::{save, load}", "real, real registry file in a per-run tmpfs directory"),
            ("data/log directories, service binaries, upgrade binary", "real small files and directories (create_owned_dir chowns to existing system users)"),
            ("antctl command glue (ant-node-manager/src/cmd/node.rs: add/start/stop/remove/upgrade/status)", "mirrored step for step by the harness, not run (hard-wires ServiceController and RpcClient)"),
            ("service-manager crate / systemd, process table (sysinfo), port allocation, user creation", "stub: simulated OS behind the existing ServiceControl trait"),
            ("node admin RPC (tonic client)", "stub: simulated behind the existing RpcActions trait, consistent with the simulated process table"),
            ("antnode argument parser (clap Opt, EvmNetworkCommand, PeersArgs) and rewards-address / EVM-network derivation", "real binary built from the working tree, guarded print-and-exit hook (C20)"),
            ("download of release binaries, get_bin_version", "stub: local files, version strings from the plan"),
        ]
    }
}

fn main() {
    // the per-user data directory (default log location of user-mode services) lives in the sandbox
    let xdg = std::path::PathBuf::from(format!("/dev/shm/antsim/{}/xdg", std::process::id()));
    let _ = std::fs::create_dir_all(&xdg);
    std::env::set_var("XDG_DATA_HOME", &xdg);
    simkit::check::main::<ServicesSim>();
}
