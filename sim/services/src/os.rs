//! The simulated OS: a systemd-like service manager, a process table keyed by binary path, a port
//! allocator, user accounts and the node's admin RPC. Implements the repo's own `ServiceControl` and
//! `RpcActions` traits, so the real `add_node` / `ServiceManager` / `refresh_node_registry` run against it.
//!
//! Every trait call is numbered within the current manager operation; the executor arms
//! "call #n of this operation fails" before an operation. Injected errors are of kinds the real
//! implementations (`ServiceController` over the `service-manager` crate, `RpcClient` over tonic) return.

use ant_service_management::control::ServiceControl;
use ant_service_management::error::{Error as SmError, Result as SmResult};
use ant_service_management::rpc::{NetworkInfo, NodeInfo, RecordAddress, RpcActions};
use async_trait::async_trait;
use libp2p::identity::Keypair;
use libp2p::{Multiaddr, PeerId};
use service_manager::ServiceInstallCtx;
use std::collections::{BTreeMap, BTreeSet};
use std::net::SocketAddr;
use std::path::{Path, PathBuf};
use std::sync::{Arc, Mutex};
use std::time::Duration;

#[derive(Clone, Debug)]
pub struct Installed {
    pub ctx: ServiceInstallCtx,
    pub user_mode: bool,
}

#[derive(Clone, Debug)]
pub struct Proc {
    pub pid: u32,
    pub label: String,
    pub rpc: Option<SocketAddr>,
    pub listen_port: u16,
    pub data_dir: PathBuf,
    pub log_dir: PathBuf,
}

/// One `install` call as the OS saw it.
#[derive(Clone, Debug)]
pub struct InstallRecord {
    pub label: String,
    pub ctx: ServiceInstallCtx,
    pub user_mode: bool,
    /// index of the manager operation (plan step) during which it happened
    pub op_index: usize,
    /// the label was already installed when this call arrived (definition overwritten)
    pub overwrote: bool,
}

#[derive(Default)]
pub struct OsState {
    pub installed: BTreeMap<String, Installed>,
    pub procs: BTreeMap<PathBuf, Proc>,
    pub users: BTreeSet<String>,
    pub next_pid: u32,
    /// a process that dies in the middle of an invocation is restarted at once under a new pid
    pub respawn_on_death: bool,
    pub next_tcp_port: u16,
    pub next_udp_port: u16,
    /// every listening port a label was ever given by the OS
    pub listen_history: BTreeMap<String, Vec<u16>>,
    /// every listening port the node's RPC successfully reported to the manager (network_info), per label
    pub reported_ports: BTreeMap<String, Vec<u16>>,
    pub installs: Vec<InstallRecord>,
    // ---- per-operation fault state
    pub op_index: usize,
    pub call_no: u32,
    pub fail_at: Vec<u32>,
    /// whether get_process_pid calls take part in the failing-call numbering of this run
    pub pid_lookup_faults: bool,
    /// added to the pid a node reports about itself over RPC (another PID namespace)
    pub rpc_pid_offset: u32,
    /// the next `start` returns Ok but the process never comes up ("you don't always get an error
    /// from the service infrastructure")
    pub silent_launch_failure: bool,
    /// (call number, method) of every injected failure that fired in this operation
    pub fired: Vec<(u32, &'static str)>,
    /// every call of this operation with its outcome
    pub calls: Vec<String>,
    pub waits_ms: u64,
    /// number of every trait call of this operation (pid lookups included), for `die_at`
    pub seq_no: u32,
    /// right before the call with this sequence number the process the call is about dies
    pub die_at: Option<u32>,
    /// (binary, label, call count right after the first pid lookup for that binary that followed the death
    /// within the same operation, if any)
    pub mid_op_killed: Vec<(PathBuf, String, Option<u32>, u32)>, // last field: pid of the dead process
}

impl OsState {
    pub fn new() -> Self {
        OsState {
            next_pid: 1000,
            respawn_on_death: false,
            next_tcp_port: 40000,
            next_udp_port: 50000,
            ..Default::default()
        }
    }

    pub fn begin_op(&mut self, op_index: usize, fail_at: &[u32], silent_launch_failure: bool) {
        self.op_index = op_index;
        self.call_no = 0;
        self.fail_at = fail_at.to_vec();
        self.silent_launch_failure = silent_launch_failure;
        self.fired.clear();
        self.calls.clear();
        self.seq_no = 0;
        self.die_at = None;
        self.mid_op_killed.clear();
    }

    /// Count this call; if it is the chosen one, the process selected by `which` dies before the call runs.
    fn maybe_die(&mut self, which: impl Fn(&PathBuf, &Proc) -> bool) {
        let n = self.seq_no;
        self.seq_no += 1;
        if self.die_at != Some(n) {
            return;
        }
        let victim = self.procs.iter().find(|(k, p)| which(k, p)).map(|(k, p)| (k.clone(), p.label.clone(), p.pid));
        if let Some((bin, label, pid)) = victim {
            if self.respawn_on_death {
                // the OS service manager restarts a crashed service at once: same service, new pid
                let new_pid = self.next_pid;
                self.next_pid += 1;
                if let Some(p) = self.procs.get_mut(&bin) {
                    p.pid = new_pid;
                }
                self.calls.push(format!("!! process of {label} dies and is restarted by the OS as pid {new_pid} (right before call #{n} of this invocation)"));
            } else {
                self.procs.remove(&bin);
                self.calls.push(format!("!! process of {label} dies (right before call #{n} of this invocation)"));
            }
            self.mid_op_killed.push((bin, label, None, pid));
        }
    }

    /// Number this call; true if it must fail.
    fn tick(&mut self, method: &'static str) -> bool {
        if method == "get_process_pid" && !self.pid_lookup_faults {
            return false;
        }
        let n = self.call_no;
        self.call_no += 1;
        if self.fail_at.contains(&n) {
            self.fired.push((n, method));
            true
        } else {
            false
        }
    }

    fn note(&mut self, s: String) {
        self.calls.push(s);
    }

    pub fn proc_of_rpc(&self, addr: &SocketAddr) -> Option<&Proc> {
        self.procs.values().find(|p| p.rpc.as_ref() == Some(addr))
    }

    /// External event: the process of `program` dies.
    pub fn kill(&mut self, program: &Path) -> bool {
        self.procs.remove(program).is_some()
    }

    /// External event: the user deletes the service definition by hand (the process, if any, keeps running).
    pub fn manual_uninstall(&mut self, label: &str) -> bool {
        self.installed.remove(label).is_some()
    }
}

fn arg_value(ctx: &ServiceInstallCtx, flag: &str) -> Option<String> {
    let mut it = ctx.args.iter();
    while let Some(a) = it.next() {
        if a.to_string_lossy() == flag {
            return it.next().map(|v| v.to_string_lossy().to_string());
        }
        // the EVM subcommand ends the node's own options
        if a.to_string_lossy().starts_with("evm-") {
            break;
        }
    }
    None
}

fn io_err(kind: std::io::ErrorKind, what: &str) -> SmError {
    SmError::Io(std::io::Error::new(kind, what.to_string()))
}

/// Identity of the node living in a data directory (the real node keeps its key in the root dir).
pub fn peer_id_for(label: &str) -> PeerId {
    let mut kb = [7u8; 32];
    let h = simkit::fnv_str(label).to_le_bytes();
    kb[..8].copy_from_slice(&h);
    Keypair::ed25519_from_bytes(kb)
        .expect("keypair")
        .public()
        .to_peer_id()
}

#[derive(Clone)]
pub struct SimControl(pub Arc<Mutex<OsState>>);

impl SimControl {
    pub fn lock(&self) -> std::sync::MutexGuard<'_, OsState> {
        self.0.lock().expect("os lock")
    }
}

impl ServiceControl for SimControl {
    fn create_service_user(&self, username: &str) -> SmResult<()> {
        let mut os = self.lock();
        os.maybe_die(|_, _| false);
        if os.tick("create_service_user") {
            os.note(format!("create_service_user({username}) -> ERR"));
            return Err(SmError::ServiceUserAccountCreationFailed);
        }
        os.users.insert(username.to_string());
        os.note(format!("create_service_user({username}) -> ok"));
        Ok(())
    }

    fn get_available_port(&self) -> SmResult<u16> {
        let mut os = self.lock();
        os.maybe_die(|_, _| false);
        if os.tick("get_available_port") {
            os.note("get_available_port -> ERR".into());
            return Err(io_err(std::io::ErrorKind::AddrNotAvailable, "bind 127.0.0.1:0 failed"));
        }
        let p = os.next_tcp_port;
        os.next_tcp_port += 1;
        os.note(format!("get_available_port -> {p}"));
        Ok(p)
    }

    fn install(&self, install_ctx: ServiceInstallCtx, user_mode: bool) -> SmResult<()> {
        let mut os = self.lock();
        let label = install_ctx.label.to_string();
        os.maybe_die(|_, p| p.label == label);
        if os.tick("install") {
            os.note(format!("install({label}) -> ERR"));
            return Err(io_err(std::io::ErrorKind::PermissionDenied, "cannot write service definition"));
        }
        let overwrote = os.installed.contains_key(&label);
        let op_index = os.op_index;
        os.installs.push(InstallRecord {
            label: label.clone(),
            ctx: install_ctx.clone(),
            user_mode,
            op_index,
            overwrote,
        });
        os.installed.insert(
            label.clone(),
            Installed {
                ctx: install_ctx,
                user_mode,
            },
        );
        os.note(format!("install({label}, user_mode={user_mode}) -> ok{}", if overwrote { " (overwrote)" } else { "" }));
        Ok(())
    }

    fn get_process_pid(&self, path: &Path) -> SmResult<u32> {
        let mut os = self.lock();
        let name = path
            .parent()
            .and_then(|p| p.file_name())
            .map(|s| s.to_string_lossy().to_string())
            .unwrap_or_default();
        os.maybe_die(|k, _| k.as_path() == path);
        let now = os.seq_no;
        let respawned = os.respawn_on_death;
        for d in os.mid_op_killed.iter_mut() {
            if d.0.as_path() == path && d.2.is_none() && !respawned {
                d.2 = Some(now); // the manager gets to see that the process is gone
            }
        }
        if os.tick("get_process_pid") {
            os.note(format!("get_process_pid({name}) -> ERR"));
            return Err(SmError::ServiceProcessNotFound(path.to_string_lossy().to_string()));
        }
        match os.procs.get(path).map(|p| p.pid) {
            Some(pid) => {
                os.note(format!("get_process_pid({name}) -> {pid}"));
                Ok(pid)
            }
            None => {
                os.note(format!("get_process_pid({name}) -> none"));
                Err(SmError::ServiceProcessNotFound(path.to_string_lossy().to_string()))
            }
        }
    }

    fn start(&self, service_name: &str, user_mode: bool) -> SmResult<()> {
        let mut os = self.lock();
        os.maybe_die(|_, p| p.label == service_name);
        if os.tick("start") {
            os.note(format!("start({service_name}) -> ERR"));
            return Err(io_err(std::io::ErrorKind::Other, "systemctl start failed"));
        }
        let inst = match os.installed.get(service_name) {
            Some(i) if i.user_mode == user_mode => i.clone(),
            _ => {
                os.note(format!("start({service_name}) -> no such unit"));
                return Err(io_err(std::io::ErrorKind::Other, "unit not found"));
            }
        };
        if os.procs.contains_key(&inst.ctx.program) {
            os.note(format!("start({service_name}) -> ok (already running)"));
            return Ok(());
        }
        if os.silent_launch_failure {
            os.silent_launch_failure = false;
            let n = os.call_no - 1;
            os.fired.push((n, "start:silent_launch_failure"));
            os.note(format!("start({service_name}) -> ok (process died at launch)"));
            return Ok(());
        }
        if !inst.ctx.program.is_file() {
            os.note(format!("start({service_name}) -> ok (binary missing, no process)"));
            return Ok(());
        }
        let pid = os.next_pid;
        os.next_pid += 1;
        let listen_port = match arg_value(&inst.ctx, "--port").and_then(|p| p.parse::<u16>().ok()) {
            Some(p) if p != 0 => p,
            _ => {
                let p = os.next_udp_port;
                os.next_udp_port += 1;
                p
            }
        };
        let proc_ = Proc {
            pid,
            label: service_name.to_string(),
            rpc: arg_value(&inst.ctx, "--rpc").and_then(|s| s.parse().ok()),
            listen_port,
            data_dir: arg_value(&inst.ctx, "--root-dir").map(PathBuf::from).unwrap_or_default(),
            log_dir: arg_value(&inst.ctx, "--log-output-dest").map(PathBuf::from).unwrap_or_default(),
        };
        os.listen_history
            .entry(service_name.to_string())
            .or_default()
            .push(listen_port);
        os.procs.insert(inst.ctx.program.clone(), proc_);
        os.note(format!("start({service_name}) -> ok pid {pid} udp {listen_port}"));
        Ok(())
    }

    fn stop(&self, service_name: &str, user_mode: bool) -> SmResult<()> {
        let mut os = self.lock();
        os.maybe_die(|_, p| p.label == service_name);
        if os.tick("stop") {
            os.note(format!("stop({service_name}) -> ERR"));
            return Err(io_err(std::io::ErrorKind::Other, "systemctl stop failed"));
        }
        let inst = match os.installed.get(service_name) {
            Some(i) if i.user_mode == user_mode => i.clone(),
            _ => {
                os.note(format!("stop({service_name}) -> no such unit"));
                return Err(io_err(std::io::ErrorKind::Other, "unit not loaded"));
            }
        };
        let had = os.procs.remove(&inst.ctx.program).is_some();
        os.note(format!("stop({service_name}) -> ok (had process: {had})"));
        Ok(())
    }

    fn uninstall(&self, service_name: &str, user_mode: bool) -> SmResult<()> {
        let mut os = self.lock();
        os.maybe_die(|_, p| p.label == service_name);
        if os.tick("uninstall") {
            os.note(format!("uninstall({service_name}) -> ERR"));
            return Err(io_err(std::io::ErrorKind::PermissionDenied, "cannot remove service definition"));
        }
        match os.installed.get(service_name) {
            Some(i) if i.user_mode == user_mode => {
                os.installed.remove(service_name);
                os.note(format!("uninstall({service_name}) -> ok"));
                Ok(())
            }
            _ => {
                os.note(format!("uninstall({service_name}) -> removed manually"));
                Err(SmError::ServiceRemovedManually(service_name.to_string()))
            }
        }
    }

    fn wait(&self, delay: u64) {
        // the real implementation is std::thread::sleep(delay ms); simulated time only
        let mut os = self.lock();
        os.waits_ms += delay;
    }
}

/// The admin RPC of the node listening on `addr`, as seen through the simulated OS.
pub struct SimRpc {
    pub os: SimControl,
    pub addr: SocketAddr,
}

impl SimRpc {
    fn endpoint(&self) -> String {
        format!("https://{}", self.addr)
    }
}

#[async_trait]
impl RpcActions for SimRpc {
    async fn node_info(&self) -> SmResult<NodeInfo> {
        let mut os = self.os.lock();
        let addr = self.addr;
        os.maybe_die(|_, p| p.rpc == Some(addr));
        if os.tick("rpc.node_info") {
            os.note("rpc.node_info -> ERR".into());
            return Err(SmError::RpcNodeInfoError("status: Unavailable".into()));
        }
        match os.proc_of_rpc(&self.addr).cloned() {
            Some(p) => {
                os.note(format!("rpc.node_info -> pid {}", p.pid));
                Ok(NodeInfo {
                    pid: p.pid + os.rpc_pid_offset,
                    peer_id: peer_id_for(&p.label),
                    log_path: p.log_dir.clone(),
                    data_path: p.data_dir.clone(),
                    version: "0.0.0".into(),
                    uptime: Duration::from_secs(1),
                    wallet_balance: 0,
                })
            }
            None => {
                os.note("rpc.node_info -> connection refused".into());
                Err(SmError::RpcConnectionError(self.endpoint()))
            }
        }
    }

    async fn network_info(&self) -> SmResult<NetworkInfo> {
        let mut os = self.os.lock();
        let addr = self.addr;
        os.maybe_die(|_, p| p.rpc == Some(addr));
        if os.tick("rpc.network_info") {
            os.note("rpc.network_info -> ERR".into());
            return Err(SmError::RpcNodeInfoError("status: Unavailable".into()));
        }
        match os.proc_of_rpc(&self.addr).cloned() {
            Some(p) => {
                os.note(format!("rpc.network_info -> udp {}", p.listen_port));
                os.reported_ports.entry(p.label.clone()).or_default().push(p.listen_port);
                let listeners: Vec<Multiaddr> = vec![
                    format!("/ip4/127.0.0.1/udp/{}/quic-v1", p.listen_port)
                        .parse()
                        .expect("multiaddr"),
                    format!("/ip4/192.168.1.7/udp/{}/quic-v1", p.listen_port)
                        .parse()
                        .expect("multiaddr"),
                    // a relayed listener (reported after the node's own sockets): the UDP port in it is the relay's
                    format!("/ip4/203.0.113.9/udp/5000/quic-v1/p2p/{}/p2p-circuit", peer_id_for("relay"))
                        .parse()
                        .expect("multiaddr"),
                ];
                Ok(NetworkInfo {
                    // some nodes have no peers yet (just started, genesis, isolated)
                    connected_peers: if p.pid % 3 == 0 { vec![] } else { vec![peer_id_for("peer-a"), peer_id_for("peer-b")] },
                    listeners,
                })
            }
            None => {
                os.note("rpc.network_info -> connection refused".into());
                Err(SmError::RpcConnectionError(self.endpoint()))
            }
        }
    }

    async fn record_addresses(&self) -> SmResult<Vec<RecordAddress>> {
        Ok(vec![])
    }

    async fn node_restart(&self, _delay_millis: u64, _retain_peer_id: bool) -> SmResult<()> {
        Ok(())
    }

    async fn node_stop(&self, _delay_millis: u64) -> SmResult<()> {
        Ok(())
    }

    async fn node_update(&self, _delay_millis: u64) -> SmResult<()> {
        Ok(())
    }

    async fn is_node_connected_to_network(&self, _timeout: Duration) -> SmResult<()> {
        let mut os = self.os.lock();
        let addr = self.addr;
        os.maybe_die(|_, p| p.rpc == Some(addr));
        if os.tick("rpc.is_node_connected_to_network") {
            os.note("rpc.is_node_connected_to_network -> ERR".into());
            return Err(SmError::RpcConnectionError(self.endpoint()));
        }
        if os.proc_of_rpc(&self.addr).is_some() {
            os.note("rpc.is_node_connected_to_network -> ok".into());
            Ok(())
        } else {
            os.note("rpc.is_node_connected_to_network -> timed out".into());
            Err(SmError::RpcConnectionError(self.endpoint()))
        }
    }

    async fn update_log_level(&self, _log_levels: String) -> SmResult<()> {
        Ok(())
    }
}
