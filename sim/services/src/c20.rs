//! C20 oracle: every ServiceInstallCtx the simulated OS received is compared (a) at installation with the
//! configuration the add command intended, (b) at upgrade with the definition written at installation.
//! Argument lists are compared by what the real antnode binary parses them into.

use crate::os::InstallRecord;
use crate::oracle::entries;
use crate::parse::{dbg, meaning_of, Meaning};
use crate::world::{contact_urls, env_set, evm_of, peer_addrs, rewards_of, Intended, World};
use crate::{PortSpec, Step, OWNERS, USERS};
use serde_json::Value;
use std::collections::BTreeMap;
use std::path::PathBuf;

const FAKE_ROOT: &str = "/antsim-root";

fn start_of(p: &Option<PortSpec>) -> Option<u16> {
    match p {
        None => None,
        Some(PortSpec::Single(a)) => Some(*a),
        Some(PortSpec::Range(a, _)) => Some(*a),
    }
}

fn offending(stderr: &str) -> String {
    let mut it = stderr.split('\'');
    it.next();
    it.next().unwrap_or("?").to_string()
}

/// (option, shape) naming what antnode choked on: an option whose value starts with a hyphen, else the
/// token clap complains about.
fn rejection_shape(args: &[String], stderr: &str) -> (String, String) {
    for w in args.windows(2) {
        if w[0].starts_with("--") && w[1].starts_with('-') && !w[1].starts_with("--") {
            return (w[0].clone(), "value_with_leading_hyphen".to_string());
        }
    }
    (offending(stderr), "other".to_string())
}

impl<'a> World<'a> {
    fn viol20(&mut self, rule: &str, sig: &[(&str, String)], detail: String) {
        let d = self.san(&detail);
        let p = self.prefix.clone();
        self.rep.violate("C20", rule, sig, format!("{p}{d}"));
    }

    fn sanitised_args(&self, rec: &InstallRecord) -> Vec<String> {
        let root = self.root.to_string_lossy().to_string();
        rec.ctx
            .args
            .iter()
            .map(|a| a.to_string_lossy().replace(&root, FAKE_ROOT).replace(crate::world::xdg_dir().as_str(), "/antsim-xdg"))
            .collect()
    }

    fn meaning(&mut self, rec: &InstallRecord) -> Option<Meaning> {
        let args = self.sanitised_args(rec);
        match meaning_of(&args) {
            Ok((m, hit)) => {
                self.rep.probe(if hit { "antnode_parse_cache_hit" } else { "antnode_parse_spawned" });
                Some(m)
            }
            Err(e) => {
                self.rep.harness_error = Some(e);
                None
            }
        }
    }

    /// Expected value of every parsed field for a service of an add command ("@os_port" = any port the OS
    /// handed out during that add).
    fn expected_meaning(&self, label: &str, it: &Intended) -> BTreeMap<String, String> {
        let o = &it.opts;
        let mut m = BTreeMap::new();
        let fake = PathBuf::from(FAKE_ROOT);
        let (data_base, log_base) = if o.same_dir {
            (fake.join("Shared"), fake.join("Shared"))
        } else {
            (fake.join("Data"), fake.join("Node Logs"))
        };
        let (upnp, home) = if o.auto_set_nat_flags {
            match it.nat {
                Some(0) => (false, false),
                Some(1) => (true, false),
                Some(_) => (false, true),
                None => (o.upnp, o.home_network),
            }
        } else {
            (o.upnp, o.home_network)
        };
        let mut put = |k: &str, v: String| {
            m.insert(k.to_string(), v);
        };
        put("home_network", dbg(&home));
        put("upnp", dbg(&upnp));
        // user mode on the default log location: logs go to a "logs" directory below the service's directory
        let log_dest = if o.user_mode && o.default_log {
            PathBuf::from("/antsim-xdg/autonomi/node").join(label).join("logs")
        } else {
            log_base.join(label)
        };
        put("log_output_dest", format!("Path({})", dbg(&log_dest)));
        put(
            "log_format",
            match o.log_format {
                None => "None".into(),
                Some(0) => "Some(Default)".into(),
                Some(_) => "Some(Json)".into(),
            },
        );
        put("max_log_files", dbg(&o.max_log_files.map(|v| v as usize)));
        put("max_archived_log_files", dbg(&o.max_archived_log_files.map(|v| v as usize)));
        put("network_id", dbg(&o.network_id));
        // the network id every protocol string of the node carries (trailing path segment), in the order
        // NETWORK_ID, node identify, client identify, request/response, identify protocol
        let nid = o.network_id.unwrap_or(1).to_string();
        put("derived.protocol_network_ids", dbg(&vec![nid.clone(), nid.clone(), nid.clone(), nid.clone(), nid]));
        put("derived.rewards_address", dbg(&rewards_of(o.rewards)));
        put("derived.evm_network", dbg(&evm_of(o.evm)));
        put("root_dir", dbg(&Some(data_base.join(label))));
        let port = start_of(&o.node_port).map(|p| p + it.ordinal).unwrap_or(0);
        let ip = o
            .node_ip
            .map(|b| std::net::Ipv4Addr::new(b[0], b[1], b[2], b[3]))
            .unwrap_or(std::net::Ipv4Addr::UNSPECIFIED);
        put("port", dbg(&port));
        put("ip", dbg(&ip));
        put("derived.node_socket_addr", dbg(&std::net::SocketAddr::new(ip.into(), port)));
        put("peers.first", dbg(&o.peers.first));
        put("peers.addrs", dbg(&peer_addrs(o.peers.addrs)));
        put("peers.network_contacts_url", dbg(&contact_urls(o.peers.urls)));
        put("peers.local", dbg(&o.peers.local));
        put("peers.disable_mainnet_contacts", dbg(&o.peers.testnet));
        put("peers.ignore_cache", dbg(&o.peers.ignore_cache));
        put(
            "peers.bootstrap_cache_dir",
            if o.user_mode {
                "None".into()
            } else {
                dbg(&Some(fake.join("var").join("bootstrap_cache")))
            },
        );
        let rpc_ip = o
            .rpc_address
            .map(|b| std::net::Ipv4Addr::new(b[0], b[1], b[2], b[3]))
            .unwrap_or(std::net::Ipv4Addr::new(127, 0, 0, 1));
        put(
            "rpc",
            match start_of(&o.rpc_port) {
                Some(p) => dbg(&Some(std::net::SocketAddr::new(rpc_ip.into(), p + it.ordinal))),
                None => format!("Some({rpc_ip}:@os_port)"),
            },
        );
        put("owner", dbg(&o.owner.map(|k| OWNERS[k as usize % OWNERS.len()].to_lowercase())));
        put(
            "metrics_server_port",
            match start_of(&o.metrics_port) {
                Some(p) => dbg(&(p + it.ordinal)),
                None if o.enable_metrics_server => "@os_port".into(),
                None => "0".into(),
            },
        );
        for k in ["enable_metrics_server", "crate_version", "protocol_version", "package_version", "version"] {
            put(k, "false".into());
        }
        m
    }

    fn matches_expected(exp: &str, act: &str, os_ports: &[u16]) -> bool {
        if let Some(pos) = exp.find("@os_port") {
            let (pre, post) = (&exp[..pos], &exp[pos + "@os_port".len()..]);
            if act.len() < pre.len() + post.len() || !act.starts_with(pre) || !act.ends_with(post) {
                return false;
            }
            return act[pre.len()..act.len() - post.len()]
                .parse::<u16>()
                .map(|p| os_ports.contains(&p))
                .unwrap_or(false);
        }
        exp == act
    }

    pub fn check_installs(&mut self, i: usize, step: &Step, pre: &Value, _fired: &[(u32, &'static str)]) {
        let recs: Vec<InstallRecord> = {
            let os = self.os.lock();
            os.installs[self.checked_installs.min(os.installs.len())..].to_vec()
        };
        self.checked_installs += recs.len();
        if self.plan.property != "C20" {
            for rec in recs {
                self.first_install.entry(rec.label.clone()).or_insert(rec);
            }
            return;
        }
        for rec in recs {
            if self.rep.harness_error.is_some() {
                return;
            }
            let label = rec.label.clone();
            match step {
                Step::Add { .. } => {
                    if self.first_install.contains_key(&label) {
                        continue; // duplicate name: C19's business
                    }
                    self.first_install.insert(label.clone(), rec.clone());
                    self.check_install_record(i, &label, &rec);
                }
                Step::Upgrade { env, .. } => {
                    let Some(first) = self.first_install.get(&label).cloned() else { continue };
                    self.check_upgrade_record(i, &label, &first, &rec, *env, pre);
                }
                _ => {}
            }
        }
    }

    fn check_install_record(&mut self, _i: usize, label: &str, rec: &InstallRecord) {
        let Some(it) = self.intended.get(label).cloned() else {
            self.rep.probe("install_without_registry_entry");
            return;
        };
        self.rep.probe("c20_install_checked");
        let o = &it.opts;
        let data_base = self.data_base(o);
        let exp_user = if o.user_mode { None } else { Some(USERS[o.user as usize % USERS.len()].to_string()) };
        let checks: Vec<(&str, String, String)> = vec![
            ("program", format!("{:?}", data_base.join(label).join("antnode")), format!("{:?}", rec.ctx.program)),
            ("username", format!("{exp_user:?}"), format!("{:?}", rec.ctx.username)),
            ("environment", format!("{:?}", o.env.map(env_set)), format!("{:?}", rec.ctx.environment)),
            ("autostart", format!("{:?}", o.auto_restart), format!("{:?}", rec.ctx.autostart)),
            ("working_directory", "None".into(), format!("{:?}", rec.ctx.working_directory)),
            ("contents", "None".into(), format!("{:?}", rec.ctx.contents)),
            ("user_mode", format!("{:?}", o.user_mode), format!("{:?}", rec.user_mode)),
        ];
        for (setting, exp, act) in checks {
            if exp != act {
                self.viol20(
                    "install.setting_not_intended",
                    &[("setting", setting.to_string())],
                    format!("{label}: {setting} of the installed definition is {act}, the add command intended {exp}"),
                );
            }
        }
        let Some(m) = self.meaning(rec) else { return };
        match m {
            Meaning::Rejected { code, stderr } => {
                let (option, shape) = rejection_shape(&self.sanitised_args(rec), &stderr);
                let args = self.sanitised_args(rec).join(" ");
                self.viol20(
                    "antnode.rejects_args",
                    &[("phase", "install".into()), ("option", option), ("shape", shape)],
                    format!("{label}: antnode exits {code:?} on the argument list written at installation: [{args}] :: {stderr}"),
                );
            }
            Meaning::Accepted(map) => {
                let exp = self.expected_meaning(label, &it);
                for (k, ev) in &exp {
                    let av = map.get(k).cloned().unwrap_or_else(|| "<absent>".into());
                    if !Self::matches_expected(ev, &av, &it.os_ports) {
                        self.viol20(
                            "install.meaning_not_intended",
                            &[("field", k.clone())],
                            format!("{label}: antnode reads {k} = {av} from the installed argument list, the add command intended {ev}"),
                        );
                    }
                }
            }
        }
    }

    fn check_upgrade_record(&mut self, i: usize, label: &str, first: &InstallRecord, rec: &InstallRecord, step_env: Option<u8>, pre: &Value) {
        self.rep.probe("c20_upgrade_compared");
        let a = &first.ctx;
        let b = &rec.ctx;
        let simple: Vec<(&str, String, String)> = vec![
            ("program", format!("{:?}", a.program), format!("{:?}", b.program)),
            ("username", format!("{:?}", a.username), format!("{:?}", b.username)),
            ("label", a.label.to_string(), b.label.to_string()),
            ("working_directory", format!("{:?}", a.working_directory), format!("{:?}", b.working_directory)),
            ("contents", format!("{:?}", a.contents), format!("{:?}", b.contents)),
            ("user_mode", format!("{:?}", first.user_mode), format!("{:?}", rec.user_mode)),
        ];
        for (setting, x, y) in simple {
            if x != y {
                self.viol20(
                    "upgrade.setting_changed",
                    &[("setting", setting.to_string()), ("shape", "differs".into())],
                    format!("{label}: {setting} was {x} at installation and is {y} in the definition written by the upgrade (step {i})"),
                );
            }
        }
        if a.autostart != b.autostart {
            self.viol20(
                "upgrade.setting_changed",
                &[("setting", "autostart".into()), ("shape", format!("{}->{}", a.autostart, b.autostart))],
                format!(
                    "{label}: installed with autostart={} (add --auto-restart), the upgrade rewrote the definition with autostart={} although the upgrade command has no such option",
                    a.autostart, b.autostart
                ),
            );
        }
        match step_env {
            Some(k) => {
                if b.environment != Some(env_set(k)) {
                    self.viol20(
                        "upgrade.setting_changed",
                        &[("setting", "environment".into()), ("shape", "explicit_env_not_applied".into())],
                        format!("{label}: upgrade --env {:?} but the definition has {:?}", env_set(k), b.environment),
                    );
                } else if a.environment != b.environment {
                    self.rep.probe("env_changed_explicitly_by_upgrade");
                }
            }
            None => {
                if a.environment != b.environment {
                    let add_step = self.intended.get(label).map(|x| x.add_step).unwrap_or(0);
                    let shape = if b.environment.is_none() {
                        "lost"
                    } else if self.env_adds.iter().any(|(s, _)| *s > add_step) {
                        "registry_wide_env_of_a_later_add"
                    } else {
                        "registry_wide_env_of_an_earlier_add"
                    };
                    self.viol20(
                        "upgrade.setting_changed",
                        &[("setting", "environment".into()), ("shape", shape.into())],
                        format!(
                            "{label}: environment was {:?} at installation and is {:?} after an upgrade without --env (the registry keeps one environment for all services)",
                            a.environment, b.environment
                        ),
                    );
                }
            }
        }
        let Some(ma) = self.meaning(first) else { return };
        let Some(mb) = self.meaning(rec) else { return };
        let mb = match mb {
            Meaning::Rejected { code, stderr } => {
                let (option, shape) = rejection_shape(&self.sanitised_args(rec), &stderr);
                let args = self.sanitised_args(rec).join(" ");
                self.viol20(
                    "antnode.rejects_args",
                    &[("phase", "upgrade".into()), ("option", option), ("shape", shape)],
                    format!("{label}: antnode exits {code:?} on the argument list written by the upgrade: [{args}] :: {stderr}"),
                );
                return;
            }
            Meaning::Accepted(m) => m,
        };
        let Meaning::Accepted(ma) = ma else { return };
        // the one difference the lifecycle makes explicitly: the port pinned to the listening port after a start
        let recorded_port = entries(pre)
            .into_iter()
            .find(|e| e.name == label)
            .and_then(|e| e.node_port);
        let listened: Vec<u16> = self.os.lock().listen_history.get(label).cloned().unwrap_or_default();
        // in a lifecycle without injected failures the manager was told every port the node ever listened on (each
        // successful start asks the node): the port pinned by the upgrade is the one the node reported last
        let reported_last: Option<u16> = self.os.lock().reported_ports.get(label).and_then(|v| v.last().copied());
        let strict = self.plan.mode == "plain";
        let keys: Vec<String> = ma.keys().chain(mb.keys()).cloned().collect::<std::collections::BTreeSet<_>>().into_iter().collect();
        for k in keys {
            let x = ma.get(&k).cloned().unwrap_or_else(|| "<absent>".into());
            let y = mb.get(&k).cloned().unwrap_or_else(|| "<absent>".into());
            if x == y {
                continue;
            }
            if k == "port" || k == "derived.node_socket_addr" {
                let was_unset = ma.get("port").map(|p| p == "0").unwrap_or(false);
                let new_port = mb.get("port").and_then(|p| p.parse::<u16>().ok());
                let pinned = was_unset
                    && new_port.is_some()
                    && recorded_port == new_port.map(|p| p as u64)
                    && new_port.map(|p| listened.contains(&p)).unwrap_or(false);
                if pinned && strict && new_port != reported_last {
                    self.viol20(
                        "upgrade.pinned_port_is_not_the_port_the_node_listens_on",
                        &[("field", k.clone())],
                        format!("{label}: installed without a port; the node last reported listening on {reported_last:?} (ports so far {listened:?}), the upgrade pins --port {new_port:?}: the node changes its address across the upgrade"),
                    );
                    continue;
                }
                if pinned {
                    if k == "port" {
                        self.rep.probe("port_pinned_after_start");
                        if listened.len() > 1 {
                            self.rep.probe("port_pinned_after_several_starts");
                        }
                    }
                    continue;
                }
            }
            self.viol20(
                "upgrade.meaning_differs",
                &[("field", k.clone())],
                format!("{label}: antnode reads {k} = {x} from the argument list written at installation and {y} from the one written by the upgrade (step {i})"),
            );
        }
    }
}
