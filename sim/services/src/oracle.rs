//! C19 oracle: after every antctl invocation the registry file (read as plain JSON by the harness) is
//! compared with the simulated OS.

use crate::world::{Intended, Outcome, World};
use crate::{AddOpts, PortSpec, Step};
use ant_service_management::NodeRegistry;
use serde_json::Value;
use std::collections::BTreeMap;
use std::path::PathBuf;

#[derive(Clone, Debug)]
pub struct Entry {
    pub idx: usize,
    pub name: String,
    pub status: String,
    pub pid: Option<u64>,
    pub bin: String,
    pub data: String,
    pub log: String,
    pub node_port: Option<u64>,
    pub metrics_port: Option<u64>,
    pub rpc_port: Option<u64>,
    pub number: u64,
}

pub fn entries(v: &Value) -> Vec<Entry> {
    let mut out = vec![];
    if let Some(nodes) = v["nodes"].as_array() {
        for (idx, n) in nodes.iter().enumerate() {
            let s = |k: &str| n[k].as_str().unwrap_or("").to_string();
            out.push(Entry {
                idx,
                name: s("service_name"),
                status: s("status"),
                pid: n["pid"].as_u64(),
                bin: s("antnode_path"),
                data: s("data_dir_path"),
                log: s("log_dir_path"),
                node_port: n["node_port"].as_u64(),
                metrics_port: n["metrics_port"].as_u64(),
                rpc_port: n["rpc_socket_addr"]
                    .as_str()
                    .and_then(|a| a.rsplit(':').next())
                    .and_then(|p| p.parse().ok()),
                number: n["number"].as_u64().unwrap_or(0),
            });
        }
    }
    out
}

fn fired_sig(fired: &[(u32, &'static str)]) -> String {
    if fired.is_empty() {
        "none".to_string()
    } else {
        let mut v: Vec<&str> = fired.iter().map(|(_, m)| *m).collect();
        v.dedup();
        v.join("+")
    }
}

fn expand(p: &Option<PortSpec>) -> Vec<u64> {
    match p {
        None => vec![],
        Some(PortSpec::Single(a)) => vec![*a as u64],
        Some(PortSpec::Range(a, b)) => (*a as u64..=*b as u64).collect(),
    }
}

fn first_difference(a: &str, b: &str) -> (String, String) {
    let i = a.bytes().zip(b.bytes()).position(|(x, y)| x != y).unwrap_or(a.len().min(b.len()));
    let from = i.saturating_sub(60);
    let cut = |s: &str| s.chars().skip(from).take(160).collect::<String>();
    (cut(a), cut(b))
}

impl<'a> World<'a> {
    fn viol(&mut self, rule: &str, sig: &[(&str, String)], detail: String, keep_going: bool) {
        let d = self.san(&detail);
        let p = self.prefix.clone();
        self.rep.violate("C19", rule, sig, format!("{p}{d}"));
        if !keep_going {
            self.stop_run = true;
        }
    }

    pub fn check_after_op(&mut self, _i: usize, step: &Step, out: &Outcome, pre: &Value, fired: &[(u32, &'static str)]) {
        let op = step.kind().to_string();
        let res = if out.ok() { "ok" } else { "err" }.to_string();
        let failing = fired_sig(fired);
        let pid_lookup_failed = if fired.iter().any(|(_, m)| *m == "get_process_pid") { "yes" } else { "no" }.to_string();
        // 1. the file the manager left behind is readable
        let post = match self.read_registry_value() {
            Ok(v) => v,
            Err(e) => {
                self.viol(
                    "registry.unreadable_after_op",
                    &[("op", op), ("failing_call", failing)],
                    format!("registry file is not valid JSON after the operation: {e}"),
                    false,
                );
                return;
            }
        };
        // 2. reloaded registry == saved registry
        match NodeRegistry::load(&self.reg_path) {
            Ok(reg) => {
                if let Some(saved) = &out.saved {
                    let loaded = serde_json::to_value(&reg).unwrap_or(Value::Null);
                    if loaded != *saved {
                        let a = self.san(&saved.to_string());
                        let b = self.san(&loaded.to_string());
                        self.viol(
                            "registry.reload_differs",
                            &[("op", op.clone())],
                            format!("saved registry and reloaded registry differ: saved={a} loaded={b}"),
                            false,
                        );
                        return;
                    }
                }
                // the same comparison on the values themselves (a Serialize impl that loses information makes the
                // two JSON forms above agree)
                if let Some(saved) = &out.saved_debug {
                    let loaded = format!("{:?}", reg.nodes);
                    if loaded != *saved {
                        let (a, b) = first_difference(saved, &loaded);
                        let (a, b) = (self.san(&a), self.san(&b));
                        self.viol(
                            "registry.reload_differs",
                            &[("op", op.clone()), ("how", "in_memory_value".into())],
                            format!("the registry that was saved and the registry that loads back differ: saved ...{a}... loaded ...{b}..."),
                            false,
                        );
                        return;
                    }
                }
            }
            Err(e) => {
                self.viol(
                    "registry.unloadable_after_op",
                    &[("op", op), ("failing_call", failing)],
                    format!("NodeRegistry::load fails on the file the operation saved: {e}"),
                    false,
                );
                return;
            }
        }
        let pre_e = entries(pre);
        let post_e = entries(&post);
        let rewritten = out.refreshed && out.saved.is_some();

        // 3. Running => live process with the recorded pid
        for e in &post_e {
            if e.status == "Running" {
                let live = self.os.lock().procs.get(&PathBuf::from(&e.bin)).map(|p| p.pid as u64);
                let ok = live.is_some() && live == e.pid;
                if ok {
                    self.stale.remove(&e.bin);
                    continue;
                }
                let unchanged = pre_e
                    .get(e.idx)
                    .map(|p| p.status == "Running" && p.pid == e.pid)
                    .unwrap_or(false);
                let mid = self.mid_deaths.get(&e.bin).copied();
                let died_mid = if mid.is_some() { "yes" } else { "no" };
                // (a) the process died by an external event, the record is untouched and this invocation did not
                //     both refresh and save;
                // (b) it died in the middle of this invocation, the record is about that very process and the
                //     registry was not saved after the manager's own pid lookup had shown it gone
                let excused = self.stale.contains(&e.bin)
                    && ((unchanged && !rewritten)
                        || match mid {
                            None => false,
                            Some((observed, pid)) => {
                                e.pid == Some(pid as u64)
                                    && match observed {
                                        None => true,
                                        Some(o) => out.last_save_seq.map(|s| s < o).unwrap_or(true),
                                    }
                            }
                        });
                let relaunch_failed = op == "start"
                    && matches!(mid, Some((Some(_), pid)) if e.pid == Some(pid as u64))
                    && out.per.iter().any(|(_, idx, r)| *idx == e.idx && r.is_err());
                // "a failed operation never newly records a service as running when it is not": a record that was
                // not Running with this pid before, written by an operation that failed for this very service,
                // is not excused by the process having died in the middle of the invocation
                let failed_here = out.per.iter().any(|(_, idx, r)| *idx == e.idx && r.is_err());
                // a record the refresh at the start of the invocation made (truthfully, the process was alive then)
                // is not a record made by the failed operation
                let recorded_by_refresh = out
                    .after_refresh
                    .as_ref()
                    .map(|v| entries(v))
                    .and_then(|es| es.get(e.idx).map(|r| r.status == "Running" && r.pid == e.pid))
                    .unwrap_or(false);
                if !unchanged && !recorded_by_refresh && failed_here && live.is_none() && !relaunch_failed {
                    self.viol(
                        "failed_operation_newly_records_running",
                        &[("op", op.clone()), ("died_mid_operation", died_mid.into())],
                        format!(
                            "`{op}` failed for {} yet the registry newly records it Running with pid {:?} while the OS has no process for its binary",
                            e.name, e.pid
                        ),
                        false,
                    );
                    return;
                }
                if excused {
                    // the process died by an external event and nothing written afterwards re-asserted the record
                    self.rep.probe("stale_running_record_after_external_death");
                    if matches!(mid, Some((Some(_), _))) {
                        self.rep.probe("death_seen_by_manager_after_its_last_save_not_persisted");
                    }
                    continue;
                }
                let shape = if live.is_none() { "no_process" } else { "pid_mismatch" };
                // ServiceManager::start on a service recorded Running whose process it finds dead goes straight
                // to a relaunch without marking it stopped; if the relaunch fails the old record survives.
                if relaunch_failed {
                    self.viol(
                        "start.relaunch_failed_record_kept_running",
                        &[("shape", shape.into()), ("died_mid_operation", "yes".into())],
                        format!(
                            "{} was recorded Running (pid {:?}); its process died during `start`, the manager saw it gone and tried to relaunch it, the relaunch failed, and the registry saved afterwards still records Running with the old pid (OS: {})",
                            e.name,
                            e.pid,
                            live.map(|p| format!("pid {p}")).unwrap_or("no process".into())
                        ),
                        true,
                    );
                    continue;
                }
                self.viol(
                    "running_without_process",
                    &[("op", op.clone()), ("result", res.clone()), ("failing_call", failing.clone()), ("shape", shape.into()), ("died_mid_operation", died_mid.into())],
                    format!(
                        "{} is recorded Running with pid {:?} after `{op}` ({res}) but the OS has {} for its binary",
                        e.name,
                        e.pid,
                        live.map(|p| format!("pid {p}")).unwrap_or("no process".into())
                    ),
                    false,
                );
                return;
            } else {
                self.stale.remove(&e.bin);
            }
        }

        // 3b. a status refresh (it stops nothing) does not record a service as not running while the very process it
        //     was recorded with is alive. Excused: a pid lookup that failed (the recorded finding about pid-lookup
        //     errors is reported by the stop/remove rules), a process that died and came back during the invocation.
        if matches!(step, Step::Status { .. }) && pid_lookup_failed == "no" {
            for e in &post_e {
                let Some(p) = pre_e.get(e.idx) else { continue };
                if p.status != "Running" || e.status == "Running" || e.status == "Removed" {
                    continue;
                }
                let live = self.os.lock().procs.get(&PathBuf::from(&e.bin)).map(|pr| pr.pid as u64);
                if live.is_some() && live == p.pid && !self.mid_deaths.contains_key(&e.bin) {
                    self.viol(
                        "status.live_service_recorded_not_running",
                        &[("failing_call", failing.clone()), ("result", res.clone())],
                        format!("{} was recorded Running with pid {:?}; its process is alive with that pid, yet after `status` ({res}) the registry records {} with pid {:?}", e.name, p.pid, e.status, e.pid),
                        false,
                    );
                    return;
                }
            }
        }

        // 4. per-service results
        let do_not_start = matches!(step, Step::Upgrade { do_not_start: true, .. });
        for (name, idx, r) in &out.per {
            let Some(e) = post_e.get(*idx) else { continue };
            let live = self.os.lock().procs.get(&PathBuf::from(&e.bin)).map(|p| p.pid);
            match (step, r) {
                (Step::Stop { .. }, Ok(_)) => {
                    if live.is_some() {
                        self.viol(
                            "stop.ok_but_process_alive",
                            &[("op", "stop".into()), ("failing_call", failing.clone()), ("pid_lookup_failed", pid_lookup_failed.clone())],
                            format!("stop of {name} succeeded, the registry says {} but the process (pid {live:?}) is alive", e.status),
                            false,
                        );
                        return;
                    }
                    if e.pid.is_some() || e.status == "Running" {
                        self.viol(
                            "stop.ok_but_still_recorded",
                            &[("op", "stop".into()), ("failing_call", failing.clone())],
                            format!("stop of {name} succeeded but the registry records status {} pid {:?}", e.status, e.pid),
                            false,
                        );
                        return;
                    }
                }
                (Step::Remove { .. }, Ok(_)) => {
                    if live.is_some() {
                        self.viol(
                            "remove.ok_but_process_alive",
                            &[("failing_call", failing.clone()), ("pid_lookup_failed", pid_lookup_failed.clone())],
                            format!("removal of {name} succeeded but its process (pid {live:?}) is alive"),
                            false,
                        );
                        return;
                    }
                    if e.pid.is_some() || e.status != "Removed" {
                        self.viol(
                            "remove.ok_but_still_recorded",
                            &[("failing_call", failing.clone())],
                            format!("removal of {name} succeeded but the registry records status {} pid {:?}", e.status, e.pid),
                            false,
                        );
                        return;
                    }
                    if self.os.lock().installed.contains_key(name) {
                        self.rep.probe("removed_but_definition_still_installed");
                    }
                }
                (Step::Remove { .. }, Err(_)) => {
                    // a removal that refuses (or fails) for a service whose process is alive must not write the
                    // service off: the record may not change from Running to stopped / no pid while it lives
                    let was_running = pre_e.get(*idx).map(|p| p.status == "Running").unwrap_or(false);
                    if was_running && e.status != "Running" && e.status != "Removed" && live.is_some() && pid_lookup_failed != "yes" {
                        self.viol(
                            "remove.failed_but_recorded_stopped_while_alive",
                            &[("failing_call", failing.clone())],
                            format!("removal of {name} failed, yet the registry now records {} (pid {:?}) while its process (pid {live:?}) is alive", e.status, e.pid),
                            false,
                        );
                        return;
                    }
                }
                (Step::Upgrade { .. }, Ok(txt)) => {
                    if do_not_start && !txt.starts_with("not-required") && e.status == "Stopped" && live.is_some() {
                        self.viol(
                            "stop.ok_but_process_alive",
                            &[("op", "upgrade".into()), ("failing_call", failing.clone()), ("pid_lookup_failed", pid_lookup_failed.clone())],
                            format!("upgrade of {name} (not started) succeeded, the registry says Stopped but the old process (pid {live:?}) is alive"),
                            false,
                        );
                        return;
                    }
                    if txt.starts_with("upgraded-not-started") {
                        self.rep.probe("upgraded_but_not_started");
                    }
                }
                (Step::Upgrade { .. }, Err(_)) => {
                    if !self.os.lock().installed.contains_key(name) && e.status != "Removed" {
                        self.rep.probe("failed_upgrade_left_no_service_definition");
                    }
                }
                (Step::Start { .. }, Ok(_)) => {
                    if e.status != "Running" {
                        self.viol(
                            "start.ok_but_not_running",
                            &[("failing_call", failing.clone())],
                            format!("start of {name} succeeded but the registry records status {}", e.status),
                            false,
                        );
                        return;
                    }
                    self.rep.probe("started");
                }
                (Step::Start { .. }, Err(_)) => {
                    if live.is_some() && e.status != "Running" {
                        self.rep.probe("failed_start_left_unrecorded_live_process");
                    }
                }
                _ => {}
            }
        }

        // 5. Removed stays Removed
        for idx in self.removed_idx.clone() {
            let st = post_e.get(idx).map(|e| e.status.clone());
            if st.as_deref() != Some("Removed") {
                self.viol(
                    "removed_not_sticky",
                    &[("op", op.clone()), ("failing_call", failing.clone())],
                    format!("registry entry {idx} was Removed, now {st:?} after `{op}`"),
                    false,
                );
                return;
            }
        }
        for e in &post_e {
            if e.status == "Removed" {
                if self.removed_idx.insert(e.idx) {
                    self.rep.probe("removed");
                }
            }
        }

        // 6. names, directories and recorded ports are unique
        if post != *pre {
            let pre_len = pre_e.len() as u64;
            let gap = pre_e.iter().map(|e| e.number).max().unwrap_or(0) > pre_len;
            let cause = if gap { "install_failure_left_number_gap" } else { "no_gap" };
            let mut seen: BTreeMap<(u8, String), usize> = BTreeMap::new();
            for e in &post_e {
                for (k, what, val) in [(0u8, "name", &e.name), (1, "data_dir", &e.data), (2, "log_dir", &e.log)] {
                    if let Some(first) = seen.insert((k, val.clone()), e.idx) {
                        self.viol(
                            &format!("registry.duplicate_{what}"),
                            &[("op", op.clone()), ("cause", cause.into())],
                            format!("registry entries {first} and {} record the same {what} {val} after `{op}`", e.idx),
                            false,
                        );
                        return;
                    }
                }
            }
            let mut ports: BTreeMap<u64, (usize, &str)> = BTreeMap::new();
            for e in &post_e {
                for (kind, p) in [("node", e.node_port), ("metrics", e.metrics_port), ("rpc", e.rpc_port)] {
                    if let Some(p) = p {
                        if let Some((first, k0)) = ports.insert(p, (e.idx, kind)) {
                            self.viol(
                                "registry.duplicate_port",
                                &[("op", op.clone()), ("kinds", format!("{k0}/{kind}"))],
                                format!("port {p} is recorded for entry {first} ({k0}) and entry {} ({kind}) after `{op}`", e.idx),
                                false,
                            );
                            return;
                        }
                    }
                }
            }
        }
        self.prev = post;
    }

    pub fn record_intended(&mut self, i: usize, opts: &AddOpts, pre_len: usize, pre_base: usize) {
        let os_ports: Vec<u16> = self
            .os
            .lock()
            .calls
            .iter()
            .filter_map(|c| c.strip_prefix("get_available_port -> ").and_then(|p| p.parse().ok()))
            .collect();
        for e in entries(&self.prev.clone()) {
            if e.idx >= pre_len && !self.intended.contains_key(&e.name) {
                self.intended.insert(
                    e.name.clone(),
                    Intended {
                        opts: opts.clone(),
                        ordinal: (e.number as usize).saturating_sub(pre_base + 1) as u16,
                        nat: self.nat,
                        os_ports: os_ports.clone(),
                        add_step: i,
                    },
                );
            }
        }
    }

    pub fn check_add(&mut self, _i: usize, opts: &AddOpts, out: &Outcome, pre: &Value, fired: &[(u32, &'static str)]) {
        if self.stop_run {
            return;
        }
        let pre_e = entries(pre);
        let post_e = entries(&self.prev.clone());
        let mut recorded: BTreeMap<u64, String> = BTreeMap::new();
        for e in &pre_e {
            for p in [e.node_port, e.metrics_port, e.rpc_port].into_iter().flatten() {
                recorded.insert(p, e.name.clone());
            }
        }
        let mut requested = expand(&opts.node_port);
        requested.extend(expand(&opts.metrics_port));
        requested.extend(expand(&opts.rpc_port));
        if let Some(p) = requested.iter().find(|p| recorded.contains_key(p)) {
            if out.ok() || post_e.len() != pre_e.len() {
                self.viol(
                    "add.port_conflict_not_refused",
                    &[("failing_call", fired_sig(fired))],
                    format!(
                        "add requested port {p}, already recorded for {}, and was not refused (result ok={}, entries {} -> {})",
                        recorded[p],
                        out.ok(),
                        pre_e.len(),
                        post_e.len()
                    ),
                    false,
                );
                return;
            }
            self.rep.probe("add_refused_for_recorded_port");
        }
        // every service this add installed in the OS (and left installed) is in the saved registry, however the
        // operation ended: an installed service the registry does not know is state that disagrees with reality,
        // and the next add would hand its name and data directory out again
        let orphan: Option<String> = {
            let os = self.os.lock();
            os.installs
                .iter()
                .filter(|r| r.op_index == _i && os.installed.contains_key(&r.label))
                .map(|r| r.label.clone())
                .find(|l| !post_e.iter().any(|e| &e.name == l))
        };
        if let Some(label) = orphan {
            self.viol(
                "add.installed_service_not_recorded",
                &[("failing_call", fired_sig(fired)), ("result", if out.ok() { "ok" } else { "err" }.into())],
                format!("add installed service {label} in the OS but the saved registry does not list it (entries {} -> {})", pre_e.len(), post_e.len()),
                false,
            );
            return;
        }
        if !out.ok() && post_e.len() > pre_e.len() {
            self.rep.probe("add_partially_failed");
        }
        if post_e.iter().map(|e| e.number).max().unwrap_or(0) > post_e.len() as u64 {
            self.rep.probe("registry_has_number_gap_after_failed_install");
        }
        if post_e.len() > pre_e.len() {
            self.rep.probe_n("services_added", (post_e.len() - pre_e.len()) as u64);
        }
    }
}
