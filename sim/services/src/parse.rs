//! "Parsed meaning" of an argument list: what the real `antnode` binary (built from the same tree with the
//! guarded print-and-exit hook) makes of it.

use std::collections::{BTreeMap, HashMap};
use std::path::PathBuf;
use std::sync::{Mutex, OnceLock};

pub const DEFAULT_BIN: &str = "/verif/target/antnode-verif/release/antnode";

pub fn antnode_bin() -> PathBuf {
    std::env::var("ANTNODE_VERIF_BIN")
        .map(PathBuf::from)
        .unwrap_or_else(|_| PathBuf::from(DEFAULT_BIN))
}

#[derive(Clone, Debug, PartialEq, Eq)]
pub enum Meaning {
    /// exit 0: flattened `Opt` fields ("peers.first" style keys, values whitespace-normalised) plus the
    /// derived values printed by the hook ("derived.evm_network", ...)
    Accepted(BTreeMap<String, String>),
    /// antnode refused the argument list
    Rejected { code: Option<i32>, stderr: String },
}

static CACHE: OnceLock<Mutex<HashMap<Vec<String>, Meaning>>> = OnceLock::new();

/// Run the hooked antnode on `args` (already made independent of the per-run directory).
/// Err = the harness's own problem (binary missing, hook output not understood).
pub fn meaning_of(args: &[String]) -> Result<(Meaning, bool), String> {
    let cache = CACHE.get_or_init(|| Mutex::new(HashMap::new()));
    if let Some(m) = cache.lock().expect("cache").get(args) {
        return Ok((m.clone(), true));
    }
    let bin = antnode_bin();
    if !bin.is_file() {
        return Err(format!(
            "hooked antnode binary {bin:?} not found (set ANTNODE_VERIF_BIN or run the setup build)"
        ));
    }
    let out = std::process::Command::new(&bin)
        .args(args)
        .env_clear()
        .env("ANT_VERIF_PRINT_OPT", "1")
        .env("HOME", "/nonexistent-antsim-home")
        .stdin(std::process::Stdio::null())
        .output()
        .map_err(|e| format!("cannot run {bin:?}: {e}"))?;
    let stdout = String::from_utf8_lossy(&out.stdout).to_string();
    let stderr = String::from_utf8_lossy(&out.stderr).to_string();
    let m = if out.status.success() {
        if !stdout.contains("ANT_VERIF_OPT_BEGIN") || !stdout.contains("ANT_VERIF_OPT_END") {
            return Err(format!(
                "{bin:?} exited 0 without the verification hook output (not built with --cfg maidsafe_safe_network_verif?)"
            ));
        }
        Meaning::Accepted(parse_hook_output(&stdout)?)
    } else {
        Meaning::Rejected {
            code: out.status.code(),
            stderr: stderr.lines().take(6).collect::<Vec<_>>().join(" | "),
        }
    };
    let mut c = cache.lock().expect("cache");
    if c.len() > 200_000 {
        c.clear();
    }
    c.insert(args.to_vec(), m.clone());
    Ok((m, false))
}

/// Collapse whitespace and drop the trailing commas of the pretty printer, so that `{:#?}` and `{:?}`
/// renderings of the same value compare equal.
pub fn normalise(s: &str) -> String {
    let mut out = String::with_capacity(s.len());
    let mut in_str = false;
    let mut esc = false;
    for ch in s.chars() {
        if in_str {
            out.push(ch);
            if esc {
                esc = false;
            } else if ch == '\\' {
                esc = true;
            } else if ch == '"' {
                in_str = false;
            }
            continue;
        }
        if ch == '"' {
            in_str = true;
            out.push(ch);
            continue;
        }
        if ch.is_whitespace() {
            continue;
        }
        if matches!(ch, ')' | ']' | '}') && out.ends_with(',') {
            out.pop();
        }
        out.push(ch);
    }
    out
}

fn indent_of(line: &str) -> usize {
    line.len() - line.trim_start_matches(' ').len()
}

/// Fields of a pretty-printed struct body: lines at `indent` of the form `name: value...`, a value running
/// until the next line at the same indent.
fn fields_at(lines: &[&str], indent: usize) -> Vec<(String, Vec<String>)> {
    let mut out: Vec<(String, Vec<String>)> = vec![];
    for l in lines {
        if indent_of(l) == indent && !l.trim().is_empty() {
            let t = l.trim();
            let starts_field = t
                .split_once(": ")
                .or_else(|| t.strip_suffix(':').map(|k| (k, "")))
                .map(|(k, _)| !k.is_empty() && k.chars().all(|c| c.is_ascii_alphanumeric() || c == '_'))
                .unwrap_or(false);
            if starts_field {
                let (k, v) = t.split_once(": ").unwrap_or((t.trim_end_matches(':'), ""));
                out.push((k.to_string(), vec![v.to_string()]));
                continue;
            }
        }
        if let Some(last) = out.last_mut() {
            last.1.push(l.to_string());
        }
    }
    out
}

fn parse_hook_output(stdout: &str) -> Result<BTreeMap<String, String>, String> {
    let mut map = BTreeMap::new();
    let lines: Vec<&str> = stdout.lines().collect();
    let b = lines
        .iter()
        .position(|l| *l == "ANT_VERIF_OPT_BEGIN")
        .ok_or("no begin marker")?;
    let e = lines
        .iter()
        .position(|l| *l == "ANT_VERIF_OPT_END")
        .ok_or("no end marker")?;
    if e < b + 3 || lines[b + 1].trim() != "Opt {" || lines[e - 1].trim() != "}" {
        return Err(format!("unexpected hook output shape: {:?}", &lines[b..=e.min(b + 3)]));
    }
    let body = &lines[b + 2..e - 1];
    for (k, v) in fields_at(body, 4) {
        if k == "peers" {
            // PeersArgs { ... }: one level deeper
            let n = v.len();
            let inner: Vec<&str> = v
                .iter()
                .take(n.saturating_sub(1))
                .skip(1)
                .map(|s| s.as_str())
                .collect();
            for (pk, pv) in fields_at(&inner, 8) {
                map.insert(format!("peers.{pk}"), normalise(pv.join("\n").trim_end_matches(',')));
            }
        } else {
            map.insert(k, normalise(v.join("\n").trim_end_matches(',')));
        }
    }
    for l in &lines[e + 1..] {
        if let Some(rest) = l.strip_prefix("ANT_VERIF_DERIVED ") {
            if let Some((k, v)) = rest.split_once('=') {
                map.insert(format!("derived.{k}"), normalise(v));
            }
        }
    }
    if !map.contains_key("port") || !map.contains_key("peers.first") || !map.contains_key("derived.evm_network") {
        return Err(format!("hook output not understood: {map:?}"));
    }
    Ok(map)
}

/// `{:?}` of a value, normalised like the hook output.
pub fn dbg<T: std::fmt::Debug>(v: &T) -> String {
    normalise(&format!("{v:?}"))
}
