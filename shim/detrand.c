/* Deterministic getrandom(2) for simulation runs.
 *
 * Loaded with LD_PRELOAD. Interposes getrandom() and syscall(SYS_getrandom, ...) so that every
 * consumer of OS entropy in the process (std's HashMap RandomState, rand::thread_rng / OsRng,
 * libp2p key generation) draws from a SplitMix64 stream instead.
 *
 * The stream is THREAD-LOCAL and starts from a process-wide default seed; a simulated run executes
 * on a fresh OS thread and first calls verif_det_reseed(seed), so one seed is one stream no matter
 * which other threads exist or what they drew.
 */
#define _GNU_SOURCE
#include <errno.h>
#include <stdarg.h>
#include <stddef.h>
#include <stdint.h>
#include <sys/syscall.h>
#include <sys/types.h>
#include <unistd.h>

static __thread uint64_t state = 0x5eed5eed5eed5eedULL;
static __thread uint64_t draws = 0;

static uint64_t next64(void) {
    uint64_t z = (state += 0x9e3779b97f4a7c15ULL);
    z = (z ^ (z >> 30)) * 0xbf58476d1ce4e5b9ULL;
    z = (z ^ (z >> 27)) * 0x94d049bb133111ebULL;
    return z ^ (z >> 31);
}

static void fill(void *buf, size_t len) {
    unsigned char *p = (unsigned char *)buf;
    while (len > 0) {
        uint64_t v = next64();
        size_t n = len < 8 ? len : 8;
        for (size_t i = 0; i < n; i++) p[i] = (unsigned char)(v >> (8 * i));
        p += n;
        len -= n;
    }
    draws++;
}

void verif_det_reseed(uint64_t seed) {
    state = seed ^ 0xa5a5a5a5deadbeefULL;
    draws = 0;
}

uint64_t verif_det_draws(void) { return draws; }

int verif_det_loaded(void) { return 1; }

ssize_t getrandom(void *buf, size_t buflen, unsigned int flags) {
    (void)flags;
    fill(buf, buflen);
    return (ssize_t)buflen;
}

int getentropy(void *buf, size_t buflen) {
    if (buflen > 256) {
        errno = EIO;
        return -1;
    }
    fill(buf, buflen);
    return 0;
}

static long raw_syscall6(long n, long a, long b, long c, long d, long e, long f) {
    long ret;
    register long r10 __asm__("r10") = d;
    register long r8 __asm__("r8") = e;
    register long r9 __asm__("r9") = f;
    __asm__ volatile("syscall"
                     : "=a"(ret)
                     : "a"(n), "D"(a), "S"(b), "d"(c), "r"(r10), "r"(r8), "r"(r9)
                     : "rcx", "r11", "memory");
    return ret;
}

long syscall(long number, ...) {
    va_list ap;
    va_start(ap, number);
    long a = va_arg(ap, long), b = va_arg(ap, long), c = va_arg(ap, long);
    long d = va_arg(ap, long), e = va_arg(ap, long), f = va_arg(ap, long);
    va_end(ap);
    if (number == SYS_getrandom) {
        fill((void *)a, (size_t)b);
        return b;
    }
    long ret = raw_syscall6(number, a, b, c, d, e, f);
    if (ret < 0 && ret > -4096) {
        errno = (int)-ret;
        return -1;
    }
    return ret;
}
