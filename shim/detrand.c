/* Deterministic getrandom(2) for simulation runs.
 *
 * Loaded with LD_PRELOAD. Interposes getrandom() and syscall(SYS_getrandom, ...) so that every
 * consumer of OS entropy in the process (std's HashMap RandomState, rand::thread_rng / OsRng,
 * libp2p key generation) draws from a SplitMix64 stream instead.
 *
 * The stream is THREAD-LOCAL and starts from a process-wide default seed; a simulated run executes
 * on a fresh OS thread and first calls verif_det_reseed(seed), so one seed is one stream no matter
 * which other threads exist or what they drew.
 */
#define _GNU_SOURCE
#include <errno.h>
#include <stdarg.h>
#include <stddef.h>
#include <stdint.h>
#include <sys/syscall.h>
#include <sys/types.h>
#include <unistd.h>

static __thread uint64_t state = 0x5eed5eed5eed5eedULL;
static __thread uint64_t draws = 0;

static uint64_t next64(void) {
    uint64_t z = (state += 0x9e3779b97f4a7c15ULL);
    z = (z ^ (z >> 30)) * 0xbf58476d1ce4e5b9ULL;
    z = (z ^ (z >> 27)) * 0x94d049bb133111ebULL;
    return z ^ (z >> 31);
}

static void fill(void *buf, size_t len) {
    unsigned char *p = (unsigned char *)buf;
    while (len > 0) {
        uint64_t v = next64();
        size_t n = len < 8 ? len : 8;
        for (size_t i = 0; i < n; i++) p[i] = (unsigned char)(v >> (8 * i));
        p += n;
        len -= n;
    }
    draws++;
}

void verif_det_reseed(uint64_t seed) {
    state = seed ^ 0xa5a5a5a5deadbeefULL;
    draws = 0;
}

uint64_t verif_det_draws(void) { return draws; }

int verif_det_loaded(void) { return 1; }

ssize_t getrandom(void *buf, size_t buflen, unsigned int flags) {
    (void)flags;
    fill(buf, buflen);
    return (ssize_t)buflen;
}

int getentropy(void *buf, size_t buflen) {
    if (buflen > 256) {
        errno = EIO;
        return -1;
    }
    fill(buf, buflen);
    return 0;
}

static void verif_fs_point_fwd(const char *path);

static long raw_syscall6(long n, long a, long b, long c, long d, long e, long f) {
    long ret;
    register long r10 __asm__("r10") = d;
    register long r8 __asm__("r8") = e;
    register long r9 __asm__("r9") = f;
    __asm__ volatile("syscall"
                     : "=a"(ret)
                     : "a"(n), "D"(a), "S"(b), "d"(c), "r"(r10), "r"(r8), "r"(r9)
                     : "rcx", "r11", "memory");
    return ret;
}

long syscall(long number, ...) {
    va_list ap;
    va_start(ap, number);
    long a = va_arg(ap, long), b = va_arg(ap, long), c = va_arg(ap, long);
    long d = va_arg(ap, long), e = va_arg(ap, long), f = va_arg(ap, long);
    va_end(ap);
    if (number == SYS_getrandom) {
        fill((void *)a, (size_t)b);
        return b;
    }
    if (number == SYS_statx) verif_fs_point_fwd((const char *)b);
    if (number == SYS_openat) verif_fs_point_fwd((const char *)b);
    long ret = raw_syscall6(number, a, b, c, d, e, f);
    if (ret < 0 && ret > -4096) {
        errno = (int)-ret;
        return -1;
    }
    return ret;
}

/* ------------------------------------------------------------------------------------------------
 * File-system call points (simulation seam for interleavings BETWEEN the file system calls of one
 * operation, e.g. a loader that stats and then opens a file while another process replaces it).
 *
 * A thread arms a needle (substring of the path), the index of the matching call BEFORE which a
 * callback fires once, and the callback. Calls by path that are counted: open/open64/openat/openat64,
 * stat-family through statx/stat/lstat/fstatat. Without an armed needle every call goes straight
 * through. Everything is thread-local: other simulated runs are not affected.
 */
#include <fcntl.h>
#include <string.h>

typedef void (*verif_fs_cb)(void);
static __thread char fs_needle[256];
static __thread int fs_armed = 0;
static __thread int fs_fire_at = -1;
static __thread int fs_count = 0;
static __thread verif_fs_cb fs_cb = 0;

void verif_fs_arm(const char *needle, int fire_at, verif_fs_cb cb) {
    size_t n = strlen(needle);
    if (n >= sizeof(fs_needle)) n = sizeof(fs_needle) - 1;
    memcpy(fs_needle, needle, n);
    fs_needle[n] = 0;
    fs_fire_at = fire_at;
    fs_cb = cb;
    fs_count = 0;
    fs_armed = 1;
}

int verif_fs_disarm(void) {
    fs_armed = 0;
    fs_cb = 0;
    return fs_count;
}

static void fs_point(const char *path) {
    if (!fs_armed || !path || !strstr(path, fs_needle)) return;
    int n = fs_count++;
    if (n == fs_fire_at && fs_cb) {
        verif_fs_cb cb = fs_cb;
        fs_cb = 0;
        fs_armed = 0; /* the callback's own file system calls are not counted */
        cb();
        fs_armed = 1;
    }
}

static long ret_errno(long ret) {
    if (ret < 0 && ret > -4096) {
        errno = (int)-ret;
        return -1;
    }
    return ret;
}

static int needs_mode(int flags) {
#ifdef O_TMPFILE
    if ((flags & O_TMPFILE) == O_TMPFILE) return 1;
#endif
    return (flags & O_CREAT) != 0;
}

int open(const char *path, int flags, ...) {
    mode_t mode = 0;
    if (needs_mode(flags)) {
        va_list ap;
        va_start(ap, flags);
        mode = (mode_t)va_arg(ap, int);
        va_end(ap);
    }
    fs_point(path);
    return (int)ret_errno(raw_syscall6(SYS_openat, AT_FDCWD, (long)path, flags, mode, 0, 0));
}

int open64(const char *path, int flags, ...) {
    mode_t mode = 0;
    if (needs_mode(flags)) {
        va_list ap;
        va_start(ap, flags);
        mode = (mode_t)va_arg(ap, int);
        va_end(ap);
    }
    fs_point(path);
    return (int)ret_errno(raw_syscall6(SYS_openat, AT_FDCWD, (long)path, flags | O_LARGEFILE, mode, 0, 0));
}

int openat(int dirfd, const char *path, int flags, ...) {
    mode_t mode = 0;
    if (needs_mode(flags)) {
        va_list ap;
        va_start(ap, flags);
        mode = (mode_t)va_arg(ap, int);
        va_end(ap);
    }
    fs_point(path);
    return (int)ret_errno(raw_syscall6(SYS_openat, dirfd, (long)path, flags, mode, 0, 0));
}

int openat64(int dirfd, const char *path, int flags, ...) {
    mode_t mode = 0;
    if (needs_mode(flags)) {
        va_list ap;
        va_start(ap, flags);
        mode = (mode_t)va_arg(ap, int);
        va_end(ap);
    }
    fs_point(path);
    return (int)ret_errno(raw_syscall6(SYS_openat, dirfd, (long)path, flags | O_LARGEFILE, mode, 0, 0));
}

struct statx;
int statx(int dirfd, const char *path, int flags, unsigned int mask, struct statx *buf) {
    fs_point(path);
    return (int)ret_errno(raw_syscall6(SYS_statx, dirfd, (long)path, flags, mask, (long)buf, 0));
}

static void verif_fs_point_fwd(const char *path) { fs_point(path); }

struct stat;
struct stat64;
int fstatat(int dirfd, const char *path, struct stat *buf, int flags) {
    fs_point(path);
    return (int)ret_errno(raw_syscall6(SYS_newfstatat, dirfd, (long)path, (long)buf, flags, 0, 0));
}
int fstatat64(int dirfd, const char *path, struct stat64 *buf, int flags) {
    fs_point(path);
    return (int)ret_errno(raw_syscall6(SYS_newfstatat, dirfd, (long)path, (long)buf, flags, 0, 0));
}
int stat(const char *path, struct stat *buf) { return fstatat(AT_FDCWD, path, buf, 0); }
int stat64(const char *path, struct stat64 *buf) { return fstatat64(AT_FDCWD, path, buf, 0); }
int lstat(const char *path, struct stat *buf) { return fstatat(AT_FDCWD, path, buf, AT_SYMLINK_NOFOLLOW); }
int lstat64(const char *path, struct stat64 *buf) { return fstatat64(AT_FDCWD, path, buf, AT_SYMLINK_NOFOLLOW); }
