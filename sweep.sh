#!/usr/bin/env bash
# Multi-seed sweep on the unchanged tree, meant for `vp run --with-repo -- ./sweep.sh <tier> <workers> <seed>... [-- <id>...]`.
# Flushes out false alarms (and rare genuine violations) before they can reach a user of the default seed.
# When VP_RUN_REPO is set (snapshot of /repo's HEAD) the sims of this snapshot are pointed at it, so that
# changes applied temporarily to /repo (seeded/eval.sh) cannot disturb the sweep. Results are NOT evidence.
set -u
cd "$(dirname "${BASH_SOURCE[0]}")"
tier="${1:-quick}"; workers="${2:-8}"; shift 2 || true
seeds=(); ids=()
while [ $# -gt 0 ]; do
  if [ "$1" = "--" ]; then shift; ids=("$@"); break; fi
  seeds+=("$1"); shift
done
[ ${#ids[@]} -gt 0 ] || ids=(C01 C02 C03 C04 C05 C06 C07 C08 C09 C10 C14 C15 C18 C19 C20)
if [ -n "${VP_RUN_REPO:-}" ] && [ "$(pwd)" != /verif ]; then
  grep -rl '"/repo/' sim --include=Cargo.toml | xargs sed -i "s#\"/repo/#\"$VP_RUN_REPO/#g"
  sed -i "s#--manifest-path /repo/Cargo.toml#--manifest-path $VP_RUN_REPO/Cargo.toml#" run
fi
if [ "$(pwd)" != /verif ]; then
  # the snapshot must not build into /verif/target
  sed -i "s#target-dir = \"/verif/target\"#target-dir = \"$(pwd)/target\"#" sim/.cargo/config.toml
fi
./run setup > setup.log 2>&1 || { tail -20 setup.log; echo "SWEEP setup failed"; exit 2; }
bad=0
for s in "${seeds[@]}"; do
  for id in "${ids[@]}"; do
    t0=$(date +%s)
    ./run check "$id" --tier "$tier" --seed "$s" --workers "$workers" > "sweep-$id-$s.log" 2>&1; rc=$?
    t1=$(date +%s)
    echo "SWEEP seed=$s $id rc=$rc $((t1-t0))s $(grep -E '^(VIOLATION|HARNESS)' "sweep-$id-$s.log" | head -2 | tr '\n' ' ')"
    if [ $rc -ne 0 ]; then bad=$((bad+1)); grep -E "^violation in run" "sweep-$id-$s.log" | head -3 | cut -c1-400; fi
  done
done
echo "SWEEP done bad=$bad"
